#!/bin/sh
# dev helper for seeded changes.
#   seedtool.sh vet <ID> <a|b>         vet /tmp/seedout/<ID>/<x>: tests still pass, demo fails with / passes without; store in /verif/seeded/<ID>_<x>
#   seedtool.sh run <seeded-dir> [ID] [tier]   run ./check <ID> against a scratch copy of /repo with the seed applied
set -u
cmd=$1; shift
case $cmd in
vet)
  ID=$1; X=$2; SRC=/tmp/seedout/$ID/$X; WT=/tmp/wt/vet_$ID$X
  [ -f $SRC/patch.diff ] || { echo "no patch in $SRC"; exit 2; }
  git -C /repo worktree add --detach $WT HEAD -q || exit 2
  mkdir -p /tmp/wt
  r0=$(/verif/wtrun.sh $WT $SRC/demo.py >/tmp/vet_$ID$X.orig.log 2>&1; echo $?)
  git -C $WT apply $SRC/patch.diff || { echo "patch does not apply"; git -C /repo worktree remove --force $WT; exit 2; }
  r1=$(/verif/wtrun.sh $WT $SRC/demo.py >/tmp/vet_$ID$X.mut.log 2>&1; echo $?)
  t=$(cd $WT && /tmp/agents/treepy $WT -m pytest -q -p no:cacheprovider --timeout=900 tests 2>&1 | tail -1)
  git -C /repo worktree remove --force $WT
  echo "$ID/$X demo_orig=$r0 demo_mut=$r1 tests: $t"
  case "$t" in *"162 passed"*) ok=1;; *) ok=0;; esac
  if [ "$r0" = 0 ] && [ "$r1" != 0 ] && [ $ok = 1 ]; then
    D=/verif/seeded/${ID}_$X; mkdir -p $D
    cp $SRC/patch.diff $SRC/demo.py $D/; cp $SRC/notes.md $D/ 2>/dev/null
    echo "KEPT -> $D"
  else
    echo "REJECTED"
  fi
  ;;
run)
  SD=$1; ID=${2:-$(basename $SD | cut -d_ -f1)}; TIER=${3:-quick}
  D=$(mktemp -d /tmp/seedrun.XXXXXX)
  rsync -a --exclude .git /repo/ $D/
  (cd $D && patch -p1 -s < $SD/patch.diff) || { echo "patch failed"; rm -rf $D; exit 2; }
  cd /verif && VERIF_REPO=$D timeout ${SEED_TIMEOUT:-1200} ./check $ID --tier $TIER > /tmp/seedrun_$(basename $SD)_$ID.log 2>&1
  rc=$?
  echo "$(basename $SD) check=$ID tier=$TIER exit=$rc :: $(grep -E '^C[0-9]+ tier' /tmp/seedrun_$(basename $SD)_$ID.log | head -1)"
  grep -E "VIOLATION|key=|HARNESS" /tmp/seedrun_$(basename $SD)_$ID.log | head -4
  rm -rf $D
  ;;
esac
