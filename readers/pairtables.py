"""Independent readers for the pair-table formats, written from the consumers'
reading rules (LAMMPS pair_style table; DL_POLY TABLE; GULP spline), not from
the repo's writers.  They return plain python floats/ints/strings; mapping the
numbers back to symbolic terms is done by the checks."""
import re


class FormatError(Exception):
  pass


def read_lammps_table(text):
  """LAMMPS pair_style table file: sections of
       keyword line / 'N n [R|RSQ|BITMAP lo hi] [FPRIME a b]' / blank / n rows 'i r e f'.
  Lines starting with # and blank lines between sections are skipped (as
  read_table/param_extract do)."""
  lines = text.split("\n")
  i = 0
  blocks = []
  n = len(lines)
  while i < n:
    ln = lines[i]
    if ln.strip() == "" or ln.lstrip().startswith("#"):
      i += 1
      continue
    keyword = ln.split()[0]
    if len(ln.split()) != 1 or ln != ln.strip():
      raise FormatError("keyword line %r is not a single word in column 0" % ln)
    i += 1
    if i >= n:
      raise FormatError("missing parameter line after keyword %s" % keyword)
    words = lines[i].split()
    i += 1
    params = {}
    j = 0
    while j < len(words):
      if words[j] == "N":
        params["N"] = int(words[j + 1])
        j += 2
      elif words[j] in ("R", "RSQ", "BITMAP"):
        params["style"] = words[j]
        params["lo"] = float(words[j + 1])
        params["hi"] = float(words[j + 2])
        j += 3
      elif words[j] == "FPRIME":
        j += 3
      else:
        raise FormatError("bad parameter word %r" % words[j])
    if "N" not in params:
      raise FormatError("no N in parameter line")
    if i >= n or lines[i].strip() != "":
      raise FormatError("parameter line must be followed by a blank line")
    i += 1
    rows = []
    for _ in range(params["N"]):
      if i >= n:
        raise FormatError("block %s: file ended after %d of %d rows" % (keyword, len(rows), params["N"]))
      w = lines[i].split()
      if len(w) != 4:
        raise FormatError("block %s: row %r does not have 4 fields" % (keyword, lines[i]))
      rows.append((int(w[0]), float(w[1]), float(w[2]), float(w[3])))
      i += 1
    # the row after the block, if any, must not look like a data row
    if i < n and lines[i].strip() != "" and re.match(r"^\s*\d+\s+\S+\s+\S+\s+\S+\s*$", lines[i]):
      raise FormatError("block %s: more data rows than the declared N=%d" % (keyword, params["N"]))
    blocks.append(dict(keyword=keyword, rows=rows, **params))
  return blocks


def read_dlpoly_table(text):
  """DL_POLY TABLE: line 1 title (<=80 chars), line 2 'delpot cutpot ngrid'
  (read free-format by DL_POLY as 3 words), then for each potential: a header
  with two atom names in a8,a8 columns, ngrid energies then ngrid forces in
  records of 4e15.8 (4 fields of 15 characters)."""
  lines = text.split("\n")
  if lines and lines[-1] == "":
    lines = lines[:-1]
  if len(lines) < 2:
    raise FormatError("TABLE shorter than its two header records")
  title = lines[0]
  if len(title) > 80:
    raise FormatError("title record longer than 80 characters")
  hdr = lines[1]
  # fixed format e15.8, e15.8, i10
  if len(hdr) != 40:
    raise FormatError("header record is not 15+15+10 characters: %r" % hdr)
  delpot, cutpot, ngrid = float(hdr[0:15]), float(hdr[15:30]), int(hdr[30:40])
  i = 2
  blocks = []
  nrec = (ngrid + 3) // 4
  while i < len(lines):
    h = lines[i]
    if len(h) != 16:
      raise FormatError("potential header %r is not two 8-character fields" % h)
    a, b = h[0:8], h[8:16]
    i += 1

    def take(nvals):
      nonlocal i
      vals = []
      for _ in range(nrec):
        if i >= len(lines):
          raise FormatError("file ended inside a data block")
        rec = lines[i]
        i += 1
        if len(rec) % 15 != 0 or len(rec) == 0 or len(rec) > 60:
          raise FormatError("data record %r is not made of 15-character fields" % rec)
        for k in range(0, len(rec), 15):
          vals.append(float(rec[k:k + 15]))
      if len(vals) != nvals:
        raise FormatError("expected %d values, found %d" % (nvals, len(vals)))
      return vals
    e = take(ngrid)
    f = take(ngrid)
    blocks.append(dict(a=a, b=b, energies=e, forces=f))
  return dict(title=title, delpot=delpot, cutpot=cutpot, ngrid=ngrid, blocks=blocks)


def read_gulp_spline(text):
  """GULP library fragment: repeated
       'spline cubic' / 'A B cutoff' / rows 'energy separation'
  a block ends where the next 'spline' keyword (or EOF) starts."""
  lines = text.split("\n")
  if lines and lines[-1] == "":
    lines = lines[:-1]
  blocks = []
  i = 0
  while i < len(lines):
    if lines[i].split() != ["spline", "cubic"]:
      raise FormatError("expected 'spline cubic', found %r" % lines[i])
    i += 1
    w = lines[i].split()
    if len(w) != 3:
      raise FormatError("bad species/cutoff line %r" % lines[i])
    a, b, cutoff = w[0], w[1], float(w[2])
    i += 1
    rows = []
    while i < len(lines) and not lines[i].startswith("spline"):
      w = lines[i].split()
      if len(w) != 2:
        raise FormatError("bad row %r" % lines[i])
      rows.append((float(w[0]), float(w[1])))
      i += 1
    blocks.append(dict(a=a, b=b, cutoff=cutoff, rows=rows))
  return blocks
