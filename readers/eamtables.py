"""Independent readers for the EAM table formats, written from the consumers'
reading rules: LAMMPS setfl (eam/alloy), setfl Finnis-Sinclair (eam/fs), ADP
(pair_style adp), funcfl (pair_style eam) and DL_POLY TABEAM (EAM and EEAM)."""


class FormatError(Exception):
  pass


def _tokens(lines):
  out = []
  for ln in lines:
    out.extend(ln.split())
  return out


class _Tok(object):
  def __init__(self, toks):
    self.toks, self.i = toks, 0

  def take(self, n, what):
    if self.i + n > len(self.toks):
      raise FormatError("file ends inside %s (%d of %d values)" % (what, len(self.toks) - self.i, n))
    v = self.toks[self.i:self.i + n]
    self.i += n
    try:
      return [float(x) for x in v]
    except ValueError as e:
      raise FormatError("non-numeric token in %s: %s" % (what, e))

  def left(self):
    return len(self.toks) - self.i


def read_setfl(text, style="alloy"):
  """style: 'alloy' (one density per element), 'fs' (n densities per element),
  'adp' (alloy + u and w arrays for i, j<=i).  LAMMPS reads lines 1-3 as
  comments, line 4 'n el1..eln', line 5 'Nrho drho Nr dr cutoff', then for each
  element one line 'Z mass a lattice' followed by Nrho + (1|n)*Nr numbers read by
  count across lines, then Nr numbers for every (i, j<=i)."""
  lines = text.split("\n")
  if len(lines) < 5:
    raise FormatError("setfl shorter than 5 header lines")
  comments = lines[0:3]
  w = lines[3].split()
  try:
    n = int(w[0])
  except (ValueError, IndexError):
    raise FormatError("line 4 does not start with the element count: %r" % lines[3])
  elements = w[1:]
  if len(elements) != n:
    raise FormatError("line 4 declares %d elements but names %d" % (n, len(elements)))
  w = lines[4].split()
  if len(w) != 5:
    raise FormatError("line 5 is not 'Nrho drho Nr dr cutoff': %r" % lines[4])
  nrho, drho, nr, dr, cutoff = int(w[0]), float(w[1]), int(w[2]), float(w[3]), float(w[4])
  li = 5
  blocks = []
  rest = lines[5:]
  # element blocks: header line then numbers by count.  The header is a line,
  # the numbers are free format; find them by walking lines.
  pos = 0
  flat = []   # (kind, payload)
  toks = None
  for e in range(n):
    # header line = next non-consumed line
    while pos < len(rest) and rest[pos].strip() == "":
      pos += 1
    if pos >= len(rest):
      raise FormatError("file ends before the block of element %d" % (e + 1))
    hw = rest[pos].split()
    pos += 1
    if len(hw) != 4:
      raise FormatError("element header %r is not 'Z mass a lattice'" % rest[pos - 1])
    z, mass, a, lat = int(hw[0]), float(hw[1]), float(hw[2]), hw[3]
    need = nrho + (n if style == "fs" else 1) * nr
    vals = []
    while len(vals) < need:
      if pos >= len(rest):
        raise FormatError("file ends inside the block of element %d" % (e + 1))
      for t in rest[pos].split():
        try:
          vals.append(float(t))
        except ValueError:
          raise FormatError("non-numeric token %r in the block of element %d" % (t, e + 1))
      pos += 1
    if len(vals) != need:
      raise FormatError("block of element %d does not end on a line boundary (%d values for %d)" % (e + 1, len(vals), need))
    F = vals[:nrho]
    if style == "fs":
      dens = [vals[nrho + k * nr: nrho + (k + 1) * nr] for k in range(n)]
    else:
      dens = vals[nrho:]
    blocks.append(dict(Z=z, mass=mass, a=a, lattice=lat, F=F, rho=dens))
  tk = _Tok(_tokens(rest[pos:]))
  pairs = {}
  for i in range(n):
    for j in range(i + 1):
      pairs[(i, j)] = tk.take(nr, "r*phi array (%d,%d)" % (i, j))
  out = dict(comments=comments, elements=elements, nrho=nrho, drho=drho, nr=nr, dr=dr, cutoff=cutoff,
             blocks=blocks, pairs=pairs)
  if style == "adp":
    u, wq = {}, {}
    for i in range(n):
      for j in range(i + 1):
        u[(i, j)] = tk.take(nr, "u array (%d,%d)" % (i, j))
    for i in range(n):
      for j in range(i + 1):
        wq[(i, j)] = tk.take(nr, "w array (%d,%d)" % (i, j))
    out["u"], out["w"] = u, wq
  if tk.left():
    raise FormatError("%d unexpected values after the last array" % tk.left())
  return out


def read_funcfl(text):
  """funcfl: line 1 comment, line 2 'Z mass a lattice', line 3
  'Nrho drho Nr dr cutoff', then Nrho F values, Nr Z(r) values, Nr rho values
  read by count."""
  lines = text.split("\n")
  if len(lines) < 3:
    raise FormatError("funcfl shorter than 3 header lines")
  hw = lines[1].split()
  if len(hw) != 4:
    raise FormatError("line 2 is not 'Z mass a lattice': %r" % lines[1])
  w = lines[2].split()
  if len(w) != 5:
    raise FormatError("line 3 is not 'Nrho drho Nr dr cutoff': %r" % lines[2])
  nrho, drho, nr, dr, cutoff = int(w[0]), float(w[1]), int(w[2]), float(w[3]), float(w[4])
  tk = _Tok(_tokens(lines[3:]))
  F = tk.take(nrho, "F")
  Z = tk.take(nr, "Z")
  rho = tk.take(nr, "rho")
  if tk.left():
    raise FormatError("%d unexpected values after the density array" % tk.left())
  per_line = max((len(l.split()) for l in lines[3:] if l.strip()), default=0)
  return dict(title=lines[0], Z0=int(hw[0]), mass=float(hw[1]), a=float(hw[2]), lattice=hw[3],
              nrho=nrho, drho=drho, nr=nr, dr=dr, cutoff=cutoff, F=F, Z=Z, rho=rho, max_per_line=per_line)


def read_tabeam(text):
  """DL_POLY TABEAM: record 1 title, record 2 number of functions, then per
  function a header 'pair A B n start end' | 'embe A n start end' |
  'dens A n start end' | 'dens A B n start end' (EEAM) followed by n values,
  four per record."""
  lines = text.split("\n")
  if lines and lines[-1] == "":
    lines = lines[:-1]
  if len(lines) < 2:
    raise FormatError("TABEAM shorter than two records")
  title = lines[0]
  try:
    declared = int(lines[1].split()[0])
  except (ValueError, IndexError):
    raise FormatError("record 2 is not the number of functions: %r" % lines[1])
  if len(lines[1].split()) != 1:
    raise FormatError("record 2 has trailing words: %r" % lines[1])
  i = 2
  funcs = []
  while i < len(lines):
    w = lines[i].split()
    i += 1
    if not w:
      raise FormatError("blank record where a function header was expected")
    kind = w[0]
    if kind == "pair":
      if len(w) != 6:
        raise FormatError("bad pair header %r" % lines[i - 1])
      sp, rest = (w[1], w[2]), w[3:]
    elif kind == "embe":
      if len(w) != 5:
        raise FormatError("bad embe header %r" % lines[i - 1])
      sp, rest = (w[1],), w[2:]
    elif kind == "dens":
      if len(w) == 5:
        sp, rest = (w[1],), w[2:]
      elif len(w) == 6:
        sp, rest = (w[1], w[2]), w[3:]
      else:
        raise FormatError("bad dens header %r" % lines[i - 1])
    else:
      raise FormatError("unknown function keyword %r" % kind)
    n, start, end = int(rest[0]), float(rest[1]), float(rest[2])
    vals = []
    nrec = (n + 3) // 4
    for _ in range(nrec):
      if i >= len(lines):
        raise FormatError("file ends inside a %s block" % kind)
      ww = lines[i].split()
      i += 1
      if len(ww) > 4 or not ww:
        raise FormatError("record %r does not hold 1..4 values" % lines[i - 1])
      try:
        vals.extend(float(x) for x in ww)
      except ValueError:
        raise FormatError("a %s block of %s holds fewer than the declared %d values (next header met early)" % (kind, sp, n))
    if len(vals) != n:
      raise FormatError("%s %s: %d values for declared n=%d" % (kind, sp, len(vals), n))
    funcs.append(dict(kind=kind, species=sp, n=n, start=start, end=end, values=vals))
  return dict(title=title, declared=declared, functions=funcs)
