"""Reading the workbook objects produced by the Excel tabulation classes: cell
values are taken from the openpyxl Workbook (the .xlsx byte container is
outside every claim)."""


class FormatError(Exception):
  pass


def read_workbook(wb):
  """{sheet title: dict(first=<label of column A>, x=[...], columns={label: [...]})}"""
  out = {}
  for ws in wb.worksheets:
    rows = list(ws.iter_rows(values_only=True))
    if not rows:
      raise FormatError("sheet %s is empty" % ws.title)
    head = rows[0]
    if head[0] is None:
      raise FormatError("sheet %s has no first-column label" % ws.title)
    labels = list(head[1:])
    if any(l is None for l in labels):
      raise FormatError("sheet %s has an unlabelled column" % ws.title)
    if len(set(labels)) != len(labels):
      raise FormatError("sheet %s has duplicate column labels" % ws.title)
    x = []
    cols = {l: [] for l in labels}
    for r in rows[1:]:
      if r[0] is None:
        raise FormatError("sheet %s has a row without first-column value" % ws.title)
      x.append(r[0])
      for l, v in zip(labels, r[1:]):
        if v is None:
          raise FormatError("sheet %s column %s has an empty cell" % (ws.title, l))
        cols[l].append(v)
    out[ws.title] = dict(first=head[0], x=x, columns=cols)
  return out
