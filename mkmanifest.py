#!/usr/bin/env python3
"""Regenerates MANIFEST.json from the table below (dev helper; the manifest itself is committed)."""
import json, os
HERE = os.path.dirname(os.path.abspath(__file__))
props = [json.loads(l) for l in open(os.path.join(HERE, "properties.jsonl"))]

CLAIMED = {
  # id: (technique, level text, level note, design ref)
  "C01": ("symbolic execution of the real writer on uninterpreted potentials (SYMX proxies) + z3 VCs per header field and table slot; counterexamples replayed concretely",
          "bounded symbolic model checking: for every nr in the stated set, every cutoff>0 and every potential function (uninterpreted), each slot term equals the specification term; potable route with symbolic form parameters",
          "floats modelled as reals; nr concrete per run (loop unwinding); independent LAMMPS reader trusted; divisions assumed defined", "3 C01"),
}
PENDING = "check not built yet in this session (design in DESIGN.md section 3); will be claimed when its harness lands"

checks, na = [], []
for p in props:
  i = p["id"]
  if i in CLAIMED:
    tech, text, note, ref = CLAIMED[i]
    checks.append(dict(property_id=i, quick_cmd="./check %s --tier quick" % i, thorough_cmd="./check %s --tier thorough" % i,
                       evidence_file="evidence/%s.json" % i, replay_cmd_template="./check %s --replay {path}" % i,
                       engine="symx", level_claimed=dict(category="model_checking", text=text, design_ref=ref),
                       level_note=note, technique=tech))
  else:
    na.append(dict(property_id=i, reason=NA.get(i, PENDING) if (NA := globals().get("NA", {})) is not None else PENDING))
m = dict(version=1, setup_cmd="./setup.sh",
         hooks=dict(guard="ATSIM_POTENTIALS_VERIF", enable="none needed: all instrumentation is done from the harness by rebinding module globals of the imported package (reserved, unused)",
                    baseline_off_cmd="cd /repo && /venv/bin/python -m pytest -ra -q -p no:cacheprovider --timeout=900 --continue-on-collection-errors",
                    source_commits=[], add_only=True),
         engines=[dict(name="symx", path="symx/", serves_properties=[c["property_id"] for c in checks],
                       kind_free_text="symbolic execution of the repo's Python on float-subclass proxies carrying z3 terms; path forking by re-execution; z3 decides every VC"),
                  dict(name="crosshair", path="xh/", serves_properties=[], kind_free_text="CrossHair 0.0.110 (z3) conditions over the real string/list/dict code")],
         checks=checks, not_applicable=na,
         notes="See DESIGN.md. Every check regenerates its encoding from /repo's working tree at run time (VERIF_REPO overrides for scratch copies).")
json.dump(m, open(os.path.join(HERE, "MANIFEST.json"), "w"), indent=1)
print("claimed", [c["property_id"] for c in checks], "not_applicable", len(na))
