#!/usr/bin/env python3
"""Regenerates MANIFEST.json from the table below (dev helper; the manifest itself is committed)."""
import json, os
HERE = os.path.dirname(os.path.abspath(__file__))
props = [json.loads(l) for l in open(os.path.join(HERE, "properties.jsonl"))]

SYMX = "symbolic execution of the real %s on SYMX proxies (uninterpreted functions, symbolic reals) + z3 VC per slot/field, incl. a second write of the same object after the functions were changed in place and the evaluation points under floating point (rounding-error model proved by z3, Float64 witness search); counterexamples replayed concretely through the public API"
NOTE = "floats modelled as reals except in the evaluation-point sub-check (rounding-error model + Float64 witness search, DESIGN 8.3); last ulps of printed values outside the claim; loop counts concrete per run (unwinding) over the stated sizes; independent format readers in readers/ are trusted; divisions met on a path are assumed defined"
CLAIMED = {
  "C01": (SYMX % "LAMMPS pair-table writer, Potential.force/gradient and the potable factory route",
          "bounded symbolic model checking: for every nr in the stated set, every cutoff>0 and every potential function (uninterpreted, with and without analytic derivative), each header field and table slot equals the specification term; potable route with symbolic form parameters",
          NOTE, "3 C01"),
  "C02": (SYMX % "DL_POLY TABLE writer and factory; rejection explored over a symbolic Int row count",
          "bounded symbolic model checking of header, record layout, V(k*delpot) and -r dV/dr slots for all cutoffs/functions; nr%4 rejection for all integers via path partition",
          NOTE, "3 C02"),
  "C03": (SYMX % "setfl writer, SetFL_EAMTabulation, EAM builder/factory",
          "bounded symbolic model checking over element orders, all pair-declaration states (1-3 elements exhaustive, 4 covering), symbolic cutoffs/metadata, uninterpreted functions",
          NOTE, "3 C03"),
  "C04": (SYMX % "eam/fs setfl, EEAM TABEAM and Excel FS writers and the FS builder",
          "every ordered-pair density is a distinct uninterpreted function; slot terms and per-atom cluster densities recomputed by the consumer's rule are compared with the model for all functions and cutoffs",
          NOTE + "; consumer rules (LAMMPS type2rhor, DL_POLY 'dens A B', Excel 'A->B') as stated in DESIGN", "3 C04"),
  "C05": (SYMX % "TABEAM writers (EAM and EEAM) and tabulation classes",
          "declared count vs blocks found, required block set, header fields and value slots as z3 terms for all functions/cutoffs over the stated element layouts and grids",
          NOTE, "3 C05"),
  "C06": ("symbolic execution of every built-in form through its four access routes (function, factory, registry 'as.NAME', formula-call binding) on symbolic r and parameters; z3 decides equality with the hand-transcribed documented formula (exact) or a linear query over polynomial coefficients (tolerant 1e-9 for forms with rounded literals)",
          "for all r>0 and all parameter values each route's term equals the reference formula's term; polynomial orders and concrete exponents over the stated sets",
          NOTE + "; reference formulas in specs/potential_forms.py are trusted; exp/sqrt/pow are atoms with their defining relations", "3 C06"),
  "C07": ("forward-mode automatic differentiation (jets over SYMX proxies) of the real energy code versus the real deriv/deriv2 code; z3 decides the identities (nonlinear real arithmetic with uninterpreted functions; tolerant polynomial-coefficient query for rounded literals)",
          "for all r>0, all parameters and - for plus/product/pow/trans/multi-range/spline dispatch - all operand functions (uninterpreted), offered derivatives equal the true derivatives; missing analytic derivatives fall back to the central difference of that operand only; nesting depth per stated bound",
          NOTE + "; trusted calculus: symx/jets.py; scipy's spline replaced by its contract (f, f', f'')", "3 C07"),
  "C08": ("path-exhaustive symbolic execution of the real sort/search code over symbolic range starts and r (all marker mixtures, all listing orders) with a z3 If-oracle of the statement; potable default start through the real parser/builder",
          "for 1..3 (thorough 1..5) ranges with symbolic starts: value, deriv and deriv2 come from the range the statement selects on every path; permuted listings agree",
          NOTE + "; excluded by design: identical start and marker; which of '>= s' / '> s' wins for r > s (statement and pinned test disagree)", "3 C08"),
  "C09": ("differential symbolic execution: grammar-generated definitions are parsed by the real pyparsing grammar/_descend_tree, their numerals become symbolic parameters, the real registries/builders produce the callable and z3 decides equality of its value at symbolic r with the same tree composed through the Python API (every path of the multi-range searches); modifiers over uninterpreted argument potentials; custom formulas through the real registration/binding code on a validated stub of cexprtk versus the formula with explicitly bound parameters; CrossHair on _key_transform",
          "for all parameter values and all r: every generated definition (depth <= 2 quick, <= 3 thorough, incl. every modifier nested in every modifier with its own range) in every section kind denotes the API composition; sum/product/pow/trans for all argument functions; custom forms bind positionally, may call each other in either listing order, as.* and pymath.*; key normal form = key without spaces/tabs (confirmed over all paths, <= 4 characters)",
          NOTE + "; exprtk itself is replaced by symx/exprstub.py (validated against the real cexprtk on each run); formatting variants are a concrete side layer", "3 C09"),
  "C10": ("symbolic execution of the real spline set-up and evaluation code with numpy.linalg.solve replaced by its contract (unknowns c, A.c == B); subterms polynomially identical to a row of A.c are rewritten to the row's right-hand side, z3 decides the remaining identities; equivalence of the three constructions by memoised solve (equal systems -> equal unknowns)",
          "for all detach < (r_min <) attach, all end potentials (uninterpreted functions with arbitrary value/slope/curvature at the joins) and all r: C2 joins, zero slope and continuity at r_min, region dispatch, advertised shape; as.buck4 == spline() modifier == Python classes for all parameters",
          NOTE + "; LAPACK's accuracy and singular systems are outside the claim; trusted calculus: symx/jets.py", "3 C10"),
  "C12": ("purity as an inductive step by symbolic execution: every variable of every custom form's symbol table is set to a fresh symbolic value (arbitrary history) before the real evaluation code runs on a validated cexprtk stub; z3 shows the value at r equals the formula with explicitly bound parameters for every evaluation order/interleaving; hash-order independence by replacing the builtin set in the EAM builder with a set whose iteration order is a symbolic permutation explored path by path (all EAM targets, output must be identical on all paths; differing paths replayed with potable under different PYTHONHASHSEED values in fresh processes)",
          "for all pre-states, parameters and r the energy depends on definition and r only; for all set iteration orders one output; write-twice / build-twice / other-model-in-between / descending-order evaluation / fresh process with another hash seed give the same bytes (concrete layer over all 11 targets); shared default arguments unchanged",
          NOTE + "; .xlsx compared at cell level (container clock fields outside); the repeat/history layer is concrete (real cexprtk) and complements the symbolic inductive step", "3 C12"),
  "C13": ("CrossHair (symbolic execution with z3) of the real FilteredConfigParser over symbolic index lists and flags: every view equals the specification filter over the unfiltered list (order preserved), and two views of one parsed file with independent settings, read in either order, each equal their own specification - 'Confirmed over all paths' required, counterexamples replayed; differential replay of every species subset through the real potable entry point against the hand-edited file",
          "include/exclude lists of <= 3 labels (repeats, any order, unknown label, empty) over pair, EAM and Finnis-Sinclair models; two-view histories (<= 1 label each quick, <= 2 thorough); every subset of species x include/exclude x text targets (spreadsheets in thorough) through potable",
          "labels are opaque to the filter (membership tests only), so the 4-label universes per model stand for all labels; the differential layer is concrete", "3 C13"),
  "C14": ("CrossHair (z3) over the real ConfigParser._init_config_parser / potable._make_config_parser / _query_actions with symbolic operation sequences (kind, section, key spelling, value as symbolic indices into candidate lists) against a dict-of-dicts model of editing the file by hand; every condition must be 'Confirmed over all paths'; counterexamples replayed on real INI text; potable-with-options versus hand-edited file differential",
          "sequences of <= 2 overrides/removals and <= 1 addition over 4 sections x 12 key spellings (whitespace variants, absent keys), removal of a section's last key, CLI merging (same item, different sections, removals after overrides), [Table-Form:NAME] items, --list-items/--item-value over every subset of 9 section kinds",
          "keys are opaque apart from whitespace, so the candidate lists stand for all keys; INI text parsing itself is stubbed by read_dict in the conditions and real in the replays", "3 C14"),
  "C15": ("CrossHair (z3) over the real ConfigParser accessors with symbolic choices of variable names (incl. names equal to keys of other sections), values, consuming section kind and referenced section name; the file with [Variables]/placeholders must give exactly the accessor results of the file without / with values substituted by hand; confirmed over all paths; templated versus substituted file through potable",
          "1-2 unreferenced variables x 14 names x 3 values (plain and Finnis-Sinclair); ${NAME} in each of 7 section kinds; ${SECTION:KEY} with whitespace in the key; nested ${SECTION:KEY} -> ${name} with section names containing blanks",
          "configparser's text-level parsing is outside (conditions inject sections with read_dict; replays use real text); a placeholder named like a key of its own section refers to that key by the INI rules", "3 C15"),
  "C20": ("CrossHair (z3) with symbolic indices into candidate spelling lists: the model text built from them is read by the real Configuration().read(); spellings with equal normal form (or a reversed pair, equal form labels, equal table names, a table named like a custom or built-in form) must end in a ConfigurationException, distinct ones must be accepted and the tabulated function must follow its own definition; confirmed over all paths; counterexamples replayed; potable replay layer",
          "2 and 3 entries per section (adjacent and separated duplicates): [Pair] (10 spellings), A->B densities (8), embed/density species (5), form signatures (6), table-form headers (5), table vs custom vs built-in names (6 names, both file orders)",
          "keys beginning with white space are INI continuation lines and outside; spellings outside the candidate lists are represented by them (keys are opaque apart from whitespace, '-' and '->')", "3 C20"),
  "C16": ("CrossHair (z3): one condition per unit and input class allowing ConfigurationException only - symbolic strings through _pair_species_func and _parse_potential_form_signature (confirmed over all paths), symbolic indices into a mutation catalogue covering every section of the input format run through the real Configuration.read + write (valid class: must not raise; every target/interpolation value of the reference manual, re-read each run); SYMX symbolic execution of the spline() modifier's validation over symbolic detach/attach/r_min; every catalogue entry replayed through potable.main on real files",
          "all strings of <= 4 (pair keys) / <= 3 (signatures) characters over the stated alphabets; 110+ single mutations in 9 groups and 26 well-formed models; spline validation for every ordering of symbolic starts and r_min, 1..4 parts",
          "malformations outside the catalogue are not covered; pyparsing/configparser on symbolic text is outside (regex driven)", "3 C16"),
  "C17": ("fault injection with a symbolic failing ordinal: every function evaluation compares its index with one symbolic integer k, the SYMX explorer splits on the z3-feasible classes of k (N+1, N discovered) through the real write()/action_tabulate code with a recording sink / real file; a z3 completeness VC shows the explored classes cover every integer k; each partial-output path is replayed with the model's concrete k",
          "for every tabulation target, every position k of the failing evaluation (pair, density, embedding, dipole, quadrupole functions) on the stated grids: nothing written and the exception propagates; no failure: whole table; large grids (size-dependent buffering) with k in a stated candidate set",
          "loop counts concrete per run (small grids exhaustive in k; large grids over a candidate set of k); failures modelled as exceptions leaving the callable; potable end-to-end runs on real files are a concrete replay layer", "3 C17"),
  "C18": ("symbolic execution (SYMX) of TableReaderBase.getValue/_findIndex over symbolic strictly increasing data and query point (every path of the bisect search) against a z3 If-oracle of the piecewise-linear specification; plotToFile family on uninterpreted functions with symbolic range; table-form data as opaque symbolic values through the real parser/builder/registry into a contract stub of scipy's spline; CrossHair (z3) on DatReader._populate over symbolic text",
          "legacy reader: value at data points, linear interpolant between, 0 outside, for all data/query values (1..4 points quick, 1..6 thorough); plot: exactly `steps` rows on the stated grid with y=f(x) for all ranges/functions; table forms: data reach the interpolant unchanged and in order, ext=1, x/y == xy, derivatives wired, no leakage from earlier models; DatReader: counterexample search only (not confirmed)",
          NOTE + "; FITPACK's interpolation is assumed as scipy's documented contract; the three DatReader conditions cannot be confirmed over all paths (float() of a symbolic string is realised) and are reported as inconclusive - they can only raise alarms", "3 C18"),
  "C11": ("symbolic execution of the real _TabulationCutoff._init_cutoff on three number algebras: reals (all presence combinations, symbolic values of any sign -> z3 decides accept/reject and the derived value), reals with a fresh (1+e), |e|<=2^-53 factor per operation (sound for IEEE doubles: z3 shows nr == k+1 for every step > 0 and every multiple k <= 10^7), and z3 Float64/bit-vector terms (bit-precise search for decimal pairs m/10^4, k*m/10^4 that lose or gain a row, replayed through ConfigParser); factory defaults, dr/drho and the r/rho grids on symbolic cutoffs",
          "combination logic and sign rejection for all values; row count k+1 for all commensurate (step, cutoff) under the rounding-error model; defaults 10.0/1001/100.0/1001; grid r_i = i*cutoff/(nr-1) ending at cutoff",
          "the Float64 query is a witness search (unknown within its budget is reported inconclusive, 2 allowed); a single-row grid (n = 1) is treated as outside the property; overflow/underflow outside", "3 C11"),
  "C19": (SYMX % "GULP, ADP, funcfl and Excel writers",
          "same slot-level term comparison for the secondary targets (funcfl charge via a sqrt atom with Z>=0, Z^2*27.2*0.529 = r*phi)",
          NOTE + "; workbook cells read from the openpyxl object", "3 C19"),
}
EXTRA = {
  "C01": "; potentials returning python ints over part of their range (C-level integer conversions kept symbolic as trunc); the tabulation object written twice",
  "C02": "; potentials returning python ints over part of their range (C-level integer conversions kept symbolic as trunc); the tabulation object written twice",
  "C03": "; 8-character labels; Potential subclasses overriding energy(); the explicit cutoff argument of writeSetFL as a symbolic value; the same objects written as another target first; pair lists holding potentials for species outside the model; one callable object serving as embedding and density function on grids of different size; a write after another model's failed write",
  "C04": "; 8-character labels; density mappings that build their entries on demand (__missing__); Potential subclasses overriding energy(); the same objects written as another target first; a species with densities but no embedding entry (potable); undeclared ordered pairs (defaultdict of a zero function), alone and after a fully declared model of the same elements; one callable object in two roles; a write after another model's failed write",
  "C05": "; 8-character labels; Potential subclasses overriding energy(); the same objects written as another target first; pair lists holding potentials for species outside the model; one callable object in two roles (nr != nrho); a write after another model's failed write",
  "C06": "; pairs of entries evaluated alternately at the same separations (last-value caches)",
  "C10": "; exponential splines from/to potentials that are exactly zero at the join (concrete layer); join conditions for spline windows at 3..9 Angstrom with the real LAPACK (concrete layer); lstsq by the contract of solve",
  "C08": "; an earlier evaluation of the same object at another symbolic separation (n <= 2); permuted ranges assigned through the range_defns property as an iterator; a second potential built from one of the same Multi_Range_Defn objects with another following range (n <= 3); history replay (other potentials built, differentiated and dropped)",
  "C09": "; wrapped formulae with end-of-line comments (concrete formatting layer); custom forms whose caller and callee share parameter names; two entries of one section differing only in a modifier argument's range; custom forms after an earlier model whose inner forms have other formulae",
  "C11": "; every option set of the separation grid with every option set of the density grid (concrete layer); the step written in ten float notations (concrete layer); documented defaults also after the same module-level factory served a file with symbolic grid values",
  "C12": "; the same python objects handed to two writers of one family; rebuilding the model after same-shape, same-grid models with other numbers were built, written and dropped (fresh process)",
  "C13": "; two views of one parsed file tabulated (8 species lists x include/exclude each, either order, with/without the unfiltered file first) against freshly parsed hand-edited files",
  "C14": "; [Variables] among the sections; SECTION:KEY=VALUE items with ':' '=' '${S:K}' '>=' inside VALUE (5 x 5 x 12)",
  "C15": "; the same place-holder file parsed twice in one process with different values; place-holders repeated within one value (variable, variable of a variable, cross-section, diamond)",
  "C16": "; formulae with exprtk { } blocks and % operators (valid and malformed)",
  "C17": "; output to a gzip text stream (seekable() true, cannot rewind)",
  "C18": "; a second object of each table form asked for deriv2 before deriv; plot row count on Float64 terms (blind path exploration + one QF_FP query per path writing a number of rows other than steps); numpy.isclose by contract; replay probes one ulp beyond either end of the table data",
  "C19": "; GULP evaluation points exactly (i*cutoff)/(nr-1) on Float64 terms (term identity or QF_FP witness); one callable object in two Excel sheets; ADP with surplus pair species and after another model's failed write; potable replays re-run in a fresh process after a same-kind model with other numbers when module-level state held proxies",
  "C20": "; replays that re-run after ordinary models were tabulated (state kept at class level); second definition arriving through `additional`/--add-item (pairs, forms, table-form section names, densities); species labels differing in case only",
}
PENDING = "check not built yet in this session (design in DESIGN.md section 3); will be claimed when its harness lands"

checks, na = [], []
for p in props:
  i = p["id"]
  if i in CLAIMED:
    tech, text, note, ref = CLAIMED[i]
    text = text + EXTRA.get(i, "")
    checks.append(dict(property_id=i, quick_cmd="./check %s --tier quick" % i, thorough_cmd="./check %s --tier thorough" % i,
                       evidence_file="evidence/%s.json" % i, replay_cmd_template="./check %s --replay {path}" % i,
                       engine=("crosshair" if i in ("C13", "C14", "C15", "C16", "C20") else "symx"), level_claimed=dict(category="model_checking", text=text, design_ref=ref),
                       level_note=note, technique=tech))
  else:
    na.append(dict(property_id=i, reason=NA.get(i, PENDING) if (NA := globals().get("NA", {})) is not None else PENDING))
m = dict(version=1, setup_cmd="./setup.sh",
         hooks=dict(guard="ATSIM_POTENTIALS_VERIF", enable="none needed: all instrumentation is done from the harness by rebinding module globals of the imported package (reserved, unused)",
                    baseline_off_cmd="cd /repo && /venv/bin/python -m pytest -ra -q -p no:cacheprovider --timeout=900 --continue-on-collection-errors",
                    source_commits=[], add_only=True),
         engines=[dict(name="symx", path="symx/", serves_properties=[c["property_id"] for c in checks],
                       kind_free_text="symbolic execution of the repo's Python on float-subclass proxies carrying z3 terms; path forking by re-execution; z3 decides every VC"),
                  dict(name="crosshair", path="xh/", serves_properties=[c["property_id"] for c in checks if c["engine"] == "crosshair"] + ["C09", "C18"], kind_free_text="CrossHair 0.0.110 (z3) conditions over the real string/list/dict code")],
         checks=checks, not_applicable=na,
         notes="See DESIGN.md. Every check regenerates its encoding from /repo's working tree at run time (VERIF_REPO overrides for scratch copies).")
json.dump(m, open(os.path.join(HERE, "MANIFEST.json"), "w"), indent=1)
print("claimed", [c["property_id"] for c in checks], "not_applicable", len(na))
