#!/bin/sh
# MANIFEST.setup_cmd: build the overlay venv /verif/.venv offline (idempotent).
# /venv (the repo's environment) is left untouched; the overlay sees its
# site-packages through a .pth file and adds z3-solver, crosshair-tool, sympy,
# mpmath, cvc5 from the offline wheelhouse.
set -e
cd "$(dirname "$0")"
V=.venv
if [ ! -x "$V/bin/python" ] || ! "$V/bin/python" -c "import z3, crosshair" 2>/dev/null; then
  rm -rf "$V"
  /venv/bin/python -m venv "$V"
  SP=$("$V/bin/python" -c "import sysconfig; print(sysconfig.get_paths()['purelib'])")
  echo "import site; site.addsitedir('/venv/lib/python3.12/site-packages')" > "$SP/_overlay.pth"
  PIP_NO_INDEX=1 "$V/bin/python" -m pip install -q --no-index --find-links /opt/veriftools/wheels \
      z3-solver crosshair-tool sympy mpmath cvc5 >/dev/null
fi
"$V/bin/python" -W ignore -c "import z3, crosshair, sympy; print('verif venv ok: z3', z3.get_version_string())"
