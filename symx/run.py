"""./check <ID> [--tier quick|thorough] [--replay path] [--jobs N] [--only substr]

Loads checks.<id>, runs its cases (one forked process per case, all cores),
aggregates results, matches confirmed violations against known_findings.json,
writes evidence/<ID>.json and prints VIOLATION / KNOWN-FINDING lines.

exit 0  held on everything explored (known findings printed)
exit 1  at least one replayed violation that is not a listed known finding
exit 3  harness error / inconclusive beyond the allowed budget
"""
import argparse
import importlib
import json
import multiprocessing
import os
import re
import sys
import time
import traceback

HERE = os.path.dirname(os.path.dirname(os.path.abspath(__file__)))


class Case(object):
  def __init__(self, case_name_, fn_, **kw):
    self.name, self.fn, self.kw = case_name_, fn_, kw


def new_result(name):
  return dict(case=name, paths=0, decisions=0, vcs=0, unsat=0, sat=0, unknown=0, solver_s=0.0,
              queries=0, samples=[], violations=[], inconclusive=[], spurious=[], negatives=0,
              negatives_ok=0, replays=0, functions=[], stubs=[], bounds={}, outside=[], notes=[],
              harness_errors=[], conditions=0, confirmed=0, nontrivial=0)


def _run_case(args):
  modname, idx, tier, seed = args
  t0 = time.time()
  try:
    mod = importlib.import_module(modname)
    case = mod.cases(tier, seed)[idx]
    res = case.fn(**case.kw)
    res.setdefault("case", case.name)
  except BaseException as e:  # noqa
    res = new_result("case#%d" % idx)
    res["harness_errors"].append("%s: %s\n%s" % (type(e).__name__, e, traceback.format_exc()[-3000:]))
  res["wall_s"] = time.time() - t0
  return res


def _child(conn, job):
  try:
    r = _run_case(job)
  except BaseException as e:  # noqa
    r = new_result("case#%d" % job[1])
    r["harness_errors"].append("%s: %s" % (type(e).__name__, e))
  try:
    conn.send(r)
  except Exception as e:
    rr = new_result(r.get("case", "case#%d" % job[1]))
    rr["harness_errors"].append("result could not be sent: %s" % e)
    conn.send(rr)
  conn.close()


def run_jobs(jobs, njobs, case_timeout, names, verbose=False):
  """One forked process per case, at most njobs at a time, each under a hard
  wall-clock limit (a case that exceeds it is killed and reported inconclusive;
  a case process that dies is reported as a harness error)."""
  ctx = multiprocessing.get_context("fork")
  pending = list(zip(jobs, names))
  running = []   # (proc, conn, job, name, t0)
  results = []
  while pending or running:
    while pending and len(running) < max(1, njobs):
      job, name = pending.pop(0)
      pc, cc = ctx.Pipe(duplex=False)
      pr = ctx.Process(target=_child, args=(cc, job))
      pr.daemon = True
      pr.start()
      cc.close()
      running.append((pr, pc, job, name, time.time()))
    still = []
    for (pr, pc, job, name, t0) in running:
      r = None
      if pc.poll(0):
        try:
          r = pc.recv()
        except EOFError:
          r = new_result(name)
          r["harness_errors"].append("case process died without a result (exit code %s)" % pr.exitcode)
        pr.join(5)
      elif not pr.is_alive():
        pr.join()
        # the result may have been sent between the poll above and the process ending
        if pc.poll(0.2):
          try:
            r = pc.recv()
          except EOFError:
            r = None
        if r is None:
          r = new_result(name)
          r["harness_errors"].append("case process died without a result (exit code %s)" % pr.exitcode)
      elif time.time() - t0 > case_timeout:
        pr.kill()
        pr.join()
        r = new_result(name)
        r["inconclusive"].append("case exceeded its wall-clock limit of %ds and was stopped" % case_timeout)
        r["wall_s"] = time.time() - t0
      if r is None:
        still.append((pr, pc, job, name, t0))
      else:
        r.setdefault("wall_s", time.time() - t0)
        results.append(r)
        if verbose:
          print("  case %-50s paths=%d vcs=%d unsat=%d sat=%d unknown=%d %.1fs" % (
            r["case"], r["paths"], r["vcs"], r["unsat"], r["sat"], r["unknown"], r.get("wall_s", 0)))
          sys.stdout.flush()
    running = still
    if running:
      time.sleep(0.02)
  return results


def load_known():
  p = os.path.join(HERE, "known_findings.json")
  if not os.path.exists(p):
    return dict(known=[], fixed=[])
  with open(p) as f:
    return json.load(f)


def main(argv=None):
  ap = argparse.ArgumentParser()
  ap.add_argument("id")
  ap.add_argument("--tier", default=os.environ.get("VERIF_TIER", "quick"))
  ap.add_argument("--replay")
  ap.add_argument("--jobs", type=int, default=int(os.environ.get("VERIF_JOBS", "0")) or min(16, os.cpu_count() or 4))
  ap.add_argument("--only", default=None)
  ap.add_argument("-v", action="store_true")
  a = ap.parse_args(argv)
  pid = a.id.upper()
  seed = int(os.environ.get("VERIF_SEED", "0") or 0)
  tier = a.tier if a.tier in ("quick", "thorough") else "quick"
  sys.path.insert(0, HERE)
  modname = "checks." + pid.lower()
  t0 = time.time()
  try:
    from symx import shims
    shims.import_repo()
    mod = importlib.import_module(modname)
  except Exception as e:
    print("HARNESS-ERROR property=%s %s: %s" % (pid, type(e).__name__, e))
    traceback.print_exc()
    return 3
  if a.replay:
    return mod.replay(a.replay)
  cases = mod.cases(tier, seed)
  idxs = [i for i, c in enumerate(cases) if a.only is None or a.only in c.name]
  # order only (never selection) depends on the seed
  if seed:
    import random
    random.Random(seed).shuffle(idxs)
  jobs = [(modname, i, tier, seed) for i in idxs]
  meta = getattr(mod, "META", {})
  case_timeout = meta.get("case_timeout_s", {}).get(tier, 400 if tier == "quick" else 1500)
  results = run_jobs(jobs, a.jobs, case_timeout, [cases[i].name for i in idxs], verbose=a.v)
  results.sort(key=lambda r: r["case"])
  return finish(pid, tier, seed, mod, results, time.time() - t0, verbose=a.v)


def finish(pid, tier, seed, mod, results, wall, verbose=False):
  known = load_known()
  kn = [k for k in known.get("known", []) if k["property"] == pid]
  tot = new_result("total")
  for r in results:
    for k in ("paths", "decisions", "vcs", "unsat", "sat", "unknown", "queries", "negatives",
              "negatives_ok", "replays", "conditions", "confirmed", "nontrivial"):
      tot[k] += r.get(k, 0)
    tot["solver_s"] += r.get("solver_s", 0.0)
    for k in ("violations", "inconclusive", "spurious", "harness_errors", "notes"):
      tot[k].extend([dict(x, case=r["case"]) if isinstance(x, dict) else "%s: %s" % (r["case"], x)
                     for x in r.get(k, [])])
    for k in ("functions", "stubs", "outside"):
      for x in r.get(k, []):
        if x not in tot[k]:
          tot[k].append(x)
  samples = []
  for r in results:
    for s in r.get("samples", [])[:2]:
      if len(samples) < 12:
        samples.append(dict(case=r["case"], **s) if isinstance(s, dict) else dict(case=r["case"], sample=s))
  if not samples:
    samples = [dict(case=r["case"]) for r in results[:3]] or [dict(note="no cases")]

  lines = []
  new_viol = []
  matched_known = set()
  for v in tot["violations"]:
    key = v.get("key", "")
    hit = None
    for k in kn:
      if re.search(k["match"], key):
        hit = k
        break
    if hit is not None:
      matched_known.add(hit["id"])
    else:
      new_viol.append(v)
  for k in kn:
    if k["id"] in matched_known:
      lines.append("KNOWN-FINDING: property=%s %s" % (pid, k["what"]))
    else:
      tot["notes"].append("known finding %s was not reproduced by this run (tier %s)" % (k["id"], tier))
  os.makedirs(os.path.join(HERE, "replays"), exist_ok=True)
  for i, v in enumerate(new_viol):
    rp = v.get("replay_path")
    if not rp:
      rp = os.path.join(HERE, "replays", "%s_%s_%d.json" % (pid, tier, i))
      with open(rp, "w") as f:
        json.dump(v, f, indent=1, default=str)
    lines.append("VIOLATION property=%s replay=%s" % (pid, rp))
    lines.append("  key=%s :: %s" % (v.get("key"), str(v.get("desc"))[:400]))

  meta = getattr(mod, "META", {})
  bounds = dict(meta.get("bounds", {}).get(tier, {}))
  evidence = dict(
    property_id=pid, tier=tier, seed=seed, level="model_checking",
    coverage=dict(
      states=max(tot["paths"], 0), transitions=max(tot["decisions"] + tot["paths"], 0),
      traces_validated_against_impl=tot["replays"],
      samples=samples,
      cases=len(results), paths=tot["paths"], branch_decisions=tot["decisions"],
      vcs=tot["vcs"], vcs_unsat=tot["unsat"], vcs_sat=tot["sat"], vcs_unknown=tot["unknown"],
      crosshair_conditions=tot["conditions"], crosshair_confirmed=tot["confirmed"],
      solver_queries=tot["queries"], solver_s=round(tot["solver_s"], 2),
      negative_twins=tot["negatives"], negative_twins_detected=tot["negatives_ok"],
      functions_encoded=meta.get("functions", []) + tot["functions"],
      bounds=bounds, stubs=meta.get("stubs", []) + tot["stubs"],
      outside_claim=meta.get("outside", []) + tot["outside"],
      inconclusive=[str(x)[:300] for x in tot["inconclusive"]][:40],
      spurious=[str(x)[:300] for x in tot["spurious"]][:20],
      known_findings_reproduced=sorted(matched_known),
      explanation=meta.get("explanation", ""),
      per_case=[dict(case=r["case"], paths=r["paths"], vcs=r["vcs"], unsat=r["unsat"], sat=r["sat"],
                     unknown=r["unknown"], wall_s=round(r.get("wall_s", 0), 2)) for r in results][:400],
      exhaustive=False,
    ),
    assumptions=meta.get("assumptions", []),
    wall_s=round(wall, 2),
    violations=len(new_viol),
  )
  if evidence["coverage"]["states"] < 1:
    evidence["coverage"]["states"] = 1
  if evidence["coverage"]["transitions"] < 1:
    evidence["coverage"]["transitions"] = 1
  evdir = os.path.join(HERE, "evidence")
  if os.path.realpath(os.environ.get("VERIF_REPO", "/repo")) != "/repo":
    # development run against a scratch copy: never touch the committed evidence
    evdir = os.path.join("/tmp", "verif_scratch_evidence")
  os.makedirs(evdir, exist_ok=True)
  with open(os.path.join(evdir, pid + ".json"), "w") as f:
    json.dump(evidence, f, indent=1, default=str)

  print("%s tier=%s cases=%d paths=%d vcs=%d unsat=%d sat=%d unknown=%d conditions=%d confirmed=%d "
        "neg_twins=%d/%d replays=%d solver=%.1fs wall=%.1fs" % (
          pid, tier, len(results), tot["paths"], tot["vcs"], tot["unsat"], tot["sat"], tot["unknown"],
          tot["conditions"], tot["confirmed"], tot["negatives_ok"], tot["negatives"], tot["replays"],
          tot["solver_s"], wall))
  for l in lines:
    print(l)
  if new_viol:
    return 1
  if tot["harness_errors"]:
    for h in tot["harness_errors"][:5]:
      print("HARNESS-ERROR property=%s %s" % (pid, str(h)[:3000]))
    return 3
  if tot["negatives"] != tot["negatives_ok"]:
    print("HARNESS-ERROR property=%s a negative twin was not detected (vacuous harness)" % pid)
    return 3
  if new_viol:
    return 1
  allowed = meta.get("max_inconclusive", {}).get(tier, 0)
  if len(tot["inconclusive"]) > allowed:
    for x in tot["inconclusive"][:10]:
      print("INCONCLUSIVE property=%s %s" % (pid, str(x)[:300]))
    print("HARNESS-ERROR property=%s %d inconclusive obligations (allowed %d)" % (
      pid, len(tot["inconclusive"]), allowed))
    return 3
  if verbose:
    for x in tot["spurious"][:10]:
      print("  spurious:", str(x)[:200])
  return 0


if __name__ == "__main__":
  sys.exit(main())
