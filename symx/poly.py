"""Polynomial normal forms of z3 real terms with rational coefficients, used for
the *tolerant* identities (sources whose literals were rounded to ~15 digits).

A term is expanded into  sum_m c_m * m  where a monomial m is a product of
atoms (uninterpreted constants / applications, kept opaque) and of exponential
factors exp(k * X): EXP applications are recognised, their argument is itself
expanded and split into a direction X (argument normalised by its leading
coefficient, coefficients rounded to 12 significant digits) and a scalar k, so
that exp(a X) * exp(b X) = exp((a+b) X) is applied while multiplying.

Each coefficient carries, besides its value, the sum of the absolute values of
everything that was added into it (its magnitude before cancellation); the
tolerant comparison bounds |p_m - q_m| by tol * (mag p_m + mag q_m).  The final
verdict is a linear real arithmetic query discharged by z3."""
import fractions
import math

import z3

from . import core, mathshim, vc as vcmod

F = fractions.Fraction


class TooBig(Exception):
  pass


MAX_TERMS = 400000


def _val(t):
  return F(t.numerator_as_long(), t.denominator_as_long())


class Poly(object):
  """dict: monomial -> [coef, mag];  monomial = (atoms, exps) with
  atoms = tuple of (atom_key, power) sorted, exps = tuple of (direction, scalar) sorted."""
  __slots__ = ("d",)

  def __init__(self, d=None):
    self.d = d or {}

  @staticmethod
  def const(c):
    c = F(c)
    return Poly({((), ()): [c, abs(c)]} if c != 0 else {})

  @staticmethod
  def atom(key):
    return Poly({(((key, 1),), ()): [F(1), F(1)]})

  @staticmethod
  def expatom(direction, scalar):
    return Poly({((), ((direction, scalar),)): [F(1), F(1)]})

  def add(self, o, sign=1):
    d = {k: list(v) for k, v in self.d.items()}
    for k, (c, m) in o.d.items():
      if k in d:
        d[k][0] += sign * c
        d[k][1] += m
      else:
        d[k] = [sign * c, m]
    return Poly(d)

  def mul(self, o):
    if len(self.d) * len(o.d) > MAX_TERMS:
      raise TooBig("polynomial product of %d x %d terms" % (len(self.d), len(o.d)))
    d = {}
    for (a1, e1), (c1, m1) in self.d.items():
      for (a2, e2), (c2, m2) in o.d.items():
        k = (_mul_atoms(a1, a2), _mul_exps(e1, e2))
        c, m = c1 * c2, m1 * m2
        if k in d:
          d[k][0] += c
          d[k][1] += m
        else:
          d[k] = [c, m]
    return Poly(d)

  def scale(self, c):
    c = F(c)
    return Poly({k: [v[0] * c, v[1] * abs(c)] for k, v in self.d.items()})

  def powi(self, n):
    out = Poly.const(1)
    for _ in range(n):
      out = out.mul(self)
    return out


def _mul_atoms(a1, a2):
  if not a1:
    return a2
  if not a2:
    return a1
  d = dict(a1)
  for k, p in a2:
    d[k] = d.get(k, 0) + p
  return tuple(sorted(d.items()))


def _mul_exps(e1, e2):
  if not e1:
    return e2
  if not e2:
    return e1
  d = dict(e1)
  for k, s in e2:
    d[k] = d.get(k, 0) + s
  return tuple(sorted((k, s) for k, s in d.items() if s != 0))


def _round_sig(x, n=12):
  x = float(x)
  if x == 0:
    return 0.0
  return float("%.*e" % (n - 1, x))


class Expander(object):
  def __init__(self):
    self.cache = {}
    self.atoms = {}      # key -> z3 term
    self.dirs = {}       # direction -> representative

  def atom_key(self, t):
    k = "a%d" % t.get_id()
    self.atoms[k] = t
    return k

  def expand(self, t):
    i = t.get_id()
    if i in self.cache:
      return self.cache[i][1]
    p = self._expand(t)
    # the term is kept alive with its cache entry: z3 reuses the ids of freed terms
    self.cache[i] = (t, p)
    return p

  def _expand(self, t):
    if z3.is_rational_value(t):
      return Poly.const(_val(t))
    if z3.is_int_value(t):
      return Poly.const(t.as_long())
    if not z3.is_app(t):
      raise core.HarnessError("cannot expand %s" % t)
    k = t.decl().kind()
    ch = t.children()
    if k == z3.Z3_OP_ADD:
      p = self.expand(ch[0])
      for c in ch[1:]:
        p = p.add(self.expand(c))
      return p
    if k == z3.Z3_OP_SUB:
      p = self.expand(ch[0])
      for c in ch[1:]:
        p = p.add(self.expand(c), -1)
      return p
    if k == z3.Z3_OP_UMINUS:
      return self.expand(ch[0]).scale(-1)
    if k == z3.Z3_OP_MUL:
      p = self.expand(ch[0])
      for c in ch[1:]:
        p = p.mul(self.expand(c))
      return p
    if k == z3.Z3_OP_DIV:
      den = self.expand(ch[1])
      if len(den.d) == 1 and ((), ()) in den.d:
        return self.expand(ch[0]).scale(1 / den.d[((), ())][0])
      raise core.HarnessError("division by a non-constant inside a numerator/denominator")
    if k == z3.Z3_OP_TO_REAL:
      return self.expand(ch[0])
    if t.decl().eq(mathshim.EXP):
      return self._exp(ch[0])
    return Poly.atom(self.atom_key(t))

  def _exp(self, arg):
    n, d = vcmod.numden(arg)
    if d is not None:
      # rational argument: treat the whole application as an opaque atom
      return Poly.atom(self.atom_key(mathshim.EXP(arg)))
    p = self.expand(n)
    items = sorted(((k, v[0]) for k, v in p.d.items() if v[0] != 0), key=lambda kv: repr(kv[0]))
    if not items:
      return Poly.const(1)
    lead = items[0][1]
    direction = tuple((k, _round_sig(c / lead)) for k, c in items)
    return Poly.expatom(direction, F(lead))


def rational_form(t, ex):
  """(numerator Poly, denominator Poly) of a real term."""
  n, d = vcmod.numden(t)
  return ex.expand(n), (ex.expand(d) if d is not None else Poly.const(1))


def _canon_key(k):
  atoms, exps = k
  return (atoms, tuple((d, _round_sig(s, 10)) for d, s in exps))


def tolerant_equal(got, want, tol=1e-9):
  """Is got == want up to tol, coefficient by coefficient of the cross-multiplied
  polynomials (exp factors with scalars agreeing to 10 digits are identified)?
  Returns (ok, info).  The decision is a z3 linear query over the absolute
  values of the monomials."""
  ex = Expander()
  ng, dg = rational_form(got, ex)
  nw, dw = rational_form(want, ex)
  P = ng.mul(dw)
  Q = nw.mul(dg)
  cp, cq = {}, {}
  for src, dst in ((P, cp), (Q, cq)):
    for k, (c, m) in src.d.items():
      kk = _canon_key(k)
      if kk in dst:
        dst[kk][0] += c
        dst[kk][1] += m
      else:
        dst[kk] = [c, m]
  keys = sorted(set(cp) | set(cq), key=repr)
  s = z3.Solver()
  s.set("timeout", 20000)
  lhs, rhs = [], []
  worst = (0.0, None)
  for i, k in enumerate(keys):
    p, mp = cp.get(k, [F(0), F(0)])
    q, mq = cq.get(k, [F(0), F(0)])
    a = z3.Real("m%d" % i)
    s.add(a >= 0)
    diff = abs(p - q)
    mag = mp + mq
    if diff != 0:
      lhs.append(core.rv(diff) * a)
      rel = float(diff) / float(mag) if mag else float("inf")
      if rel > worst[0]:
        worst = (rel, k)
    rhs.append(core.rv(F(tol) * mag) * a)
  if not lhs:
    return True, dict(monomials=len(keys), worst_relative_residue=0.0, query="trivial")
  # violation: some assignment of monomial magnitudes makes the residue exceed the allowance
  s.add(z3.Sum(lhs) > z3.Sum(rhs))
  r = s.check()
  return (r == z3.unsat), dict(monomials=len(keys), worst_relative_residue=worst[0], worst_monomial=repr(worst[1])[:200], query=str(r))
