"""SYMX core: symbolic proxies for Python floats/ints/bools, path exploration by
re-execution with a decision prefix, uninterpreted callables, and tags that let
symbolic values travel through the repo's own text formatting.

Everything here is generic; nothing knows about atsim-potentials.
"""
import builtins
import fractions
import math as _math
import time

import z3

R = z3.RealSort()
I = z3.IntSort()


def timed_check(solver, timeout_ms, *assumptions):
  """solver.check under z3's own timeout (set per call).  A hard wall-clock
  limit per case is enforced by the runner, which kills the case process."""
  solver.set("timeout", int(timeout_ms))
  try:
    return solver.check(*assumptions)
  except z3.Z3Exception:
    return z3.unknown


class HarnessError(Exception):
  """Something the engine cannot model happened (proxy leaked, unsupported op)."""


class PathAbort(BaseException):
  """Ends the current path deliberately (outside the stated bound / infeasible).
  BaseException so that `except Exception` in the code under test cannot eat it."""

  def __init__(self, reason, kind="outside_bound"):
    BaseException.__init__(self, reason)
    self.reason = reason
    self.kind = kind


# --------------------------------------------------------------------------
# Run context

class Run(object):
  """State of one execution of the function under exploration."""

  def __init__(self, explorer, prefix):
    self.explorer = explorer
    self.prefix = list(prefix)
    self.decisions = []
    self.pc = []            # list of z3 BoolRef (decisions and assumptions)
    self.assumed = []       # definedness assumptions (denominators != 0, ...)
    self.ntag = 0
    self.tags = {}          # int tag -> z3 term
    self.solver = z3.Solver()
    self.solver.set("timeout", explorer.query_timeout_ms)
    self.notes = []
    self.forced = 0

  def new_tag(self, term):
    self.ntag += 1
    t = 1000000 + self.ntag
    if t > 9999999:
      raise HarnessError("tag space exhausted")
    self.tags[t] = term
    return t

  def _check(self, extra):
    t0 = time.time()
    r = timed_check(self.solver, self.explorer.query_timeout_ms, extra)
    st = self.explorer.stats
    st["feasibility_queries"] += 1
    st["solver_s"] += time.time() - t0
    return r

  def assume(self, cond, definedness=False, in_solver=True):
    """in_solver=False keeps the assumption out of the feasibility solver (it
    is still part of the path condition handed to the VCs): used for the
    defining equations of fresh unknowns, which cannot make a path infeasible
    but make every feasibility query nonlinear."""
    cond = z3.simplify(cond)
    if z3.is_true(cond):
      return
    if z3.is_false(cond):
      raise PathAbort("assumption is false", "infeasible")
    self.pc.append(cond)
    if definedness:
      self.assumed.append(cond)
    if in_solver:
      self.solver.add(cond)

  def decide(self, cond):
    cond = z3.simplify(cond)
    if z3.is_true(cond):
      return True
    if z3.is_false(cond):
      return False
    i = len(self.decisions)
    if i < len(self.prefix):
      choice = self.prefix[i]
    else:
      ex = self.explorer
      if ex.deadline and time.time() > ex.deadline:
        ex.stats["truncated"] = True
        raise PathAbort("time budget of the exploration exhausted inside a path", "budget")
      if ex.blind:
        # no feasibility queries while exploring (bit-precise floating point: every query costs seconds);
        # the caller decides the feasibility of the paths it is interested in afterwards
        rt = rf = z3.sat
      else:
        rt = self._check(cond)
        rf = self._check(z3.Not(cond))
      can_t = rt != z3.unsat
      can_f = rf != z3.unsat
      if rt == z3.unknown or rf == z3.unknown:
        self.explorer.stats["unknown_feasibility"] += 1
      if can_t and can_f:
        choice = self.explorer.first_choice
        self.explorer.schedule(self.decisions + [not choice])
      elif can_t:
        choice = True
        self.forced += 1
      elif can_f:
        choice = False
        self.forced += 1
      else:
        raise PathAbort("path condition became infeasible", "infeasible")
    self.decisions.append(choice)
    c = cond if choice else z3.Not(cond)
    self.pc.append(c)
    self.solver.add(c)
    return choice


CUR = None  # the active Run
LAST_SYMBOLIC_COUNT = None   # term of the last symbolic integer that was used as a concrete count (diagnostics for fpgrid)


def cur():
  if CUR is None:
    raise HarnessError("symbolic value used outside an exploration")
  return CUR


class PathResult(object):
  def __init__(self, run, value=None, exc=None, aborted=None):
    self.pc = list(run.pc)
    self.assumed = list(run.assumed)
    self.decisions = list(run.decisions)
    self.tags = run.tags
    self.value = value
    self.exc = exc
    self.aborted = aborted
    self.notes = run.notes

  def term_of_number(self, x):
    """Map a number read back from formatted output to its z3 term."""
    if isinstance(x, SReal):
      x = builtins.float(x)     # the proxy itself came back (e.g. from a workbook cell): use its tag
    xi = int(round(x))
    if abs(x - xi) < 1e-6 and xi in self.tags:
      return self.tags[xi]
    return None


class Explorer(object):
  def __init__(self, max_paths=20000, query_timeout_ms=10000, first_choice=True, max_seconds=None, blind=False):
    self.max_paths = max_paths
    self.blind = blind
    self.deadline = (time.time() + max_seconds) if max_seconds else None
    self.query_timeout_ms = query_timeout_ms
    self.first_choice = first_choice
    self.worklist = []
    self.stats = dict(paths=0, decisions=0, feasibility_queries=0, solver_s=0.0,
                      unknown_feasibility=0, aborted=0, infeasible=0, truncated=False)

  def schedule(self, prefix):
    self.worklist.append(prefix)

  def explore(self, fn, catch=(Exception,)):
    """Run fn() once per feasible path.  Returns list of PathResult."""
    return list(self.iter_paths(fn, catch))

  def iter_paths(self, fn, catch=(Exception,)):
    """Generator over the feasible paths of fn() (depth-first).  Exceptions of
    the types in `catch` end a path and are recorded in .exc.  Stops (and marks
    the exploration truncated) at max_paths or at the deadline."""
    global CUR
    self.worklist = [[]]
    while self.worklist:
      if self.stats["paths"] >= self.max_paths or (self.deadline and time.time() > self.deadline):
        self.stats["truncated"] = True
        break
      prefix = self.worklist.pop()
      run = Run(self, prefix)
      prev = CUR
      CUR = run
      res = None
      try:
        try:
          v = fn()
          res = PathResult(run, value=v)
        except PathAbort as pa:
          if pa.kind == "infeasible":
            self.stats["infeasible"] += 1
          elif pa.kind == "budget":
            pass
          else:
            self.stats["aborted"] += 1
            res = PathResult(run, aborted=pa.reason)
        except HarnessError:
          raise
        except catch as e:
          res = PathResult(run, exc=e)
      finally:
        CUR = prev
      if res is None:
        continue
      self.stats["paths"] += 1
      self.stats["decisions"] += len(run.decisions)
      yield res


# --------------------------------------------------------------------------
# Terms

def _is_num(x):
  return isinstance(x, (int, float)) and not isinstance(x, (bool, SBool))


def rv(x):
  """Exact z3 value of a concrete python number."""
  if isinstance(x, bool):
    x = int(x)
  if isinstance(x, int):
    return z3.RealVal(x)
  if isinstance(x, float):
    if _math.isinf(x) or _math.isnan(x):
      raise HarnessError("non-finite float in symbolic arithmetic: %r" % x)
    fr = fractions.Fraction(x)
    return z3.RealVal(str(fr.numerator) + "/" + str(fr.denominator)) if fr.denominator != 1 else z3.RealVal(fr.numerator)
  if isinstance(x, fractions.Fraction):
    return z3.RealVal(str(x.numerator) + "/" + str(x.denominator))
  raise HarnessError("cannot lift %r" % (x,))


def term(x):
  """z3 Real term of a proxy or concrete number."""
  if isinstance(x, SReal):
    return x.t
  if isinstance(x, SInt):
    return z3.ToReal(x.t)
  if isinstance(x, SBool):
    return z3.If(x.t, z3.RealVal(1), z3.RealVal(0))
  if isinstance(x, (int, float)):
    return rv(x)
  if isinstance(x, z3.ArithRef):
    return z3.ToReal(x) if x.is_int() else x
  raise HarnessError("cannot make a term of %r" % (type(x),))


def _liftable(o):
  return isinstance(o, (SReal, SInt, SBool, int, float)) and not isinstance(o, Opaque)


class Opaque(object):
  pass


def _powint(t, n):
  if n == 0:
    return z3.RealVal(1)
  out = t
  for _ in range(n - 1):
    out = out * t
  return out


POW = z3.Function("POW", R, R, R)       # POW(x, e) = x**e for non-integer / symbolic e
ROOT = {}                               # q -> z3 Function root_q


def root_fn(q):
  if q not in ROOT:
    ROOT[q] = z3.Function("ROOT%d" % q, R, R)
  return ROOT[q]


INT_TAGS = False


class SReal(float):
  """A float whose value is a z3 Real term.  Its *float value* is a unique
  integer tag so that it survives C-level formatting and can be mapped back."""
  __slots__ = ("t",)

  def __new__(cls, t):
    run = cur()
    obj = float.__new__(cls, run.new_tag(t))
    obj.t = t
    return obj

  # -- arithmetic
  def __add__(self, o):
    if not _liftable(o):
      return NotImplemented
    return SReal(self.t + term(o))

  def __radd__(self, o):
    if not _liftable(o):
      return NotImplemented
    return SReal(term(o) + self.t)

  def __sub__(self, o):
    if not _liftable(o):
      return NotImplemented
    return SReal(self.t - term(o))

  def __rsub__(self, o):
    if not _liftable(o):
      return NotImplemented
    return SReal(term(o) - self.t)

  def __mul__(self, o):
    if not _liftable(o):
      return NotImplemented
    return SReal(self.t * term(o))

  def __rmul__(self, o):
    if not _liftable(o):
      return NotImplemented
    return SReal(term(o) * self.t)

  def __truediv__(self, o):
    if not _liftable(o):
      return NotImplemented
    d = term(o)
    _defined_div(d)
    return SReal(self.t / d)

  def __rtruediv__(self, o):
    if not _liftable(o):
      return NotImplemented
    _defined_div(self.t)
    return SReal(term(o) / self.t)

  def __neg__(self):
    return SReal(-self.t)

  def __pos__(self):
    return self

  def __abs__(self):
    return SReal(z3.If(self.t >= 0, self.t, -self.t))

  def __pow__(self, e, mod=None):
    return sym_pow(self, e)

  def __rpow__(self, b):
    return sym_pow(b, self)

  def _unsupported(self, *a, **k):
    raise HarnessError("unsupported operation on SReal")

  __floordiv__ = __rfloordiv__ = __mod__ = __rmod__ = __divmod__ = __rdivmod__ = _unsupported
  __round__ = __floor__ = __ceil__ = _unsupported

  def __int__(self):
    """int() of a symbolic real under the *real* model: if the path condition
    fixes trunc(x) to one integer, that concrete int is returned (and noted);
    otherwise the path leaves the stated bound.  With INT_TAGS set (harnesses in
    which the code under test has no int() of its own, so that the conversion can
    only come from a C-level array/dtype cast) the result is a fresh tag standing
    for trunc(x): the truncated value stays symbolic through the writer."""
    run = cur()
    if INT_TAGS:
      tr = z3.If(self.t >= 0, z3.ToReal(z3.ToInt(self.t)), -z3.ToReal(z3.ToInt(-self.t)))
      run.notes.append("int() of a symbolic real kept symbolic as trunc(x) (C-level integer conversion)")
      return run.new_tag(tr)
    s = run.solver
    if s.check() != z3.sat:
      raise PathAbort("int() of a symbolic real: path condition not satisfiable/unknown")
    v = s.model().eval(self.t, model_completion=True)
    if not z3.is_rational_value(v):
      raise PathAbort("int() of a symbolic real whose value is not rational in the model")
    import math
    fr = fractions.Fraction(v.numerator_as_long(), v.denominator_as_long())
    k = math.trunc(fr)
    kk = z3.RealVal(k)
    inside = z3.And(self.t >= kk, self.t < kk + 1) if k > 0 else (
      z3.And(self.t > kk - 1, self.t <= kk) if k < 0 else z3.And(self.t > -1, self.t < 1))
    if s.check(z3.Not(inside)) == z3.unsat:
      run.notes.append("int() of a symbolic real concretised to %d (real-number model; rounding is outside the claim)" % k)
      return k
    raise PathAbort("int() of a symbolic real is not determined by the path condition")

  __trunc__ = __int__

  # -- comparisons
  def _cmp(self, o, op):
    if isinstance(o, float) and not isinstance(o, SReal) and _math.isinf(o):
      big = o > 0
      return {"lt": big, "le": big, "gt": not big, "ge": not big, "eq": False, "ne": True}[op]
    if not _liftable(o):
      if op == "eq":
        return False
      if op == "ne":
        return True
      return NotImplemented
    a, b = self.t, term(o)
    c = {"lt": a < b, "le": a <= b, "gt": a > b, "ge": a >= b, "eq": a == b, "ne": a != b}[op]
    return SBool(c)

  def __lt__(self, o): return self._cmp(o, "lt")
  def __le__(self, o): return self._cmp(o, "le")
  def __gt__(self, o): return self._cmp(o, "gt")
  def __ge__(self, o): return self._cmp(o, "ge")
  def __eq__(self, o): return self._cmp(o, "eq")
  def __ne__(self, o): return self._cmp(o, "ne")

  def __hash__(self):
    return float.__hash__(self)

  def __bool__(self):
    return cur().decide(self.t != 0)

  def __repr__(self):
    return float.__repr__(self)

  def __reduce__(self):
    raise HarnessError("SReal cannot be pickled")


def _defined_div(d):
  """Division is assumed defined: denominator != 0 joins the path condition
  (recorded as a definedness assumption)."""
  cur().assume(d != 0, definedness=True)


def sym_pow(b, e):
  """b ** e with at least one symbolic operand."""
  if isinstance(e, (int, float)) and not isinstance(e, (SReal, SInt, SBool)):
    bt = term(b)
    if float(e) == int(e):
      n = int(e)
      if n >= 0:
        return SReal(_powint(bt, n))
      _defined_div(bt)
      return SReal(z3.RealVal(1) / _powint(bt, -n))
    fr = fractions.Fraction(e)
    if fr.denominator <= 64:
      # exact small rational exponent p/q -> root atom
      p, q = fr.numerator, fr.denominator
      rt = root_atom(bt, q)
      if p >= 0:
        return SReal(_powint(rt, p))
      _defined_div(rt)
      return SReal(z3.RealVal(1) / _powint(rt, -p))
    return SReal(POW(bt, rv(e)))
  if not _liftable(e) or not _liftable(b):
    return NotImplemented
  return SReal(POW(term(b), term(e)))


def root_atom(bt, q):
  f = root_fn(q)
  a = f(bt)
  run = cur()
  # root_q(x)^q == x and root_q(x) >= 0 for x >= 0 (the only domain python accepts)
  run.assume(bt >= 0, definedness=True)
  run.assume(z3.And(_powint(a, q) == bt, a >= 0), definedness=True)
  return a


class SInt(Opaque):
  """Symbolic integer (z3 Int).  Not an int subclass: using it as a loop bound
  ends the path (outside the stated bound)."""

  def __init__(self, t):
    self.t = t

  @staticmethod
  def _it(o):
    if isinstance(o, SInt):
      return o.t
    if isinstance(o, bool):
      return z3.IntVal(int(o))
    if isinstance(o, int):
      return z3.IntVal(o)
    return None

  def _arith(self, o, f, rf):
    if getattr(o, "_takes_int", False):
      return NotImplemented      # other number algebras (fpalg) handle the mixed operation
    it = SInt._it(o)
    if it is not None:
      return SInt(f(self.t, it))
    if isinstance(o, (float, SReal)):
      return SReal(rf(z3.ToReal(self.t), term(o)))
    return NotImplemented

  def __add__(self, o): return self._arith(o, lambda a, b: a + b, lambda a, b: a + b)
  def __radd__(self, o): return self._arith(o, lambda a, b: b + a, lambda a, b: b + a)
  def __sub__(self, o): return self._arith(o, lambda a, b: a - b, lambda a, b: a - b)
  def __rsub__(self, o): return self._arith(o, lambda a, b: b - a, lambda a, b: b - a)
  def __mul__(self, o): return self._arith(o, lambda a, b: a * b, lambda a, b: a * b)
  def __rmul__(self, o): return self._arith(o, lambda a, b: b * a, lambda a, b: b * a)

  def __truediv__(self, o):
    if getattr(o, "_takes_int", False):
      return NotImplemented
    d = term(o)
    _defined_div(d)
    return SReal(z3.ToReal(self.t) / d)

  def __rtruediv__(self, o):
    if getattr(o, "_takes_int", False):
      return NotImplemented
    d = z3.ToReal(self.t)
    _defined_div(d)
    return SReal(term(o) / d)

  def __mod__(self, o):
    it = SInt._it(o)
    if it is None:
      raise HarnessError("SInt % non-int")
    return SInt(self.t % it)   # z3 mod agrees with python for positive modulus

  def __neg__(self): return SInt(-self.t)

  def _cmp(self, o, op):
    if getattr(o, "_takes_int", False):
      return NotImplemented
    it = SInt._it(o)
    if it is None:
      if isinstance(o, (float, SReal)):
        a, b = z3.ToReal(self.t), term(o)
      else:
        return NotImplemented if op not in ("eq", "ne") else (op == "ne")
    else:
      a, b = self.t, it
    c = {"lt": a < b, "le": a <= b, "gt": a > b, "ge": a >= b, "eq": a == b, "ne": a != b}[op]
    return SBool(c)

  def __lt__(self, o): return self._cmp(o, "lt")
  def __le__(self, o): return self._cmp(o, "le")
  def __gt__(self, o): return self._cmp(o, "gt")
  def __ge__(self, o): return self._cmp(o, "ge")
  def __eq__(self, o): return self._cmp(o, "eq")
  def __ne__(self, o): return self._cmp(o, "ne")
  __hash__ = None

  def __bool__(self):
    return cur().decide(self.t != 0)

  def __index__(self):
    global LAST_SYMBOLIC_COUNT
    LAST_SYMBOLIC_COUNT = self.t
    raise PathAbort("symbolic integer used as a concrete count (loop bound / index)")

  __int__ = __index__

  def __float__(self):
    raise PathAbort("float() of symbolic integer outside shimmed module")

  def __format__(self, spec):
    return "<SInt>"

  def __str__(self):
    return "<SInt>"


class SBool(Opaque):
  """Symbolic bool.  Truth-testing forks the path."""

  def __init__(self, t):
    self.t = t

  def __bool__(self):
    return cur().decide(self.t)

  def _i(self):
    return SInt(z3.If(self.t, z3.IntVal(1), z3.IntVal(0)))

  def __sub__(self, o):
    return self._i() - (o._i() if isinstance(o, SBool) else o)

  def __rsub__(self, o):
    return (o._i() if isinstance(o, SBool) else o) - self._i()

  def __add__(self, o):
    return self._i() + (o._i() if isinstance(o, SBool) else o)

  __radd__ = __add__

  def __and__(self, o):
    return SBool(z3.And(self.t, o.t if isinstance(o, SBool) else z3.BoolVal(bool(o))))

  def __or__(self, o):
    return SBool(z3.Or(self.t, o.t if isinstance(o, SBool) else z3.BoolVal(bool(o))))

  def __invert__(self):
    return SBool(z3.Not(self.t))

  def __eq__(self, o):
    if isinstance(o, SBool):
      return SBool(self.t == o.t)
    if isinstance(o, bool):
      return SBool(self.t == z3.BoolVal(o))
    return False

  __hash__ = None


# --------------------------------------------------------------------------
# Creating symbolic inputs

def sym(name):
  """A symbolic real input.  Same name -> same z3 constant on every path."""
  return SReal(z3.Real(name))


def symint(name):
  return SInt(z3.Int(name))


def lift(x):
  """Turn a concrete number into an SReal constant (so it gets a tag)."""
  return SReal(rv(x))


def assume(c):
  if isinstance(c, SBool):
    cur().assume(c.t)
  elif isinstance(c, z3.BoolRef):
    cur().assume(c)
  elif not c:
    raise PathAbort("assumption is false", "infeasible")


def note(s):
  cur().notes.append(s)


# --------------------------------------------------------------------------
# Uninterpreted callables

class UFCall(object):
  """Callable backed by a z3 uninterpreted function Real -> Real.  Accepts
  concrete numbers, SReal and Jet arguments.  `chain` gives the UFs of its
  derivatives (for Jet arguments)."""

  def __init__(self, name, chain=None, counter=None):
    self.name = name
    self.f = z3.Function(name, R, R)
    self.chain = chain or []   # [d1 UFCall, d2 UFCall]
    self.counter = counter

  def __call__(self, x):
    from . import jets
    if self.counter is not None:
      self.counter(self, x)
    if isinstance(x, jets.Jet):
      if len(self.chain) < 2:
        raise HarnessError("UF %s has no derivative chain for a Jet argument" % self.name)
      v = SReal(self.f(term(x.v)))
      d1u = SReal(self.chain[0].f(term(x.v)))
      d2u = SReal(self.chain[1].f(term(x.v)))
      return jets.Jet(v, d1u * x.d1, d2u * x.d1 * x.d1 + d1u * x.d2)
    return SReal(self.f(term(x)))

  def __repr__(self):
    return "<UF %s>" % self.name


def uf(name, deriv=False, deriv2=False, counter=None):
  """An arbitrary function `name`.  With deriv/deriv2 it *offers* analytic
  derivative methods (themselves arbitrary functions d<name>, d2<name> that are,
  by construction, the true derivatives: they are what a Jet sees)."""
  d1 = UFCall("d_" + name, counter=counter)
  d2 = UFCall("d2_" + name, counter=counter)
  d3 = UFCall("d3_" + name, counter=counter)
  d4 = UFCall("d4_" + name, counter=counter)
  d1.chain = [d2, d3]
  d2.chain = [d3, d4]
  u = UFCall(name, [d1, d2], counter=counter)
  u.true_deriv = d1
  u.true_deriv2 = d2
  if deriv:
    u.deriv = d1
  if deriv2:
    u.deriv2 = d2
  return u
