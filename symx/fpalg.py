"""Two further number algebras behind SYMX proxies, for code whose integer
results depend on floating-point rounding (C11):

* SFP  - bit-precise IEEE-754 double: terms are z3 Float64, every operation
         rounds to nearest even, int() is fpToSBV(RTZ).
* SErr - the 'standard model' of floating point over the reals: every
         operation's exact result is multiplied by (1 + e), |e| <= 2^-53, with a
         fresh e per operation.  Sound over-approximation of IEEE double (no
         overflow/underflow in the ranges considered): unsat here => holds for
         doubles.
"""
import z3

from . import core
from .core import SReal, SInt, SBool, HarnessError, PathAbort, cur

F64 = z3.Float64()
RNE = z3.RNE()
RTZ = z3.RTZ()


def fpv(x):
  return z3.FPVal(float(x), F64)


class SBV(core.Opaque):
  """Symbolic python int held as a 64-bit signed bit-vector (no overflow in the
  ranges considered); used with SFP so that queries stay in QF_FPBV."""
  _takes_int = True

  def __init__(self, t):
    self.t = t

  @staticmethod
  def _bv(o):
    if isinstance(o, SBV):
      return o.t
    if isinstance(o, bool):
      return z3.BitVecVal(int(o), 64)
    if isinstance(o, int):
      return z3.BitVecVal(o, 64)
    return None

  def _ar(self, o, f):
    b = SBV._bv(o)
    return NotImplemented if b is None else SBV(f(self.t, b))

  def __add__(self, o): return self._ar(o, lambda a, b: a + b)
  __radd__ = __add__
  def __sub__(self, o): return self._ar(o, lambda a, b: a - b)
  def __rsub__(self, o): return self._ar(o, lambda a, b: b - a)
  def __mul__(self, o): return self._ar(o, lambda a, b: a * b)
  __rmul__ = __mul__
  def __neg__(self): return SBV(-self.t)

  def _cmp(self, o, op):
    b = SBV._bv(o)
    if b is None:
      return NotImplemented if op not in ("eq", "ne") else (op == "ne")
    a = self.t
    return SBool({"lt": a < b, "le": a <= b, "gt": a > b, "ge": a >= b, "eq": a == b, "ne": a != b}[op])

  def __lt__(self, o): return self._cmp(o, "lt")
  def __le__(self, o): return self._cmp(o, "le")
  def __gt__(self, o): return self._cmp(o, "gt")
  def __ge__(self, o): return self._cmp(o, "ge")
  def __eq__(self, o): return self._cmp(o, "eq")
  def __ne__(self, o): return self._cmp(o, "ne")
  __hash__ = None

  def __bool__(self):
    return cur().decide(self.t != 0)

  def __index__(self):
    core.LAST_SYMBOLIC_COUNT = self.t
    raise PathAbort("symbolic integer used as a concrete count")

  __int__ = __index__

  def __str__(self):
    return "<SBV>"

  __repr__ = __str__
  __format__ = lambda self, spec: "<SBV>"


class SFP(core.Opaque):
  """Symbolic IEEE double."""
  _takes_int = True

  def __init__(self, t):
    self.t = t

  @staticmethod
  def lift(o):
    if isinstance(o, SFP):
      return o.t
    if isinstance(o, bool):
      return fpv(int(o))
    if isinstance(o, int):
      if abs(o) >= 2 ** 53:
        raise HarnessError("int too large for exact conversion")
      return fpv(o)
    if isinstance(o, float):
      return fpv(o)
    if isinstance(o, SInt):
      # python converts the int to the nearest double (exact below 2^53)
      return z3.fpSignedToFP(RNE, z3.Int2BV(o.t, 64), F64)
    if isinstance(o, SBV):
      return z3.fpSignedToFP(RNE, o.t, F64)
    return None

  def _bin(self, o, f, swap=False):
    b = SFP.lift(o)
    if b is None:
      return NotImplemented
    a = self.t
    if swap:
      a, b = b, a
    return SFP(f(RNE, a, b))

  def __add__(self, o): return self._bin(o, z3.fpAdd)
  def __radd__(self, o): return self._bin(o, z3.fpAdd, True)
  def __sub__(self, o): return self._bin(o, z3.fpSub)
  def __rsub__(self, o): return self._bin(o, z3.fpSub, True)
  def __mul__(self, o): return self._bin(o, z3.fpMul)
  def __rmul__(self, o): return self._bin(o, z3.fpMul, True)

  def __truediv__(self, o):
    b = SFP.lift(o)
    if b is None:
      return NotImplemented
    cur().assume(z3.Not(z3.fpIsZero(b)), definedness=True)   # python raises ZeroDivisionError
    return SFP(z3.fpDiv(RNE, self.t, b))

  def __rtruediv__(self, o):
    a = SFP.lift(o)
    if a is None:
      return NotImplemented
    cur().assume(z3.Not(z3.fpIsZero(self.t)), definedness=True)
    return SFP(z3.fpDiv(RNE, a, self.t))

  def __neg__(self): return SFP(z3.fpNeg(self.t))
  def __abs__(self): return SFP(z3.fpAbs(self.t))

  def _cmp(self, o, op):
    b = SFP.lift(o)
    if b is None:
      return NotImplemented if op not in ("eq", "ne") else (op == "ne")
    a = self.t
    c = {"lt": z3.fpLT, "le": z3.fpLEQ, "gt": z3.fpGT, "ge": z3.fpGEQ, "eq": z3.fpEQ, "ne": z3.fpNEQ}[op](a, b)
    return SBool(c)

  def __lt__(self, o): return self._cmp(o, "lt")
  def __le__(self, o): return self._cmp(o, "le")
  def __gt__(self, o): return self._cmp(o, "gt")
  def __ge__(self, o): return self._cmp(o, "ge")
  def __eq__(self, o): return self._cmp(o, "eq")
  def __ne__(self, o): return self._cmp(o, "ne")
  __hash__ = None

  def __bool__(self):
    return cur().decide(z3.Not(z3.fpIsZero(self.t)))

  def sym_ceil(self):
    return SBV(z3.fpToSBV(z3.RTP(), self.t, z3.BitVecSort(64)))

  def sym_floor(self):
    return SBV(z3.fpToSBV(z3.RTN(), self.t, z3.BitVecSort(64)))

  def to_int(self):
    """python int(x): truncation toward zero (x finite, |x| < 2^62 assumed)."""
    return SBV(z3.fpToSBV(RTZ, self.t, z3.BitVecSort(64)))

  def __float__(self):
    return 0.0          # only so that '%f' % x does not fail; printed values of an SFP run are never read

  def __format__(self, spec):
    return "<SFP>"

  def __str__(self):
    return "<SFP>"

  __repr__ = __str__


def decimal_fp(m_bv, scale):
  """The double a decimal literal m/10^q is read as: by correct rounding of
  float() it is exactly RNE(m / 10^q) = fpDiv(RNE, m, 10^q) for m < 2^53 and
  10^q exactly representable (q <= 22)."""
  return SFP(z3.fpDiv(RNE, z3.fpSignedToFP(RNE, m_bv, F64), fpv(scale)))


U = z3.RealVal(1) / z3.RealVal(2 ** 53)


class SErr(SReal):
  """SReal whose arithmetic carries a fresh relative rounding error per operation."""
  __slots__ = ()
  _takes_int = True

  @staticmethod
  def _round(t):
    run = cur()
    n = run.__dict__.setdefault("nerr", 0)
    run.__dict__["nerr"] = n + 1
    e = z3.Real("e%d" % n)
    run.assume(z3.And(e >= -U, e <= U))
    return SErr(t * (1 + e))

  @staticmethod
  def _t(o):
    if isinstance(o, (SReal, SInt, int, float)) and not isinstance(o, bool):
      return core.term(o)
    return None

  def __add__(self, o):
    b = SErr._t(o)
    return NotImplemented if b is None else SErr._round(self.t + b)

  __radd__ = __add__

  def __sub__(self, o):
    b = SErr._t(o)
    return NotImplemented if b is None else SErr._round(self.t - b)

  def __rsub__(self, o):
    b = SErr._t(o)
    return NotImplemented if b is None else SErr._round(b - self.t)

  def __mul__(self, o):
    b = SErr._t(o)
    return NotImplemented if b is None else SErr._round(self.t * b)

  __rmul__ = __mul__

  def __truediv__(self, o):
    b = SErr._t(o)
    if b is None:
      return NotImplemented
    core._defined_div(b)
    return SErr._round(self.t / b)

  def __rtruediv__(self, o):
    b = SErr._t(o)
    if b is None:
      return NotImplemented
    core._defined_div(self.t)
    return SErr._round(b / self.t)

  def __neg__(self):
    return SErr(-self.t)

  def __abs__(self):
    return SErr(z3.If(self.t >= 0, self.t, -self.t))

  def sym_ceil(self):
    return SInt(-z3.ToInt(-self.t))

  def sym_floor(self):
    return SInt(z3.ToInt(self.t))

  def to_int(self):
    """int(x) = floor(x) for x >= 0 (the path is left if x may be negative)."""
    run = cur()
    if run._check(self.t < 0) != z3.unsat:
      raise PathAbort("int() of a possibly negative value in the rounding-error model")
    return SInt(z3.ToInt(self.t))


def sint(x=0):
  """shim for the builtin int inside the modules under test"""
  if isinstance(x, (SFP, SErr)):
    return x.to_int()
  if isinstance(x, (SInt, SBV)):
    return x
  if isinstance(x, SReal):
    return x.__int__()
  return int(x)


def sfloat(x=0.0):
  if isinstance(x, (SFP, SReal)):
    return x
  if isinstance(x, (SInt, SBV)):
    return x          # int -> float is exact in the ranges considered; the consuming operation converts
  return float(x)
