"""Glue used by the per-property checks: explore -> build VCs -> discharge ->
replay counterexamples -> fill the case result."""
import fractions
import time

import z3

from . import core, vc as vcmod
from .run import new_result


class Structural(Exception):
  """A concrete (non-solver) structural mismatch found while reading output."""

  def __init__(self, key, desc):
    Exception.__init__(self, desc)
    self.key, self.desc = key, desc


def consts_of(terms):
  out, seen = {}, set()

  def walk(t):
    i = t.get_id()
    if i in seen:
      return
    seen.add(i)
    if z3.is_const(t) and t.decl().kind() == z3.Z3_OP_UNINTERPRETED:
      out[str(t)] = t
    for c in t.children():
      walk(c)
  for t in terms:
    walk(t)
  return out


def witness_from_model(m, terms):
  w = {}
  for name, c in consts_of(terms).items():
    v = vcmod.model_value(m, c)
    if v is not None:
      w[name] = float(v) if isinstance(v, fractions.Fraction) else v
      w[name + "#exact"] = str(v)
  return w


def explore_and_check(res, fn, build_vcs, replay=None, negative=None, explorer_kw=None,
                      use_exp_axioms=False, vc_timeout_ms=20000, catch=(Exception,),
                      max_samples=2, key_prefix="", batch=True):
  """fn(): the symbolic run (returns anything).  build_vcs(path) -> list[VC]
  (may raise Structural).  replay(vc, witness, path) -> (confirmed, desc, record).
  negative(path) -> list[VC] that must NOT all hold (vacuity guard)."""
  ex = core.Explorer(**(explorer_kw or {}))
  paths = ex.explore(fn, catch=catch)
  D = vcmod.Discharger(timeout_ms=vc_timeout_ms)
  res["paths"] += ex.stats["paths"]
  res["decisions"] += ex.stats["decisions"]
  res["queries"] += ex.stats["feasibility_queries"]
  res["solver_s"] += ex.stats["solver_s"]
  if ex.stats["truncated"]:
    res["inconclusive"].append("path budget exhausted after %d paths" % ex.stats["paths"])
  if ex.stats["unknown_feasibility"]:
    res["notes"].append("%d feasibility queries returned unknown (both branches explored)" % ex.stats["unknown_feasibility"])
  neg_seen = False
  seen_keys = {}
  for p in paths:
    if p.aborted:
      res["outside"].append("path ended: %s" % p.aborted)
      continue
    try:
      vcs = build_vcs(p)
    except Structural as s:
      confirmed, desc, rec = (True, s.desc, {})
      if replay is not None:
        confirmed, desc, rec = replay(None, {}, p, s)
      (res["violations"] if confirmed else res["spurious"]).append(
        dict(key=key_prefix + s.key, desc=desc, record=rec))
      if not confirmed:
        res["inconclusive"].append("structural mismatch not reproduced: " + s.desc)
      continue
    if vcs is None:
      continue
    r = D.pc_satisfiable(p.pc)
    if r != z3.sat:
      res["inconclusive"].append("path condition not shown satisfiable (%s)" % r)
      continue
    out = D.prove_all(p.pc, vcs, use_exp_axioms=use_exp_axioms, batch=batch)
    for (v, status, m) in out:
      res["vcs"] += 1
      res[status] += 1
      if len(res["samples"]) < max_samples and status == "unsat":
        res["samples"].append(dict(vc=v.name, status=status, formula=vcmod.short(v.formula, 400),
                                   path_condition=[vcmod.short(c, 120) for c in p.pc[:6]]))
      if status == "unknown":
        res["inconclusive"].append("VC %s: solver returned unknown" % v.name)
      elif status == "sat":
        w = witness_from_model(m, [v.formula] + list(p.pc))
        confirmed, desc, rec = (False, "no replay available", {})
        vkey = key_prefix + (v.info or {}).get("key", v.name)
        if vkey in seen_keys:
          # same kind of violation already replayed and recorded for this case
          seen_keys[vkey]["count"] = seen_keys[vkey].get("count", 1) + 1
          continue
        if replay is not None:
          try:
            confirmed, desc, rec = replay(v, w, p, None)
            res["replays"] += 1
          except Exception as e:  # replay itself failed
            confirmed, desc, rec = (False, "replay raised %s: %s" % (type(e).__name__, e), {})
        entry = dict(key=vkey, vc=v.name, desc=desc, witness=w,
                     record=rec, formula=vcmod.short(v.formula, 600))
        if confirmed:
          res["violations"].append(entry)
          seen_keys[vkey] = entry
        else:
          res["spurious"].append(entry)
          res["inconclusive"].append("VC %s: counterexample did not reproduce on the real code (%s)" % (v.name, desc))
    if negative is not None and not neg_seen:
      nv = negative(p)
      if nv:
        res["negatives"] += 1
        nout = D.prove_all(p.pc, nv, use_exp_axioms=use_exp_axioms, batch=False)
        if any(st == "sat" for (_v, st, _m) in nout):
          res["negatives_ok"] += 1
        neg_seen = True
  res["queries"] += D.stats["queries"] + D.stats["pc_checks"]
  res["solver_s"] += D.stats["solver_s"]
  return paths
