"""Glue used by the per-property checks: explore -> build VCs -> discharge ->
replay counterexamples -> fill the case result."""
import bisect
import fractions
import time

import z3

from . import core, vc as vcmod
from .run import new_result


class Structural(Exception):
  """A concrete (non-solver) structural mismatch found while reading output."""

  def __init__(self, key, desc):
    Exception.__init__(self, desc)
    self.key, self.desc = key, desc


def consts_of(terms):
  out, seen = {}, set()

  def walk(t):
    i = t.get_id()
    if i in seen:
      return
    seen.add(i)
    if z3.is_const(t) and t.decl().kind() == z3.Z3_OP_UNINTERPRETED:
      out[str(t)] = t
    for c in t.children():
      walk(c)
  for t in terms:
    walk(t)
  return out


class ModelFunction(object):
  """Concrete python function read off a z3 model's interpretation of a unary
  uninterpreted function: the model's argument/value table with a tolerance on
  the argument (the real code reaches the argument through float rounding),
  the model's else-value elsewhere."""

  def __init__(self, name, table, default):
    self.name = name
    self.keys = sorted(table)
    self.table = table
    self.default = default

  def __call__(self, x):
    x = float(x)
    i = bisect.bisect_left(self.keys, x)
    best = None
    for j in (i - 1, i):
      if 0 <= j < len(self.keys):
        k = self.keys[j]
        if abs(k - x) <= 1e-9 * max(1.0, abs(k)) and (best is None or abs(k - x) < abs(best - x)):
          best = k
    if best is None:
      return self.default
    return self.table[best]


def _fr(v):
  if z3.is_rational_value(v):
    return fractions.Fraction(v.numerator_as_long(), v.denominator_as_long())
  if z3.is_algebraic_value(v):
    a = v.approx(20)
    return fractions.Fraction(a.numerator_as_long(), a.denominator_as_long())
  return None


def model_functions(m):
  """{name: ModelFunction} for every unary Real->Real function in the model."""
  out = {}
  for d in m.decls():
    if d.arity() != 1:
      continue
    fi = m[d]
    if not isinstance(fi, z3.FuncInterp):
      continue
    table = {}
    ok = True
    for i in range(fi.num_entries()):
      e = fi.entry(i)
      a, v = _fr(e.arg_value(0)), _fr(e.value())
      if a is None or v is None:
        ok = False
        break
      table[float(a)] = float(v)
    dv = _fr(fi.else_value()) if fi.else_value() is not None else None
    if ok:
      out[d.name()] = ModelFunction(d.name(), table, float(dv) if dv is not None else 0.0)
  return out


def witness_from_model(m, terms):
  w = {}
  for name, c in consts_of(terms).items():
    v = vcmod.model_value(m, c)
    if v is not None:
      w[name] = float(v) if isinstance(v, fractions.Fraction) else v
      w[name + "#exact"] = str(v)
  try:
    w["#functions"] = model_functions(m)
  except Exception:
    w["#functions"] = {}
  return w


def _jsonable(w):
  out = {}
  for k, v in w.items():
    if k == "#functions":
      out[k] = {n: dict(table={repr(a): b for a, b in list(f.table.items())[:40]}, default=f.default) for n, f in v.items()}
    else:
      out[k] = v
  return out


def explore_and_check(res, fn, build_vcs, replay=None, negative=None, explorer_kw=None,
                      use_exp_axioms=False, vc_timeout_ms=20000, catch=(Exception,),
                      max_samples=2, key_prefix="", batch=True, max_seconds=240, stop_after_violations=3, witness_run=True,
                      pc_for_vcs=None):
  """fn(): the symbolic run (returns anything).  build_vcs(path) -> list[VC]
  (may raise Structural).  replay(vc, witness, path, structural) ->
  (confirmed, desc, record).  negative(path) -> list[VC] that must NOT all hold
  (vacuity guard).  Paths are checked as they are produced; exploration stops
  early once `stop_after_violations` distinct confirmed violations are known."""
  kw = dict(explorer_kw or {})
  kw.setdefault("max_seconds", max_seconds)
  ex = core.Explorer(**kw)
  D = vcmod.Discharger(timeout_ms=vc_timeout_ms, deadline=(ex.deadline + 30) if ex.deadline else None)
  neg_seen = False
  neg_ok = False
  neg_tries = 0
  seen_keys = {}
  npaths = 0
  first_violation_at = None
  for p in ex.iter_paths(fn, catch=catch):
    npaths += 1
    if res["violations"] and first_violation_at is None:
      first_violation_at = npaths
    if first_violation_at is not None and npaths > first_violation_at + 5:
      res["notes"].append("exploration stopped early: confirmed violation found on path %d" % (first_violation_at - 1))
      break
    for nn in p.notes:
      if nn not in res["notes"] and len(res["notes"]) < 20:
        res["notes"].append(nn)
    if p.aborted:
      res["outside"].append("path ended: %s" % p.aborted)
      res["aborted_paths"] = res.get("aborted_paths", 0) + 1
      continue
    try:
      vcs = build_vcs(p)
    except Structural as s:
      vkey = key_prefix + s.key
      if vkey in seen_keys:
        continue
      confirmed, desc, rec = (True, s.desc, {})
      if replay is not None:
        try:
          confirmed, desc, rec = replay(None, _struct_witness(p, D), p, s)
          res["replays"] += 1
        except Exception as e:
          confirmed, desc, rec = (False, "replay raised %s: %s" % (type(e).__name__, e), {})
      entry = dict(key=vkey, desc="%s | %s" % (s.desc, desc), record=rec)
      if confirmed:
        res["violations"].append(entry)
        seen_keys[vkey] = entry
      else:
        res["spurious"].append(entry)
        res["inconclusive"].append("structural mismatch not reproduced: %s (%s)" % (s.desc, desc))
      if len(res["violations"]) >= stop_after_violations:
        break
      continue
    if vcs is None:
      continue
    # pc_for_vcs: hypotheses actually handed to the solver with the VCs (a
    # subset of the path condition: dropping hypotheses is sound)
    vpc = p.pc if pc_for_vcs is None else pc_for_vcs(p)
    r = D.pc_satisfiable(vpc)
    if r != z3.sat:
      res["inconclusive"].append("path condition not shown satisfiable (%s)" % r)
      continue
    out = D.prove_all(vpc, vcs, use_exp_axioms=use_exp_axioms, batch=batch)
    for (v, status, m) in out:
      res["vcs"] += 1
      res[status] += 1
      if len(res["samples"]) < max_samples and status == "unsat":
        res["samples"].append(dict(vc=v.name, status=status, formula=vcmod.short(v.formula, 400),
                                   path_condition=[vcmod.short(c, 120) for c in p.pc[:6]]))
      if status == "unknown":
        res["inconclusive"].append("VC %s: solver returned unknown" % v.name)
      elif status == "sat":
        vkey = key_prefix + (v.info or {}).get("key", v.name)
        if vkey in seen_keys:
          seen_keys[vkey]["count"] = seen_keys[vkey].get("count", 1) + 1
          continue
        w = witness_from_model(m, [v.formula] + list(vpc))
        confirmed, desc, rec = (False, "no replay available", {})
        if replay is not None:
          try:
            confirmed, desc, rec = replay(v, w, p, None)
            res["replays"] += 1
          except Exception as e:  # replay itself failed
            confirmed, desc, rec = (False, "replay raised %s: %s" % (type(e).__name__, e), {})
        entry = dict(key=vkey, vc=v.name, desc=desc, witness=_jsonable(w),
                     record=rec, formula=vcmod.short(v.formula, 600))
        if confirmed:
          res["violations"].append(entry)
          seen_keys[vkey] = entry
        else:
          res["spurious"].append(entry)
          res["inconclusive"].append("VC %s: counterexample did not reproduce on the real code (%s)" % (v.name, desc))
    if negative is not None and not neg_ok and neg_tries < 40:
      # the negative twin (deliberately wrong oracle) must be refuted on at
      # least one path of the case; tried path by path until it is
      nv = negative(p)
      if nv:
        neg_tries += 1
        if not neg_seen:
          res["negatives"] += 1
          neg_seen = True
        s_ = D._solver(vpc)
        rneg = D._check(s_, z3.Not(z3.And([v_.formula for v_ in nv])))
        if rneg == z3.sat:
          res["negatives_ok"] += 1
          neg_ok = True
    if len(res["violations"]) >= stop_after_violations:
      res["notes"].append("exploration stopped early after %d confirmed violations" % len(res["violations"]))
      break
  if replay is not None and witness_run and not res["violations"]:
    # witness run: the same concrete differential check the replays use, at a
    # default input, against the real code (validates readers and oracle; a
    # disagreement here is a concrete violation in its own right)
    try:
      confirmed, desc, rec = replay(None, {}, None, None)
      res["replays"] += 1
      if confirmed:
        res["violations"].append(dict(key=key_prefix + "concrete-witness-run", desc=desc, record=rec))
    except Exception as e:
      res["notes"].append("witness run not available: %s: %s" % (type(e).__name__, e))
  res["paths"] += ex.stats["paths"]
  res["decisions"] += ex.stats["decisions"]
  res["queries"] += ex.stats["feasibility_queries"] + D.stats["queries"] + D.stats["pc_checks"]
  res["solver_s"] += ex.stats["solver_s"] + D.stats["solver_s"]
  if ex.stats["truncated"] and not res["violations"]:
    res["inconclusive"].append("exploration budget exhausted after %d paths" % ex.stats["paths"])
  if ex.stats["unknown_feasibility"]:
    res["notes"].append("%d feasibility queries returned unknown (both branches explored)" % ex.stats["unknown_feasibility"])
  if npaths and res.get("aborted_paths", 0) == npaths:
    res["inconclusive"].append("every path left the stated bound; nothing was checked")
  return ex


def _struct_witness(p, D):
  """A model of the path condition, for replaying structural mismatches."""
  s = z3.Solver()
  s.set("timeout", 5000)
  for c in p.pc:
    s.add(c)
  if s.check() == z3.sat:
    return witness_from_model(s.model(), list(p.pc))
  return {}


def T(path, x):
  """z3 term of a number read back from output: a tag maps to its term, any
  other number is taken as the exact printed constant."""
  t = path.term_of_number(x)
  if t is not None:
    return t
  if isinstance(x, core.SReal):
    raise core.HarnessError("a proxy of another path leaked into the output")
  return core.rv(x)


class Sink(object):
  """File-like object recording every write (used where 'all or nothing' and
  the number of write calls matter)."""

  def __init__(self):
    self.writes = []

  def write(self, s):
    self.writes.append(s)
    return len(s)

  def getvalue(self):
    return "".join(self.writes)
