"""Stand-in for the `cexprtk` module (C++ exprtk behind a Cython binding) so that
custom [Potential-Form] formulas can be evaluated on SYMX proxies.

Implements the documented expression subset the property quantifies over:
numbers, variables, + - * / % ^ (power, right associative, binding tighter
than unary minus as in exprtk), comparisons (< <= > >= == = != <>), and/or/not,
parentheses, function calls (user functions registered in the symbol table,
incl. dotted names such as as.buck / pymath.exp), if(c, a, b) with lazy
branches, and the built-ins exp log sqrt abs min max pow.  Everything else
raises ParseException (=> the check reports 'outside the stub', never a pass).

The binding surface mirrors what the repo uses: Symbol_Table(variables,
add_constants).variables / .functions, Expression(text, symbol_table)(),
ParseException, _exceptions.NameShadowException.

`validate()` compares this evaluator with the real cexprtk on concrete inputs;
the checks call it on every run.
"""
import math as _m
import re
import types

from . import core, mathshim


class ParseException(Exception):
  pass


class NameShadowException(Exception):
  pass


class VariableNameShadowException(NameShadowException):
  pass


_exceptions = types.SimpleNamespace(NameShadowException=NameShadowException, VariableNameShadowException=VariableNameShadowException,
                                    ParseException=ParseException)

_TOKEN = re.compile(r"\s*(?:(?P<num>(?:\d+\.?\d*|\.\d+)(?:[eE][-+]?\d+)?)|(?P<name>[A-Za-z_][A-Za-z0-9_]*(?:\.[A-Za-z_][A-Za-z0-9_]*)*)|"
                    r"(?P<op><=|>=|==|!=|<>|[-+*/%^(),<>=]))")

_BUILTIN_CONST = {"pi": _m.pi, "epsilon": 1e-10, "inf": _m.inf}


def _tokenise(text):
  pos, out = 0, []
  text = text.strip()
  while pos < len(text):
    m = _TOKEN.match(text, pos)
    if not m or m.end() == pos:
      raise ParseException("ERR000 - cannot tokenise %r at %d" % (text, pos))
    if m.group("num") is not None:
      out.append(("num", m.group("num")))
    elif m.group("name") is not None:
      out.append(("name", m.group("name")))
    else:
      out.append(("op", m.group("op")))
    pos = m.end()
  out.append(("end", None))
  return out


class _Parser(object):
  def __init__(self, text):
    self.toks = _tokenise(text)
    self.i = 0

  def peek(self):
    return self.toks[self.i]

  def take(self, kind=None, val=None):
    t = self.toks[self.i]
    if (kind and t[0] != kind) or (val is not None and t[1] != val):
      raise ParseException("ERR001 - unexpected token %r" % (t[1],))
    self.i += 1
    return t

  def parse(self):
    e = self.p_or()
    if self.peek()[0] != "end":
      raise ParseException("ERR002 - unexpected token %r" % (self.peek()[1],))
    return e

  def p_or(self):
    e = self.p_and()
    while self.peek() == ("name", "or"):
      self.take()
      e = ("or", e, self.p_and())
    return e

  def p_and(self):
    e = self.p_cmp()
    while self.peek() == ("name", "and"):
      self.take()
      e = ("and", e, self.p_cmp())
    return e

  def p_cmp(self):
    e = self.p_add()
    while self.peek()[0] == "op" and self.peek()[1] in ("<", "<=", ">", ">=", "==", "=", "!=", "<>"):
      op = self.take()[1]
      e = ("cmp", op, e, self.p_add())
    return e

  def p_add(self):
    e = self.p_mul()
    while self.peek()[0] == "op" and self.peek()[1] in ("+", "-"):
      op = self.take()[1]
      e = ("bin", op, e, self.p_mul())
    return e

  def p_mul(self):
    e = self.p_unary()
    while self.peek()[0] == "op" and self.peek()[1] in ("*", "/", "%"):
      op = self.take()[1]
      e = ("bin", op, e, self.p_unary())
    return e

  def p_unary(self):
    t = self.peek()
    if t == ("op", "-"):
      self.take()
      return ("neg", self.p_unary())
    if t == ("op", "+"):
      self.take()
      return self.p_unary()
    if t == ("name", "not"):
      self.take()
      return ("not", self.p_unary())
    return self.p_pow()

  def p_pow(self):
    b = self.p_atom()
    if self.peek() == ("op", "^"):
      self.take()
      return ("bin", "^", b, self.p_unary_pow())
    return b

  def p_unary_pow(self):
    # exponent: allows a sign, right associative
    t = self.peek()
    if t == ("op", "-"):
      self.take()
      return ("neg", self.p_unary_pow())
    return self.p_pow()

  def p_atom(self):
    t = self.peek()
    if t[0] == "num":
      self.take()
      return ("num", float(t[1]))
    if t == ("op", "("):
      self.take()
      e = self.p_or()
      self.take("op", ")")
      return e
    if t[0] == "name":
      self.take()
      if self.peek() == ("op", "("):
        self.take()
        args = []
        if self.peek() != ("op", ")"):
          args.append(self.p_or())
          while self.peek() == ("op", ","):
            self.take()
            args.append(self.p_or())
        self.take("op", ")")
        return ("call", t[1], args)
      return ("var", t[1])
    raise ParseException("ERR003 - unexpected token %r" % (t[1],))


def _truth(x):
  if isinstance(x, core.SBool):
    return bool(x)
  if isinstance(x, (core.SReal, core.SInt)):
    return bool(x)
  return x != 0


def _b2f(x):
  """exprtk comparisons yield 1.0 / 0.0"""
  if isinstance(x, core.SBool):
    return 1.0 if bool(x) else 0.0
  return 1.0 if x else 0.0


_BUILTIN_FUNCS = {
  "exp": lambda a: mathshim.exp(a), "log": lambda a: mathshim.log(a), "sqrt": lambda a: mathshim.sqrt(a),
  "abs": lambda a: abs(a), "pow": lambda a, b: mathshim.pow(a, b),
  "min": lambda *a: _minmax(a, False), "max": lambda *a: _minmax(a, True),
}
_CONCRETE_ONLY = {"sin": _m.sin, "cos": _m.cos, "tan": _m.tan, "floor": _m.floor, "ceil": _m.ceil, "tanh": _m.tanh, "sinh": _m.sinh,
                  "cosh": _m.cosh, "log10": _m.log10, "log2": _m.log2, "erf": _m.erf, "erfc": _m.erfc, "round": round, "trunc": _m.trunc}


def _minmax(args, want_max):
  out = args[0]
  for a in args[1:]:
    if (a > out) if want_max else (a < out):
      out = a
  return out


class _Vars(dict):
  def __init__(self, table, d):
    dict.__init__(self, d)
    self._table = table

  def __setitem__(self, k, v):
    if k in self._table.functions or k in _BUILTIN_FUNCS or k in _CONCRETE_ONLY:
      raise VariableNameShadowException("variable '%s' shadows a function" % k)
    dict.__setitem__(self, k, v)


class _Funcs(dict):
  def __init__(self, table):
    dict.__init__(self)
    self._table = table

  def __setitem__(self, k, v):
    if k in self._table.variables or k in self._table.constants or k in self or k in _BUILTIN_FUNCS or k in _CONCRETE_ONLY or k in ("if", "and", "or", "not"):
      raise NameShadowException("Function name '%s' shadows a reserved name or an existing symbol" % k)
    dict.__setitem__(self, k, v)


class Symbol_Table(object):
  def __init__(self, variables, constants=None, add_constants=False, functions=None, string_variables=None):
    self.constants = dict(constants or {})
    if add_constants:
      self.constants.update(_BUILTIN_CONST)
    self.functions = _Funcs(self)
    self.variables = _Vars(self, {})
    for k, v in dict(variables).items():
      self.variables[k] = v
    for k, v in dict(functions or {}).items():
      self.functions[k] = v


class Expression(object):
  def __init__(self, expression, symbol_table, unknown_symbol_resolver_callback=None):
    self.text = expression
    self.symbol_table = symbol_table
    self.ast = _Parser(expression).parse()
    self._resolve(self.ast)

  def _resolve(self, n):
    """exprtk resolves every symbol when the expression is compiled"""
    k = n[0]
    st = self.symbol_table
    if k == "var":
      if n[1] not in st.variables and n[1] not in st.constants:
        raise ParseException("ERR239 - Undefined symbol: '%s'" % n[1])
    elif k == "call":
      if n[1] != "if" and n[1] not in st.functions and n[1] not in _BUILTIN_FUNCS and n[1] not in _CONCRETE_ONLY:
        raise ParseException("ERR239 - Undefined symbol: '%s'" % n[1])
      for a in n[2]:
        self._resolve(a)
    elif k in ("bin", "cmp"):
      self._resolve(n[2])
      self._resolve(n[3])
    elif k in ("and", "or"):
      self._resolve(n[1])
      self._resolve(n[2])
    elif k in ("neg", "not"):
      self._resolve(n[1])

  def __call__(self):
    return self._ev(self.ast)

  value = __call__

  def _ev(self, n):
    k = n[0]
    st = self.symbol_table
    if k == "num":
      return n[1]
    if k == "var":
      if n[1] in st.variables:
        return st.variables[n[1]]
      return st.constants[n[1]]
    if k == "neg":
      return -self._ev(n[1])
    if k == "not":
      return _b2f(not _truth(self._ev(n[1])))
    if k == "bin":
      a, b = self._ev(n[2]), self._ev(n[3])
      op = n[1]
      if op == "+":
        return a + b
      if op == "-":
        return a - b
      if op == "*":
        return a * b
      if op == "/":
        if not isinstance(b, (core.SReal, core.SInt)) and b == 0:
          return _m.inf if (not isinstance(a, core.SReal) and a > 0) else (-_m.inf if (not isinstance(a, core.SReal) and a < 0) else _m.nan)
        return a / b
      if op == "%":
        if isinstance(a, core.SReal) or isinstance(b, core.SReal):
          raise ParseException("'%' on symbolic operands is outside the stub")
        return _m.fmod(a, b)
      if op == "^":
        return mathshim.pow(a, b)
    if k == "cmp":
      a, b = self._ev(n[2]), self._ev(n[3])
      op = n[1]
      r = {"<": lambda: a < b, "<=": lambda: a <= b, ">": lambda: a > b, ">=": lambda: a >= b,
           "==": lambda: a == b, "=": lambda: a == b, "!=": lambda: a != b, "<>": lambda: a != b}[op]()
      return _b2f(r)
    if k == "and":
      return _b2f(_truth(self._ev(n[1])) and _truth(self._ev(n[2])))
    if k == "or":
      return _b2f(_truth(self._ev(n[1])) or _truth(self._ev(n[2])))
    if k == "call":
      name, args = n[1], n[2]
      if name == "if":
        if len(args) != 3:
          raise ParseException("if() takes three arguments")
        return self._ev(args[1]) if _truth(self._ev(args[0])) else self._ev(args[2])
      vals = [self._ev(a) for a in args]
      if name in st.functions:
        return st.functions[name](*vals)
      if name in _BUILTIN_FUNCS:
        return _BUILTIN_FUNCS[name](*vals)
      f = _CONCRETE_ONLY[name]
      if any(isinstance(v, (core.SReal, core.SInt)) for v in vals):
        raise ParseException("%s() on symbolic operands is outside the stub" % name)
      return f(*vals)
    raise ParseException("bad node %r" % (n,))


def evaluate(text, env, functions=None):
  """Independent evaluation of a formula with an explicit environment (used as
  the specification side: no symbol tables, no rebinding)."""
  st = Symbol_Table({}, add_constants=True)
  for k, v in (functions or {}).items():
    dict.__setitem__(st.functions, k, v)
  for k, v in env.items():
    dict.__setitem__(st.variables, k, v)
  return Expression(text, st)()


VALIDATION_FORMULAS = [
  ("A*exp(-r/rho) - C/r^6", dict(A=1000.0, rho=0.3, C=12.5)),
  ("-r^2 + 2^-r + (r+A)^(1/2)", dict(A=2.0)),
  ("if(r < A, r*2, if(r >= 2*A, -1, 0.5)) + (r > 1) + (r <= 1)*3", dict(A=1.5)),
  ("2^3^2 - -r + +A - (A - r - 1) / 2 / 4 * 3", dict(A=0.25)),
  ("min(r, A, 2) + max(r, A) + abs(A - r) + sqrt(r) + log(r + 1) + pow(r, A)", dict(A=1.75)),
  ("(r < A and r > 0.1) + (r < 0.1 or A > 1) + not(r > A) + (r == r) + (r != A)", dict(A=0.9)),
  ("1e-3*r + .5*A + 2.*r - 3E2/A", dict(A=7.0)),
  ("-A^2 + (-A)^2 - 2*-r", dict(A=1.3)),
]


def validate(points=(0.35, 1.0, 1.5, 2.75, 4.0)):
  """Compare the stub with the real cexprtk on concrete inputs.  Returns a list
  of mismatch descriptions (empty = agreed)."""
  import cexprtk as real
  bad = []
  for text, params in VALIDATION_FORMULAS:
    for r in points:
      env = dict(params, r=r)
      try:
        want = real.Expression(text, real.Symbol_Table(dict(env), add_constants=True))()
      except Exception as e:  # noqa
        bad.append("real cexprtk rejects validation formula %r: %s" % (text, e))
        break
      try:
        got = evaluate(text, env)
      except Exception as e:  # noqa
        bad.append("stub fails on %r: %s: %s" % (text, type(e).__name__, e))
        break
      if not (abs(got - want) <= 1e-12 * max(1.0, abs(want))):
        bad.append("%r at %r: stub %r, cexprtk %r" % (text, env, got, want))
  return bad
