"""Verification conditions: normalisation to numerator/denominator form,
exp-atom relations, discharge with z3, model extraction."""
import time
import fractions

import z3

from . import core, mathshim

K = z3
# keep the pretty printer cheap: VC formulas can be very large
z3.set_option(max_args=6, max_lines=6, max_depth=5, max_visited=300)
OPS_ADD, OPS_SUB, OPS_MUL, OPS_DIV, OPS_UMINUS = (z3.Z3_OP_ADD, z3.Z3_OP_SUB, z3.Z3_OP_MUL,
                                                 z3.Z3_OP_DIV, z3.Z3_OP_UMINUS)


def numden(t, cache=None):
  """Return (n, d) with t == n/d, d None meaning 1.  Uninterpreted applications,
  ite and numerals are leaves (their arguments keep their divisions)."""
  if cache is None:
    cache = {}
  key = t.get_id()
  if key in cache:
    return cache[key][:2]
  res = None
  if z3.is_app(t) and t.sort() == core.R:
    k = t.decl().kind()
    ch = t.children()
    if k == OPS_ADD or k == OPS_SUB:
      nds = [numden(c, cache) for c in ch]
      n, d = nds[0]
      for (n2, d2) in nds[1:]:
        if d is None and d2 is None:
          n = n + n2 if k == OPS_ADD else n - n2
        elif d is not None and d2 is not None and d.eq(d2):
          n = n + n2 if k == OPS_ADD else n - n2
        else:
          a = n if d2 is None else n * d2
          b = n2 if d is None else n2 * d
          n = a + b if k == OPS_ADD else a - b
          d = d2 if d is None else (d if d2 is None else d * d2)
      res = (n, d)
    elif k == OPS_MUL:
      n, d = None, None
      for c in ch:
        n2, d2 = numden(c, cache)
        n = n2 if n is None else n * n2
        if d2 is not None:
          d = d2 if d is None else d * d2
      res = (n, d)
    elif k == OPS_UMINUS:
      n, d = numden(ch[0], cache)
      res = (-n, d)
    elif k == OPS_DIV:
      n1, d1 = numden(ch[0], cache)
      n2, d2 = numden(ch[1], cache)
      n = n1 if d2 is None else n1 * d2
      d = n2 if d1 is None else d1 * n2
      if z3.is_rational_value(d):
        # constant denominator: keep as a coefficient (stays linear)
        res = (n / d, None)
      else:
        res = (n, d)
  if res is None:
    res = (t, None)
  # keep t alive with its entry: z3 reuses the ids of freed terms
  cache[key] = (res[0], res[1], t)
  return res


def eq_formula(got, want):
  """Cross-multiplied equality of two real terms (denominators are != 0 on the
  path by the definedness assumptions)."""
  cache = {}
  n1, d1 = numden(got, cache)
  n2, d2 = numden(want, cache)
  a = n1 if d2 is None else n1 * d2
  b = n2 if d1 is None else n2 * d1
  return a == b


def collect_apps(t, decl, out, seen):
  i = t.get_id()
  if i in seen:
    return
  seen.add(i)
  if z3.is_app(t):
    if t.decl().eq(decl):
      out.append(t)
    for c in t.children():
      collect_apps(c, decl, out, seen)


def exp_axioms(terms, pc, timeout_ms=2000, stats=None):
  """Relations between EXP atoms occurring in `terms`: for atoms with arguments
  u, v, w the solver is asked (cheap, on the arguments only) whether
  u == k*v, u + v == 0, u + v == w hold under pc; each validated relation
  yields the corresponding multiplicative axiom."""
  apps, seen = [], set()
  for t in terms:
    collect_apps(t, mathshim.EXP, apps, seen)
  uniq = []
  for a in apps:
    if not any(a.eq(b) for b in uniq):
      uniq.append(a)
  if len(uniq) < 2:
    return []
  s = z3.Solver()
  s.set("timeout", timeout_ms)
  for c in pc:
    s.add(c)

  def valid(f):
    t0 = time.time()
    r = s.check(z3.Not(f))
    if stats is not None:
      stats["exp_relation_queries"] = stats.get("exp_relation_queries", 0) + 1
      stats["solver_s"] = stats.get("solver_s", 0.0) + time.time() - t0
    return r == z3.unsat

  ax = []
  n = len(uniq)
  args = [a.arg(0) for a in uniq]
  for i in range(n):
    for j in range(n):
      if i == j:
        continue
      if i < j and valid(args[i] == args[j]):
        ax.append(uniq[i] == uniq[j])
        continue
      if i < j and valid(args[i] + args[j] == 0):
        ax.append(uniq[i] * uniq[j] == 1)
      for k in (2, 3):
        if valid(args[i] == k * args[j]):
          ax.append(uniq[i] == core._powint(uniq[j], k))
        if valid(args[i] + k * args[j] == 0):
          ax.append(uniq[i] * core._powint(uniq[j], k) == 1)
  for i in range(n):
    for j in range(i + 1, n):
      for k in range(n):
        if k in (i, j):
          continue
        if valid(args[i] + args[j] == args[k]):
          ax.append(uniq[i] * uniq[j] == uniq[k])
  return ax


class VC(object):
  __slots__ = ("name", "formula", "kind", "info")

  def __init__(self, name, formula, kind="eq", info=None):
    self.name, self.formula, self.kind, self.info = name, formula, kind, info


class Discharger(object):
  """Discharges VCs for one path.  `pc` is the path condition (incl. axioms and
  definedness assumptions)."""

  def __init__(self, timeout_ms=20000, deadline=None):
    self.timeout_ms = timeout_ms
    self.deadline = deadline
    self.stats = dict(queries=0, unsat=0, sat=0, unknown=0, solver_s=0.0, pc_checks=0)
    self.samples = []

  def _solver(self, pc, extra_axioms=()):
    s = z3.Solver()
    s.set("timeout", self.timeout_ms)
    for c in pc:
      s.add(c)
    for c in extra_axioms:
      s.add(c)
    return s

  def _check(self, s, *assumptions):
    t0 = time.time()
    r = core.timed_check(s, self.timeout_ms, *assumptions)
    self.stats["queries"] += 1
    self.stats["solver_s"] += time.time() - t0
    self.stats[str(r)] += 1
    return r

  def pc_satisfiable(self, pc):
    s = self._solver(pc)
    self.stats["pc_checks"] += 1
    t0 = time.time()
    r = core.timed_check(s, self.timeout_ms)
    self.stats["solver_s"] += time.time() - t0
    return r

  def prove_all(self, pc, vcs, use_exp_axioms=False, batch=True):
    """Returns list of (vc, status, model) with status in unsat/sat/unknown.
    unsat = the VC holds on this path."""
    if not vcs:
      return []
    ax = []
    if use_exp_axioms:
      ax = exp_axioms([v.formula for v in vcs] + list(pc), pc, stats=self.stats)
    s = self._solver(pc, ax)
    out = []
    if batch and len(vcs) > 1:
      r = self._check(s, z3.Not(z3.And([v.formula for v in vcs])))
      if r == z3.unsat:
        return [(v, "unsat", None) for v in vcs]
    for v in vcs:
      if self.deadline and time.time() > self.deadline:
        out.append((v, "unknown", None))
        self.stats["unknown"] += 1
        continue
      s.push()
      s.add(z3.Not(v.formula))
      full = self.timeout_ms
      self.timeout_ms = min(full, 6000)     # short first attempt; the fresh solver below gets the full budget
      try:
        r = self._check(s)
      finally:
        self.timeout_ms = full
      m = s.model() if r == z3.sat else None
      s.pop()
      if r == z3.unknown:
        # z3's nonlinear engine is sensitive to term numbering and its random seed: an obligation that is decided in
        # under a second on one attempt can stay undecided for a minute on the next.  A few short, differently
        # seeded attempts (alternately fresh and push/pop solvers) come first ...
        self.timeout_ms = min(full, 10000)
        try:
          for seed in range(1, 13 if full >= 60000 else 7):
            if self.deadline and time.time() > self.deadline:
              break
            s3 = self._solver(pc, ax)
            s3.set("random_seed", seed)
            if seed % 2 == 0:
              s3.push()
            s3.add(z3.Not(v.formula))
            r = self._check(s3)
            if r != z3.unknown:
              m = s3.model() if r == z3.sat else None
              break
        finally:
          self.timeout_ms = full
      if r == z3.unknown and full > 10000:
        # ... then a fresh, non-incremental solver with the whole budget (the push/pop solver uses a weaker nonlinear engine)
        s2 = self._solver(pc, ax)
        s2.add(z3.Not(v.formula))
        r = self._check(s2)
        m = s2.model() if r == z3.sat else None
        if r == z3.unknown:
          # ... and the incremental one again: some VCs are decided by it only when it is given the whole budget
          s.push()
          s.add(z3.Not(v.formula))
          r = self._check(s)
          m = s.model() if r == z3.sat else None
          s.pop()
      out.append((v, str(r), m))
    return out


def model_value(m, t):
  v = m.eval(t, model_completion=True)
  if z3.is_rational_value(v):
    return fractions.Fraction(v.numerator_as_long(), v.denominator_as_long())
  if z3.is_int_value(v):
    return v.as_long()
  if z3.is_algebraic_value(v):
    a = v.approx(20)
    return fractions.Fraction(a.numerator_as_long(), a.denominator_as_long())
  return None


def short(t, n=300):
  s = str(t).replace("\n", " ")
  s = " ".join(s.split())
  return s if len(s) <= n else s[:n] + "..."
