"""Stand-in for `numpy` inside a symbolic run of the spline code.

`numpy.linalg.solve(A, B)` is replaced by its contract: fresh unknowns c with
A.c == B (assuming the system is nonsingular).  Two calls whose (A, B) are
entry-wise equal under the path condition return the *same* unknowns (solve is
a function), which is what lets two constructions of one spline be compared.
array/reshape keep python lists of proxies (the real numpy would turn a proxy
into its float tag)."""
import sys

import z3

from . import core, vc


class Arr(object):
  def __init__(self, data):
    self.data = list(data)

  def __iter__(self):
    return iter(self.data)

  def __len__(self):
    return len(self.data)

  def __getitem__(self, i):
    return self.data[i]

  def flatten(self):
    out = []
    for x in self.data:
      if isinstance(x, (list, tuple, Arr)):
        out.extend(list(x))
      else:
        out.append(x)
    return Arr(out)

  def tolist(self):
    return [list(x) if isinstance(x, (list, tuple, Arr)) else x for x in self.data]


def array(x):
  return Arr([Arr(r) if isinstance(r, (list, tuple)) else r for r in x])


def reshape(x, shape):
  flat = list(Arr(x).flatten()) if not isinstance(x, Arr) else list(x.flatten())
  n, m = shape
  if len(flat) != n * m:
    raise ValueError("cannot reshape array of size %d into shape %r" % (len(flat), shape))
  return Arr([Arr(flat[i * m:(i + 1) * m]) for i in range(n)])


class _Linalg(object):
  @staticmethod
  def solve(A, B):
    run = core.cur()
    rows = [list(r) for r in A]
    n = len(rows)
    column = len(B) == n and isinstance(B[0], (list, tuple, Arr))
    b = [list(x)[0] if column else x for x in B]
    if any(len(r) != n for r in rows) or len(b) != n:
      raise ValueError("solve: shapes do not match")
    At = [[core.term(v) for v in r] for r in rows]
    Bt = [core.term(v) for v in b]
    systems = run.__dict__.setdefault("solve_systems", [])
    cs = None
    for (A0, B0, c0) in systems:
      if len(B0) != n:
        continue
      eqs = [vc.eq_formula(At[i][j], A0[i][j]) for i in range(n) for j in range(n)
             if not At[i][j].eq(A0[i][j])]
      eqs += [vc.eq_formula(Bt[i], B0[i]) for i in range(n) if not Bt[i].eq(B0[i])]
      if not eqs or run._check(z3.Not(z3.And(eqs))) == z3.unsat:
        cs = c0
        break
    if cs is None:
      k = len(systems)
      cs = [z3.Real("c%d_%d" % (k, i)) for i in range(n)]
      for i in range(n):
        lhs = None
        for j in range(n):
          a = z3.simplify(At[i][j])
          if z3.is_rational_value(a) and a.numerator_as_long() == 0:
            continue
          tj = a * cs[j]
          lhs = tj if lhs is None else lhs + tj
        if lhs is None:
          lhs = z3.RealVal(0)
        run.assume(vc.eq_formula(lhs, Bt[i]), in_solver=False)
      systems.append((At, Bt, cs))
    out = [core.SReal(c) for c in cs]
    if column:
      return Arr([Arr([c]) for c in out])
    return Arr(out)


class LazyInverse(object):
  """inv(A), kept symbolic: only dot(inv(A), B) is supported and means the
  solution of A.c == B (nonsingular A assumed)."""

  def __init__(self, A):
    self.A = A


def _inv(A):
  return LazyInverse(A)


_Linalg.inv = staticmethod(_inv)


def dot(X, B):
  if isinstance(X, LazyInverse):
    return _Linalg.solve(X.A, B)
  raise core.HarnessError("numpy.dot is only modelled for dot(inv(A), B)")


  @staticmethod
  def lstsq(A, B, rcond=None):
    """for the square, nonsingular systems of the spline code the least-squares solution IS the solution: same contract as
    solve (numerical rank decisions are outside this model; the concrete layers look at them)"""
    x = _Linalg.solve(A, B)
    return x, Arr([]), len(list(A)), Arr([])


linalg = _Linalg()


class installed(object):
  """with npstub.installed(): sys.modules['numpy'] is this module (function-
  local `import numpy as np` in the code under test picks it up)."""

  def __enter__(self):
    self.saved = sys.modules.get("numpy")
    sys.modules["numpy"] = sys.modules[__name__]
    return self

  def __exit__(self, *a):
    if self.saved is not None:
      sys.modules["numpy"] = self.saved
    else:
      sys.modules.pop("numpy", None)
    return False
