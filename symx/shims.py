"""Installing the proxies' environment into the repo's already-imported modules
(module globals only; no source change, undone by `uninstall`)."""
import builtins
import sys

from . import core, jets, mathshim

_real_math = sys.modules["math"]
_saved = []


def sfloat(x=0.0):
  if isinstance(x, (core.SReal, jets.Jet)):
    return x
  if isinstance(x, core.SInt):
    return core.SReal(core.term(x))
  return builtins.float(x)


def repo_modules(prefix="atsim.potentials"):
  return [m for n, m in sorted(sys.modules.items())
          if m is not None and (n == prefix or n.startswith(prefix + "."))]


def install(extra_globals=None, only=None):
  """Rebind `math` -> mathshim and `float` -> proxy-preserving float in every
  loaded atsim.potentials module.  extra_globals: {module_name: {name: obj}}."""
  for m in repo_modules():
    if only is not None and m.__name__ not in only:
      continue
    d = m.__dict__
    if d.get("math") is _real_math:
      _saved.append((d, "math", _real_math))
      d["math"] = mathshim
    had = "float" in d
    _saved.append((d, "float", d.get("float") if had else _MISSING))
    d["float"] = sfloat
  _install_numpy_contracts()
  for mn, names in (extra_globals or {}).items():
    d = sys.modules[mn].__dict__
    for k, v in names.items():
      _saved.append((d, k, d.get(k, _MISSING)))
      d[k] = v


_MISSING = object()


def _install_numpy_contracts():
  """numpy.isclose on a proxy is replaced by its documented contract |a - b| <= atol + rtol * |b| (the real routine would
  see the proxy's tag).  Plain numbers go to the real numpy."""
  np = sys.modules.get("numpy")
  if np is None or getattr(np.isclose, "_symx", False):
    return
  real = np.isclose

  def isclose(a, b, rtol=1e-05, atol=1e-08, equal_nan=False):
    if isinstance(a, (core.SReal, core.SInt)) or isinstance(b, (core.SReal, core.SInt)):
      d = a - b
      bb = b if isinstance(b, (core.SReal, core.SInt)) else core.lift(b)
      absd = core.SReal(core.z3.If(core.term(d) >= 0, core.term(d), -core.term(d)))
      absb = core.SReal(core.z3.If(core.term(bb) >= 0, core.term(bb), -core.term(bb)))
      return absd <= absb * rtol + atol
    return real(a, b, rtol=rtol, atol=atol, equal_nan=equal_nan)
  isclose._symx = True
  _saved.append((np.__dict__, "isclose", real))
  np.isclose = isclose


def uninstall():
  while _saved:
    d, k, v = _saved.pop()
    if v is _MISSING:
      d.pop(k, None)
    else:
      d[k] = v


def import_repo():
  """Import atsim.potentials from the tree under test (VERIF_REPO or /repo).
  /venv holds an editable install pointing at /repo; for a scratch copy the
  editable finder is removed and the namespace package path is redirected."""
  import os
  repo = os.path.realpath(os.environ.get("VERIF_REPO", "/repo"))
  if "atsim.potentials" not in sys.modules:
    if repo != "/repo":
      sys.meta_path[:] = [f for f in sys.meta_path
                          if "__editable__" not in getattr(f, "__module__", "") and
                          "__editable__" not in getattr(type(f), "__module__", "") and
                          "__editable__" not in str(f)]
      for k in [k for k in sys.modules if k == "atsim" or k.startswith("atsim.")]:
        del sys.modules[k]
      import types
      ns = types.ModuleType("atsim")
      ns.__path__ = [os.path.join(repo, "atsim")]
      sys.modules["atsim"] = ns
  import atsim.potentials  # noqa
  import atsim.potentials.config  # noqa
  import atsim.potentials.tools.potable  # noqa
  import atsim.potentials.config._pymath  # noqa  (imported lazily by the registry: must be loaded before install())
  f = os.path.realpath(atsim.potentials.__file__)
  if not f.startswith(repo.rstrip("/") + "/"):
    raise core.HarnessError("atsim.potentials imported from %s, expected under %s" % (f, repo))
  return atsim.potentials
