"""Running CrossHair conditions (xh/*.py) and turning their verdicts into case
results.

A condition is a module-level function whose docstring carries pre:/post:
lines and whose body calls the real repo code.  Each condition is analysed in
its own `crosshair check` process (per_condition_timeout is sequential CPU per
condition).  Only "Confirmed over all paths" counts as discharged; a
counterexample is replayed concretely through the module's REPLAY table before
it is reported; "Not confirmed" / "Unable to meet precondition" are
inconclusive.  Every condition has a reachability twin (same function, post:
False) that must yield a counterexample.
"""
import ast
import inspect
import importlib
import os
import re
import subprocess
import sys
import time

from .run import new_result

HERE = os.path.dirname(os.path.dirname(os.path.abspath(__file__)))
PY = os.path.join(HERE, ".venv", "bin", "python")


def conditions_of(path):
  """[(name, lineno of def, has_post)] for module-level functions with a post: line."""
  with open(path) as f:
    src = f.read()
  out = []
  for node in ast.parse(src).body:
    if isinstance(node, ast.FunctionDef):
      doc = ast.get_docstring(node) or ""
      if re.search(r"^\s*post:", doc, re.M):
        out.append((node.name, node.lineno))
  return out


def twin_source(path, name):
  """Source of the module with `name`'s postconditions replaced by False."""
  with open(path) as f:
    src = f.read()
  tree = ast.parse(src)
  lines = src.split("\n")
  for node in tree.body:
    if isinstance(node, ast.FunctionDef) and node.name == name:
      for i in range(node.lineno - 1, node.end_lineno):
        if re.match(r"\s*post:", lines[i]):
          lines[i] = re.sub(r"post:.*", "post: False", lines[i])
  return "\n".join(lines)


_MSG = re.compile(r"^(?P<file>[^:]+):(?P<line>\d+): (?P<kind>error|info|warning): (?P<msg>.*)$")


def _crosshair(target, timeout, per_path=None, extra_env=None):
  env = dict(os.environ)
  env["PYTHONPATH"] = HERE + os.pathsep + env.get("PYTHONPATH", "")
  env["PYTHONDONTWRITEBYTECODE"] = "1"
  env.setdefault("PYTHONHASHSEED", "0")
  if extra_env:
    env.update(extra_env)
  cmd = [PY, "-W", "ignore", "-m", "crosshair", "check", "--report_all", "--per_condition_timeout", str(timeout)]
  if per_path:
    cmd += ["--per_path_timeout", str(per_path)]
  cmd.append(target)
  t0 = time.time()
  try:
    p = subprocess.run(cmd, stdout=subprocess.PIPE, stderr=subprocess.STDOUT, env=env, timeout=timeout * 3 + 120, cwd=HERE)
    out = p.stdout.decode("utf-8", "replace")
  except subprocess.TimeoutExpired as e:
    out = (e.stdout or b"").decode("utf-8", "replace") + "\n<<killed after wall-clock limit>>"
  return out, time.time() - t0


def classify(out):
  """-> (status, message) with status in confirmed / counterexample / not_confirmed / unmet_precondition / error"""
  status, msg = "error", out[-600:]
  for line in out.split("\n"):
    m = _MSG.match(line.strip())
    if not m:
      continue
    kind, text = m.group("kind"), m.group("msg")
    if kind == "error":
      return "counterexample", text
    if kind == "info":
      if text.startswith("Confirmed over all paths"):
        status, msg = "confirmed", text
      elif text.startswith("Not confirmed"):
        status, msg = "not_confirmed", text
      elif text.startswith("Unable to meet precondition"):
        status, msg = "unmet_precondition", text
  return status, msg


def parse_call(msg, fn):
  """The arguments of the counterexample call in a CrossHair message, as a dict
  (the call expression is the longest prefix after 'when calling' that parses)."""
  i = msg.find("when calling ")
  if i < 0:
    return None
  tail = msg[i + len("when calling "):]
  node = None
  ends = [j for j, ch in enumerate(tail) if ch == ")"]
  for j in reversed(ends):
    try:
      cand = ast.parse(tail[:j + 1], mode="eval").body
    except SyntaxError:
      continue
    if isinstance(cand, ast.Call):
      node = cand
      break
  if node is None:
    return None
  try:
    pos = [ast.literal_eval(a) for a in node.args]
    kw = {k.arg: ast.literal_eval(k.value) for k in node.keywords}
  except Exception:
    return None
  names = list(inspect.signature(fn).parameters)
  out = dict(zip(names, pos))
  out.update(kw)
  return out


def run_condition(modname, name, timeout, per_path=None, twin=True):
  """Analyse one condition; returns a case result."""
  res = new_result("xh %s.%s" % (modname.split(".")[-1], name))
  mod = importlib.import_module(modname)
  path = mod.__file__
  fn = getattr(mod, name)
  lineno = dict(conditions_of(path))[name]
  res["conditions"] = 1
  t0 = time.time()
  out, dt = _crosshair("%s:%d" % (path, lineno + 1), timeout, per_path)
  status, msg = classify(out)
  res["solver_s"] += dt
  res["queries"] += 1
  res["paths"] += 1
  res["functions"].append("%s (CrossHair condition %s)" % (getattr(mod, "TARGETS", {}).get(name, ""), name))
  res["samples"].append(dict(vc=name, status=status, message=msg[:300], seconds=round(dt, 1), docstring=(fn.__doc__ or "").strip()[:500]))
  if status == "confirmed":
    res["confirmed"] = 1
    res["unsat"] += 1
    res["vcs"] += 1
  elif status == "counterexample":
    res["vcs"] += 1
    res["sat"] += 1
    args = parse_call(msg, fn)
    rp = getattr(mod, "REPLAY", {}).get(name)
    if args is None or rp is None:
      res["inconclusive"].append("%s: counterexample could not be replayed (%s)" % (name, msg[:200]))
    else:
      try:
        confirmed, desc, key = rp(**args)
        res["replays"] += 1
      except Exception as e:  # noqa
        confirmed, desc, key = False, "replay raised %s: %s" % (type(e).__name__, e), name
      entry = dict(key="%s:%s" % (name, key), desc="%s | CrossHair: %s" % (desc, msg[:300]), witness={k: repr(v) for k, v in args.items()})
      if confirmed:
        res["violations"].append(entry)
      else:
        res["spurious"].append(entry)
        res["inconclusive"].append("%s: counterexample did not reproduce on the real code: %s" % (name, desc))
  elif status in ("not_confirmed", "unmet_precondition"):
    res["vcs"] += 1
    res["unknown"] += 1
    res["inconclusive"].append("%s: %s (within %ds)" % (name, msg, timeout))
  else:
    res["harness_errors"].append("%s: crosshair gave no verdict: %s" % (name, out[-800:]))
  if twin and status != "counterexample":
    # reachability twin: post: False must be refuted
    os.makedirs(os.path.join(HERE, ".scratch"), exist_ok=True)
    tpath = os.path.join(HERE, ".scratch", "twin_%s_%s_%d.py" % (modname.split(".")[-1], name, os.getpid()))
    with open(tpath, "w") as f:
      f.write(twin_source(path, name))
    try:
      tout, tdt = _crosshair("%s:%d" % (tpath, lineno + 1), min(timeout, 60))
      tstatus, tmsg = classify(tout)
    finally:
      try:
        os.unlink(tpath)
      except OSError:
        pass
    res["negatives"] += 1
    res["solver_s"] += tdt
    if tstatus == "counterexample":
      res["negatives_ok"] += 1
    else:
      res["notes"].append("reachability twin of %s: %s %s" % (name, tstatus, tmsg[:200]))
  return res
