"""Second-order forward-mode automatic differentiation over SYMX proxies.

Jet(v, d1, d2) stands for a function value with its first and second derivative
w.r.t. the one independent variable.  Running the repo's *energy* code on
Jet(r, 1, 0) yields the true derivatives of whatever that code computes.  This
file (the calculus rules) is the trusted oracle for C07/C10."""
from . import core
from .core import SReal, SBool, HarnessError


def _num(x):
  return isinstance(x, (int, float, SReal, core.SInt)) and not isinstance(x, bool)


def _lift(x):
  if isinstance(x, (int, float)) and not isinstance(x, (SReal, bool)):
    return core.lift(x)
  return x


def _cmp_operand(o):
  if isinstance(o, Jet):
    return o.v
  if type(o) is float and (o != o or o in (float("inf"), float("-inf"))):
    return o
  return Jet(o, 0.0, 0.0).v


class Jet(object):
  __slots__ = ("v", "d1", "d2")

  def __init__(self, v, d1=0.0, d2=0.0):
    # concrete components are lifted to exact rational constants so that no
    # jet arithmetic is ever done in (rounding) machine floats
    self.v, self.d1, self.d2 = _lift(v), _lift(d1), _lift(d2)

  @staticmethod
  def of(x):
    return x if isinstance(x, Jet) else Jet(x, 0.0, 0.0)

  def __add__(self, o):
    if not (_num(o) or isinstance(o, Jet)):
      return NotImplemented
    o = Jet.of(o)
    return Jet(self.v + o.v, self.d1 + o.d1, self.d2 + o.d2)

  __radd__ = __add__

  def __neg__(self):
    return Jet(-self.v, -self.d1, -self.d2)

  def __pos__(self):
    return self

  def __sub__(self, o):
    if not (_num(o) or isinstance(o, Jet)):
      return NotImplemented
    o = Jet.of(o)
    return Jet(self.v - o.v, self.d1 - o.d1, self.d2 - o.d2)

  def __rsub__(self, o):
    if not _num(o):
      return NotImplemented
    return Jet.of(o) - self

  def __mul__(self, o):
    if not (_num(o) or isinstance(o, Jet)):
      return NotImplemented
    o = Jet.of(o)
    return Jet(self.v * o.v,
               self.d1 * o.v + self.v * o.d1,
               self.d2 * o.v + 2.0 * self.d1 * o.d1 + self.v * o.d2)

  __rmul__ = __mul__

  def recip(self):
    # g = 1/f ; g' = -f'/f^2 ; g'' = -f''/f^2 + 2 f'^2 / f^3
    f = self.v
    g = 1.0 / f
    return Jet(g, -self.d1 * g * g, -self.d2 * g * g + 2.0 * self.d1 * self.d1 * g * g * g)

  def __truediv__(self, o):
    if not (_num(o) or isinstance(o, Jet)):
      return NotImplemented
    if not isinstance(o, Jet):
      return Jet(self.v / o, self.d1 / o, self.d2 / o)
    return self * o.recip()

  def __rtruediv__(self, o):
    if not _num(o):
      return NotImplemented
    return Jet.of(o) * self.recip()

  def __pow__(self, e):
    if isinstance(e, Jet):
      # a**b = exp(G), G = b log a : value kept as the POW atom the code builds,
      # derivatives v*G' and v*(G'' + G'^2)
      from . import mathshim
      G = e * mathshim.log(self)
      v = self.v ** e.v
      return Jet(v, v * G.d1, v * (G.d2 + G.d1 * G.d1))
    if not _num(e):
      return NotImplemented
    if isinstance(e, (int, float)) and not isinstance(e, SReal) and float(e) == int(e):
      n = int(e)
      if n == 0:
        return Jet(1.0, 0.0, 0.0)
      if n == 1:
        return self
      if n < 0:
        return (self ** (-n)).recip()
      # f^n: n f^(n-1) f' ; n(n-1) f^(n-2) f'^2 + n f^(n-1) f''
      f = self.v
      fn1 = f ** (n - 1)
      fn2 = f ** (n - 2) if n >= 2 else 0.0
      return Jet(fn1 * f, n * fn1 * self.d1,
                 n * (n - 1) * fn2 * self.d1 * self.d1 + n * fn1 * self.d2)
    # constant (w.r.t. r) real exponent, possibly symbolic
    f = self.v
    return Jet(f ** e, e * f ** (e - 1) * self.d1,
               e * (e - 1) * f ** (e - 2) * self.d1 * self.d1 + e * f ** (e - 1) * self.d2)

  def __rpow__(self, b):
    # const ** jet = exp(jet * log(const))
    from . import mathshim
    if not _num(b):
      return NotImplemented
    return mathshim.exp(self * mathshim.log(b))

  # comparisons look at the value only
  # (an infinite concrete bound, e.g. `r < float("inf")`, is compared as it is: symbolic reals are finite)
  def __lt__(self, o): return self.v < _cmp_operand(o)
  def __le__(self, o): return self.v <= _cmp_operand(o)
  def __gt__(self, o): return self.v > _cmp_operand(o)
  def __ge__(self, o): return self.v >= _cmp_operand(o)

  def __eq__(self, o):
    if not (_num(o) or isinstance(o, Jet)):
      return False
    return self.v == _cmp_operand(o)

  def __ne__(self, o):
    if not (_num(o) or isinstance(o, Jet)):
      return True
    return self.v != Jet.of(o).v

  __hash__ = None

  def __bool__(self):
    return bool(self.v)

  def __float__(self):
    raise HarnessError("float() of a Jet outside a shimmed module")

  def __repr__(self):
    return "Jet(%r,%r,%r)" % (self.v, self.d1, self.d2)


def chain(x, f, f1, f2):
  """Compose: value f(v), derivatives by the chain rule given f'(v), f''(v)."""
  return Jet(f, f1 * x.d1, f2 * x.d1 * x.d1 + f1 * x.d2)
