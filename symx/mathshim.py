"""Replacement for the `math` module inside the repo's modules (installed by
rebinding the module global, no source change).  exp/log/sqrt of a proxy create
*atoms* (uninterpreted applications) with their defining relations; everything
else falls through to the real math module for concrete numbers and refuses
proxies loudly."""
import math as _m

import z3

from . import core, jets
from .core import SReal, SInt, HarnessError, term, R

EXP = z3.Function("EXP", R, R)
LOG = z3.Function("LOG", R, R)

pi = _m.pi
e = _m.e
inf = _m.inf
nan = _m.nan


def _is_proxy(x):
  return isinstance(x, (SReal, SInt, jets.Jet, core.SBool))


_ZS = None


def is_zero(t, stats=None):
  """Is the real term t identically zero (as a polynomial/rational identity)?
  First by rewriting, then by a solver query on the term alone (no path
  condition: only arithmetic identities are accepted)."""
  global _ZS
  u = z3.simplify(t, som=True)
  if z3.is_rational_value(u):
    return u.numerator_as_long() == 0
  u = z3.simplify(u, som=True)
  if z3.is_rational_value(u):
    return u.numerator_as_long() == 0
  from . import vc
  n, d = vc.numden(t)
  if _ZS is None:
    _ZS = z3.Solver()
    _ZS.set("timeout", 1500)
  _ZS.push()
  _ZS.add(n != 0)
  r = _ZS.check()
  _ZS.pop()
  run = core.cur()
  run.explorer.stats["atom_queries"] = run.explorer.stats.get("atom_queries", 0) + 1
  return r == z3.unsat


_LS = {}


def _leafset(t):
  """ids of the uninterpreted constants/applications a term is built from
  (two arguments can only be proportional if these coincide)."""
  i = t.get_id()
  if i in _LS:
    return _LS[i][1]
  out = set()
  seen = set()
  stack = [t]
  while stack:
    x = stack.pop()
    xi = x.get_id()
    if xi in seen:
      continue
    seen.add(xi)
    if z3.is_app(x) and x.decl().kind() == z3.Z3_OP_UNINTERPRETED:
      out.add(str(x.decl()) if x.num_args() else xi)
      if x.num_args() == 0:
        continue
    stack.extend(x.children())
  fs = frozenset(out)
  if len(_LS) > 20000:
    _LS.clear()
  _LS[i] = (t, fs)    # keep t alive: z3 reuses the ids of freed terms
  return fs


_RATIOS = ((1, 1), (2, 1), (1, 2), (-1, 1), (-2, 1), (-1, 2), (3, 1), (-3, 1), (1, 3), (-1, 3))


RAW_EXP = False   # tolerant mode: no canonicalisation, poly.py normalises exp factors itself


def exp_atom(t):
  """EXP atom for argument t, canonicalised against the atoms already created
  on this path: if t == (p/q)*u for a known argument u the atom is expressed
  through EXP(u) (q > 1 introduces a new base atom b with EXP(u) == b**q)."""
  run = core.cur()
  if RAW_EXP:
    a = EXP(t)
    run.assume(a > 0)
    return a
  reg = run.__dict__.setdefault("exp_atoms", [])
  key = _leafset(t)
  # an argument that was met before gets the atom it got then (whatever other multiples of it are registered:
  # otherwise exp(u) met after exp(2u) would get a second square-root atom on every evaluation)
  for (u, a) in reg:
    if _leafset(u) == key and is_zero(t - u):
      return a
  for (u, a) in reg:
    if _leafset(u) != key:
      continue
    for (p, q) in _RATIOS:
      if (p, q) == (1, 1):
        continue
      if is_zero(q * t - p * u):
        if q == 1:
          base = a
        else:
          base = z3.FreshReal("expbase")
          run.assume(z3.And(base > 0, core._powint(base, q) == a))
          reg.append((u / q, base))
        if p > 0:
          return core._powint(base, p)
        return z3.RealVal(1) / core._powint(base, -p)
  a = EXP(t)
  run.assume(a > 0)
  reg.append((t, a))
  return a


def exp(x):
  if isinstance(x, jets.Jet):
    E = exp(x.v)
    return jets.chain(x, E, E, E)
  if isinstance(x, (SReal, SInt)):
    t = term(x)
    if z3.is_app(t) and t.decl().eq(LOG):
      return SReal(t.arg(0))
    return SReal(exp_atom(t))
  return _m.exp(x)


def log(x, base=None):
  if base is not None:
    if _is_proxy(x) or _is_proxy(base):
      return log(x) / log(base)
    return _m.log(x, base)
  if isinstance(x, jets.Jet):
    return jets.chain(x, log(x.v), 1.0 / x.v, -1.0 / (x.v * x.v))
  if isinstance(x, (SReal, SInt)):
    t = term(x)
    core.cur().assume(t > 0, definedness=True)
    if z3.is_app(t) and t.decl().eq(EXP):
      return SReal(t.arg(0))
    return SReal(LOG(t))
  return _m.log(x)


def sqrt(x):
  if isinstance(x, jets.Jet):
    s = sqrt(x.v)
    return jets.chain(x, s, 0.5 / s, -0.25 / (s * x.v))
  if isinstance(x, (SReal, SInt)):
    return SReal(core.root_atom(term(x), 2))
  return _m.sqrt(x)


def pow(x, y):
  if _is_proxy(x) or _is_proxy(y):
    return x ** y
  return _m.pow(x, y)


def ceil(x):
  if hasattr(x, "sym_ceil"):
    return x.sym_ceil()
  if _is_proxy(x):
    raise HarnessError("math.ceil applied to a symbolic value is not modelled in this algebra")
  return _m.ceil(x)


def floor(x):
  if hasattr(x, "sym_floor"):
    return x.sym_floor()
  if _is_proxy(x):
    raise HarnessError("math.floor applied to a symbolic value is not modelled in this algebra")
  return _m.floor(x)


def fabs(x):
  if _is_proxy(x):
    return abs(x)
  return _m.fabs(x)


def __getattr__(name):
  f = getattr(_m, name)
  if not callable(f):
    return f

  def guarded(*a):
    for v in a:
      if _is_proxy(v):
        raise HarnessError("math.%s applied to a symbolic value is not modelled" % name)
    return f(*a)
  return guarded
