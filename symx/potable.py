"""Running the potable route on proxies: a parsed ConfigParser is wrapped so
that the numeric *parameters* of every potential-form instance become symbolic
reals (range starts, integer parameters and everything else stay concrete).
The real registries, builders and factories then build the model from these
tuples inside the exploration."""
from . import core


class ParamNamer(object):
  def __init__(self, keep=None):
    self.values = {}     # name -> concrete value in the file
    self.keep = keep     # optional predicate(form_label, index, value) -> keep concrete

  def __call__(self, section, key, form, idx, n, v):
    name = "%s|%s|%d" % (section, key, n)
    self.values[name] = v
    return core.sym(name)


def _symbolise(node, namer, section, key, counter):
  if node is None:
    return None
  if hasattr(node, "modifier"):
    forms = [_symbolise(p, namer, section, key, counter) for p in node.potential_forms]
    return node._replace(potential_forms=forms, next=_symbolise(node.next, namer, section, key, counter))
  params = []
  for i, v in enumerate(node.parameters):
    if isinstance(v, float) and not isinstance(v, core.SReal) and not (namer.keep and namer.keep(node.potential_form, i, v)):
      counter[0] += 1
      params.append(namer(section, key, node.potential_form, i, counter[0], v))
    else:
      params.append(v)
  return node._replace(parameters=params, next=_symbolise(node.next, namer, section, key, counter))


class SymParamParser(object):
  """Delegates to a real ConfigParser; potential-definition tuples come back
  with symbolic parameters."""

  def __init__(self, cp, keep=None):
    self._cp = cp
    self.namer = ParamNamer(keep)

  def __getattr__(self, name):
    return getattr(self._cp, name)

  def _sym_list(self, tuples, section):
    out = []
    for t in tuples:
      key = "-".join(t.species) if isinstance(t.species, tuple) else str(t.species)
      if hasattr(t.species, "from_species"):
        key = "%s->%s" % (t.species.from_species, t.species.to_species)
      out.append(t._replace(potential_form_instance=_symbolise(t.potential_form_instance, self.namer, section, key, [0])))
    return out

  @property
  def pair(self):
    return self._sym_list(self._cp.pair, "Pair")

  @property
  def species(self):
    """The real ConfigParser.species code, run over a view of the [Species]
    section in which every float-typed property value is a symbolic real."""
    from atsim.potentials.config._config_parser import ConfigParser
    raw = self._cp.raw_config_parser
    if not raw.has_section("Species"):
      return ConfigParser.species.fget(self._cp)
    vals = {}
    self.species_symbols = {}
    for k in raw["Species"]:
      v = raw["Species"][k]
      prop = k.split(".", 1)[-1].strip()
      if prop in ("atomic_mass", "lattice_constant", "charge", "covalent_radius"):
        name = "Species|%s" % k.replace(" ", "")
        self.namer.values[name] = float(v)
        v = core.sym(name)
        self.species_symbols[k.replace(" ", "")] = name
      vals[k] = v

    class _Raw(object):
      def has_section(self, s):
        return s == "Species"

      def __getitem__(self, s):
        return vals

    class _View(object):
      _config_parser = _Raw()
      _convert_species_type = lambda self_, prop, v: ConfigParser._convert_species_type(self._cp, prop, v)
    try:
      return ConfigParser.species.fget(_View())
    except (AttributeError, TypeError) as e:
      # the code under test treats the values as text (e.g. v.strip()): fall
      # back to the concrete values of the file (noted; no symbolic metadata)
      core.note("[Species] values handled concretely: %s" % e)
      self.species_symbols = {}
      self.species_concrete = True
      return ConfigParser.species.fget(self._cp)

  def parse_pair_like(self, section_name):
    return self._sym_list(self._cp.parse_pair_like(section_name), section_name)

  @property
  def eam_embed(self):
    return self._sym_list(self._cp.eam_embed, "EAM-Embed")

  @property
  def eam_density(self):
    return self._sym_list(self._cp.eam_density, "EAM-Density")

  @property
  def eam_density_fs(self):
    return self._sym_list(self._cp.eam_density_fs, "EAM-Density")


# ---------------------------------------------------------------------------
# Rendering a (possibly re-parameterised) model back to potable text, used to
# replay solver witnesses through Configuration().read()

def _num(v):
  return repr(float(v)) if isinstance(v, float) else repr(v)


def render_definition(node, values, section, key, counter=None):
  """Text of a potential definition tuple chain; float parameters are replaced,
  in traversal order, by values['<section>|<key>|<n>'] when present."""
  counter = counter if counter is not None else [0]
  parts = []
  while node is not None:
    st = ""
    if node.start is not None:
      st = "%s%s " % (node.start.range_type, _num(node.start.start))
    if hasattr(node, "modifier"):
      inner = ", ".join(render_definition(p, values, section, key, counter) for p in node.potential_forms)
      parts.append("%s%s(%s)" % (st, node.modifier, inner))
    else:
      ps = []
      for v in node.parameters:
        if isinstance(v, float):
          counter[0] += 1
          name = "%s|%s|%d" % (section, key, counter[0])
          v = values.get(name, v)
        ps.append(_num(v))
      parts.append(("%s%s %s" % (st, node.potential_form, " ".join(ps))).rstrip())
    node = node.next
  return " ".join(parts)


def render_pairs(cp, values, section="Pair"):
  lines = ["[%s]" % section]
  tuples = cp.pair if section == "Pair" else cp.parse_pair_like(section)
  for t in tuples:
    key = "-".join(t.species)
    lines.append("%s-%s : %s" % (t.species[0], t.species[1], render_definition(t.potential_form_instance, values, section, key)))
  return "\n".join(lines) + "\n"


def render_model_text(cp, text, values):
  """The model file `text` with the float parameters of every potential
  definition and the float-typed [Species] values replaced by `values`
  (names as produced by SymParamParser).  Other sections are kept verbatim."""
  import re
  raw = cp.raw_config_parser
  out_sections = []
  # split the text into sections, keep order
  parts = re.split(r"(?m)^(\[[^\]\n]+\])[ \t]*$", text)
  head = parts[0]
  secs = list(zip(parts[1::2], parts[2::2]))
  res = [head]
  for hdr, body in secs:
    name = hdr[1:-1].strip()
    if name in ("Pair", "EAM-ADP-Dipole", "EAM-ADP-Quadrupole") and raw.has_section(name):
      res.append(render_pairs(cp, values, name) + "\n")
    elif name == "EAM-Embed" and raw.has_section(name):
      lines = ["[EAM-Embed]"]
      for t in cp.eam_embed:
        lines.append("%s : %s" % (t.species, render_definition(t.potential_form_instance, values, "EAM-Embed", str(t.species))))
      res.append("\n".join(lines) + "\n\n")
    elif name == "EAM-Density" and raw.has_section(name):
      lines = ["[EAM-Density]"]
      fs = any("->" in k for k in raw["EAM-Density"])
      for t in (cp.eam_density_fs if fs else cp.eam_density):
        key = "%s->%s" % (t.species.from_species, t.species.to_species) if fs else str(t.species)
        lines.append("%s : %s" % (key, render_definition(t.potential_form_instance, values, "EAM-Density", key)))
      res.append("\n".join(lines) + "\n\n")
    elif name == "Species":
      lines = ["[Species]"]
      for k in raw["Species"]:
        v = raw["Species"][k]
        nm = "Species|%s" % k.replace(" ", "")
        if nm in values:
          v = repr(float(values[nm]))
        lines.append("%s : %s" % (k, v))
      res.append("\n".join(lines) + "\n\n")
    else:
      res.append(hdr + body)
  return "".join(res)
