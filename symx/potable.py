"""Running the potable route on proxies: a parsed ConfigParser is wrapped so
that the numeric *parameters* of every potential-form instance become symbolic
reals (range starts, integer parameters and everything else stay concrete).
The real registries, builders and factories then build the model from these
tuples inside the exploration."""
from . import core


class ParamNamer(object):
  def __init__(self, keep=None):
    self.values = {}     # name -> concrete value in the file
    self.keep = keep     # optional predicate(form_label, index, value) -> keep concrete

  def __call__(self, section, key, form, idx, n, v):
    name = "%s|%s|%d" % (section, key, n)
    self.values[name] = v
    return core.sym(name)


def _symbolise(node, namer, section, key, counter):
  if node is None:
    return None
  if hasattr(node, "modifier"):
    forms = [_symbolise(p, namer, section, key, counter) for p in node.potential_forms]
    return node._replace(potential_forms=forms, next=_symbolise(node.next, namer, section, key, counter))
  params = []
  for i, v in enumerate(node.parameters):
    if isinstance(v, float) and not isinstance(v, core.SReal) and not (namer.keep and namer.keep(node.potential_form, i, v)):
      counter[0] += 1
      params.append(namer(section, key, node.potential_form, i, counter[0], v))
    else:
      params.append(v)
  return node._replace(parameters=params, next=_symbolise(node.next, namer, section, key, counter))


class SymParamParser(object):
  """Delegates to a real ConfigParser; potential-definition tuples come back
  with symbolic parameters."""

  def __init__(self, cp, keep=None):
    self._cp = cp
    self.namer = ParamNamer(keep)

  def __getattr__(self, name):
    return getattr(self._cp, name)

  def _sym_list(self, tuples, section):
    out = []
    for t in tuples:
      key = "-".join(t.species) if isinstance(t.species, tuple) else str(t.species)
      if hasattr(t.species, "from_species"):
        key = "%s->%s" % (t.species.from_species, t.species.to_species)
      out.append(t._replace(potential_form_instance=_symbolise(t.potential_form_instance, self.namer, section, key, [0])))
    return out

  @property
  def pair(self):
    return self._sym_list(self._cp.pair, "Pair")

  def parse_pair_like(self, section_name):
    return self._sym_list(self._cp.parse_pair_like(section_name), section_name)

  @property
  def eam_embed(self):
    return self._sym_list(self._cp.eam_embed, "EAM-Embed")

  @property
  def eam_density(self):
    return self._sym_list(self._cp.eam_density, "EAM-Density")

  @property
  def eam_density_fs(self):
    return self._sym_list(self._cp.eam_density_fs, "EAM-Density")
