"""Eliminating the unknowns of a stubbed linear solve from a term.

The stub of numpy.linalg.solve (npstub) introduces unknowns c with the rows
`sum_j A_ij c_j == B_i` as path assumptions.  z3's nonlinear engine is erratic
on "row_i follows from the rows" queries when d, a, ... are symbolic, so the
VCs are prepared by rewriting: every subterm of the goal that is *polynomially
identical* (checked by sum-of-monomials normalisation, no solver) to the left
hand side of a row is replaced by that row's right hand side; EXP(LOG(x)) -> x.
The rewriting is sound (each step replaces equals by equals under the path
assumptions) and, when it removes every unknown, the path assumptions that
mention the unknowns can be dropped from the query (weakening the hypotheses).
"""
import z3

from . import core, mathshim

_ARITH = (z3.Z3_OP_ADD, z3.Z3_OP_MUL, z3.Z3_OP_SUB, z3.Z3_OP_UMINUS, z3.Z3_OP_DIV)


def consts(t, acc=None, seen=None):
  acc = set() if acc is None else acc
  seen = set() if seen is None else seen
  stack = [t]
  while stack:
    x = stack.pop()
    i = x.get_id()
    if i in seen:
      continue
    seen.add(i)
    if z3.is_const(x) and x.decl().kind() == z3.Z3_OP_UNINTERPRETED:
      acc.add(str(x))
    stack.extend(x.children())
  return acc


def is_zero_poly(t):
  u = z3.simplify(t, som=True)
  if z3.is_rational_value(u):
    return u.numerator_as_long() == 0
  u = z3.simplify(u, som=True)
  return z3.is_rational_value(u) and u.numerator_as_long() == 0


def rows_of(systems):
  """[(lhs term, rhs term)], set of unknown names, for the systems recorded by npstub."""
  rows, names = [], set()
  for (At, Bt, cs) in systems:
    n = len(cs)
    for i in range(n):
      lhs = None
      for j in range(n):
        a = z3.simplify(At[i][j])
        if z3.is_rational_value(a) and a.numerator_as_long() == 0:
          continue
        tj = a * cs[j]
        lhs = tj if lhs is None else lhs + tj
      if lhs is not None:
        rows.append((lhs, Bt[i]))
    names |= set(str(c) for c in cs)
  return rows, names


def rewrite(t, rows, cnames, stats=None):
  memo = {}
  keep = []

  def rw(t):
    k = t.get_id()
    if k in memo:
      return memo[k]
    out = None
    if t.sort() == core.R and z3.is_app(t) and t.num_args() > 0:
      if t.decl().kind() in _ARITH and (consts(t) & cnames):
        for (lhs, rhs) in rows:
          if stats is not None:
            stats["identity_tests"] = stats.get("identity_tests", 0) + 1
          if is_zero_poly(t - lhs):
            out = rhs
            break
          if is_zero_poly(t + lhs):
            out = -rhs
            break
    if out is None:
      if z3.is_app(t) and t.num_args() > 0:
        ch = [rw(c) for c in t.children()]
        if t.decl().eq(mathshim.EXP) and z3.is_app(ch[0]) and ch[0].decl().eq(mathshim.LOG):
          out = ch[0].arg(0)
        elif all(a.eq(b) for a, b in zip(ch, t.children())):
          out = t
        else:
          kind = t.decl().kind()
          if kind == z3.Z3_OP_ADD:
            out = z3.Sum(ch)
          elif kind == z3.Z3_OP_MUL:
            out = z3.Product(ch)
          elif kind == z3.Z3_OP_AND:
            out = z3.And(ch)
          elif kind == z3.Z3_OP_OR:
            out = z3.Or(ch)
          else:
            out = t.decl()(*ch)
      else:
        out = t
    memo[k] = out
    keep.append(t)
    return out
  return rw(t)


def filter_pc(pc, cnames):
  return [c for c in pc if not (consts(c) & cnames)]
