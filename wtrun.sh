#!/bin/sh
# dev helper: wtrun.sh <tree> <script.py|-m module> [args...]
# runs the script/module with atsim.potentials imported from <tree> instead of the editable install of /repo
T=$(realpath "$1"); shift
VERIF_REPO="$T" PYTHONDONTWRITEBYTECODE=1 exec /verif/.venv/bin/python -W ignore -c "
import sys, runpy
sys.path.insert(0, '/verif')
from symx import shims
shims.import_repo()
sys.path.remove('/verif')
a = sys.argv[1:]
if a[0] == '-m':
  sys.argv = a[1:]
  runpy.run_module(a[1], run_name='__main__', alter_sys=True)
else:
  sys.argv = a
  sys.path.insert(0, __import__('os').path.dirname(__import__('os').path.abspath(a[0])))
  runpy.run_path(a[0], run_name='__main__')
" "$@"
