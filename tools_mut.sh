#!/bin/sh
# dev helper: tools_mut.sh <ID> <file-relative-to-repo> <sed-expr> [tier]  -> runs check against a mutated scratch copy
ID=$1; F=$2; E=$3; TIER=${4:-quick}
D=$(mktemp -d /tmp/mut.XXXXXX)
rsync -a --exclude .git /repo/ $D/
sed -i "$E" $D/$F
if cmp -s $D/$F /repo/$F; then echo "MUTATION DID NOT APPLY"; rm -rf $D; exit 9; fi
cd /verif && VERIF_REPO=$D timeout 900 ./check $ID --tier $TIER 2>&1 | grep -E "^C[0-9]+ tier|VIOLATION|HARNESS|KNOWN|key=" | head -8
echo "exit=$?"
rm -rf $D
