"""C05 DL_POLY TABEAM: declared function count, block headers and values."""
import itertools

from symx.run import Case
from checks import eam_common as EC
from checks import eam_potable as EP
from checks.eam_api import api_case

ID = "C05"
META = dict(
  functions=["_dlpoly_writeTABEAM.writeTABEAM / writeTABEAMFinnisSinclair / _tabulateFunction / _writeEmbeddingFunction / "
             "_writeDensityFunction / _writePairPotential / _writePairPotentials / _writeTABEAM_exceptDensity",
             "eam_tabulation.TABEAM_EAMTabulation.write / TABEAM_FinnisSinclair_EAMTabulation.write",
             "config._tabulation_factories.EAMTabulationFactory (DL_POLY_EAM, DL_POLY_EAM_fs)",
             "config._eam_potential_builder.EAM_Potential_Builder / EAM_Potential_Builder_FS"],
  bounds=dict(
    quick=dict(elements="1..2 (all orders) + 3-element covering layouts", pair_states="all declaration states",
               grids="nr,nrho in {2..6} (rows of 4 and partial rows)", cutoffs="symbolic reals > 0", potable_models=4),
    thorough=dict(elements="1..3 exhaustive; 4 elements on a pairwise-covering set", grids="nr,nrho in {2..9}",
                  cutoffs="symbolic reals > 0", potable_models=6)),
  stubs=["embedding, density and pair functions are uninterpreted functions"],
  outside=["printed precision (%f, six decimals): slots are compared as terms", "last-ulp rounding"],
  assumptions=["floats are modelled as mathematical reals", "cutoff > 0, cutoff_rho > 0"],
  explanation="symbolic execution of the real TABEAM writers; the declared count is compared with the number of blocks the "
              "independent reader finds, the set of blocks with the required set, every header field and value slot as z3 terms",
)


def cases(tier, seed=0):
  cs = []
  from checks import fpgrid
  cs.append(Case("fp grid DL_POLY_EAM", fpgrid.grid_case, target="DL_POLY_EAM", nr=41))
  N = EC.NAMES
  idx = 0
  if tier == "quick":
    grids = [(2, 3), (5, 4), (4, 6), (6, 5)]
    for target in ("DL_POLY_EAM", "DL_POLY_EAM_fs"):
      for n in (1, 2):
        for order in itertools.permutations(N[:n]):
          for st in EC.pair_states(order):
            idx += 1
            nr, nrho = grids[idx % 4]
            cs.append(Case("api %s %s %d" % (target, "/".join(order), idx), api_case, target=target, elements=order, pairs=st,
                           nr=nr, nrho=nrho, route="class" if idx % 3 else "func", rot=idx))
      for si, st in enumerate(EC.covering_pair_states(("Zr", "Cu", "Al"), seed=2)[:5]):
        cs.append(Case("api %s Zr/Cu/Al cover%d" % (target, si), api_case, target=target, elements=("Zr", "Cu", "Al"), pairs=st,
                       nr=2, nrho=3, route="class", rot=si))
    for m, tgt in (("eam_basic", "DL_POLY_EAM"), ("eam_undeclared", "DL_POLY_EAM"), ("fs_basic", "DL_POLY_EAM_fs"), ("fs_three", "DL_POLY_EAM_fs"),
                   ("eam_multirange", "DL_POLY_EAM"), ("fs_multirange", "DL_POLY_EAM_fs")):
      cs.append(Case("potable %s %s" % (m, tgt), EP.potable_case, model_name=m, target=tgt, nr=3, nrho=5))
  else:
    grids = [(2, 2), (3, 4), (4, 5), (5, 8), (6, 3), (7, 9), (8, 2), (9, 6)]
    for target in ("DL_POLY_EAM", "DL_POLY_EAM_fs"):
      for n in (1, 2, 3):
        for order in itertools.permutations(N[:n]):
          for st in EC.pair_states(order):
            idx += 1
            if n == 3 and idx % 2:
              continue
            nr, nrho = grids[idx % 8] if n < 3 else [(2, 2), (3, 2), (2, 5)][idx % 3]
            cs.append(Case("api %s %s %d" % (target, "/".join(order), idx), api_case, target=target, elements=order, pairs=st,
                           nr=nr, nrho=nrho, route="class" if idx % 3 else "func", rot=idx))
      for oi, order in enumerate(list(itertools.permutations(N[:4]))[::4]):
        for si, st in enumerate(EC.covering_pair_states(order, seed=oi)[::2]):
          cs.append(Case("api4 %s %s cover%d" % (target, "/".join(order), si), api_case, target=target, elements=order, pairs=st,
                         nr=2, nrho=2, route="class", rot=si))
    for m, spec in EP.EAM_MODELS.items():
      if spec.get("adp"):
        continue
      tgt = "DL_POLY_EAM_fs" if spec.get("fs") else "DL_POLY_EAM"
      # multi-range entries fork once per (grid point, range boundary): a smaller grid keeps them inside the path budget
      nr, nrho = (3, 4) if spec.get("concrete") else (5, 4)
      cs.append(Case("potable %s %s" % (m, tgt), EP.potable_case, model_name=m, target=tgt, nr=nr, nrho=nrho))
  from checks import eam_api as _ea
  cs += _ea.surplus_cases('DL_POLY_EAM', tier)
  cs += _ea.surplus_cases('DL_POLY_EAM_fs', tier)
  cs += _ea.after_failure_cases('DL_POLY_EAM', tier)
  cs += _ea.after_failure_cases('DL_POLY_EAM_fs', tier)
  cs += _ea.shared_and_undeclared_cases('DL_POLY_EAM', tier)
  cs += _ea.shared_and_undeclared_cases('DL_POLY_EAM_fs', tier)
  cs += _ea.written_first_cases('DL_POLY_EAM', tier)
  cs += _ea.written_first_cases('DL_POLY_EAM_fs', tier)
  cs += _ea.energy_override_cases('DL_POLY_EAM', tier)
  cs += _ea.energy_override_cases('DL_POLY_EAM_fs', tier)
  cs += _ea.long_label_cases('DL_POLY_EAM', tier)
  cs += _ea.long_label_cases('DL_POLY_EAM_fs', tier)
  cs += _ea.pair_iterable_cases('DL_POLY_EAM', tier)
  cs += _ea.pair_iterable_cases('DL_POLY_EAM_fs', tier)
  cs += _ea.late_onset_cases('DL_POLY_EAM', tier)
  return cs


def replay(path):
  from checks import common
  return common.generic_replay(path)
