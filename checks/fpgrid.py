"""Evaluation points under floating point: the abscissa at which the writers
evaluate the functions is the grid point the header promises, i * step, up to a
few units in the last place - not a value that drifts with the row index (a
running sum r += step differs from i*step by O(i) ulps, enough to put a grid
point on the wrong side of a range boundary such as '>=2.5' with step 0.01).

Two algebras, as for C11:
* rounding-error model (SErr): every operation (1+e), |e| <= 2^-53; z3 shows
  |arg_i - i*step| <= TOL * i*step for every cutoff > 0  =>  holds for doubles;
* bit-precise (SFP, z3 Float64): searches a cutoff for which the bound fails;
  the witness is replayed with a potential that has a step at the exact grid
  point, whose tabulated value then shows the wrong side of the step.
"""
import io
import math

import z3

from symx import core, shims, fpalg
from symx.core import sym, assume, rv, term
from symx.run import new_result
from checks import eam_common as EC

TOL_U = 8          # tolerated deviation in units of 2^-53 relative to the grid point
U = fpalg.U


class Rec(object):
  """a potential that records the points it is evaluated at"""

  def __init__(self, name, log):
    self.name, self.log = name, log

  def __call__(self, x):
    self.log.append((self.name, x))
    return 1.0

  def deriv(self, x):
    return 0.0


def make(target, nr, nrho, cutoff, cutoff_rho, log):
  from atsim.potentials import Potential
  from atsim.potentials import pair_tabulation as pt, eam_tabulation as et
  if target in ("LAMMPS", "DL_POLY", "GULP"):
    cls = dict(LAMMPS=pt.LAMMPS_PairTabulation, DL_POLY=pt.DLPoly_PairTabulation, GULP=pt.GULP_PairTabulation)[target]
    return cls([Potential("A", "B", Rec("phi", log))], cutoff, nr)
  model = EC.Model(["Cu"], {("Cu", "Cu"): ("Cu", "Cu")}, fs=target.endswith("_fs"))
  eampots, pairpots, _d, _q = EC.build_objects(model, lambda name: Rec(name.split("_")[0], log), EC.conc_meta)
  cls = dict(setfl=et.SetFL_EAMTabulation, setfl_fs=et.SetFL_FS_EAMTabulation, DL_POLY_EAM=et.TABEAM_EAMTabulation,
             DL_POLY_EAM_fs=et.TABEAM_FinnisSinclair_EAMTabulation)[target]
  return cls(pairpots, eampots, cutoff, nr, cutoff_rho, nrho)


def grid_spec(target, nr, nrho):
  """{function kind: (first index, count, divisor, which cutoff)}: the k-th evaluation of that kind is at (first+k) * cutoff / divisor"""
  if target == "LAMMPS":
    return dict(phi=(1, nr - 1, nr - 1, "r"))
  if target == "DL_POLY":
    return dict(phi=(1, nr, nr - 4, "r"))
  if target == "GULP":
    return dict(phi=(0, nr, nr - 1, "r"))
  return dict(phi=(0, nr, nr - 1, "r"), rho=(0, nr, nr - 1, "r"), F=(0, nrho, nrho - 1, "rho"))


def run_symbolic(target, nr, nrho, algebra):
  log = []
  if algebra == "err":
    c, cr = z3.Real("cutoff"), z3.Real("cutoff_rho")
    core.cur().assume(z3.And(c > 0, cr > 0))
    cutoff, cutoff_rho = fpalg.SErr(c), fpalg.SErr(cr)
  else:
    c, cr = z3.FP("cutoff", fpalg.F64), z3.FP("cutoff_rho", fpalg.F64)
    core.cur().assume(z3.And(z3.fpGEQ(c, fpalg.fpv(1.0)), z3.fpLEQ(c, fpalg.fpv(16.0)), z3.fpGEQ(cr, fpalg.fpv(1.0)), z3.fpLEQ(cr, fpalg.fpv(128.0))))
    cutoff, cutoff_rho = fpalg.SFP(c), fpalg.SFP(cr)
  tab = make(target, nr, nrho, cutoff, cutoff_rho, log)
  tab.write(io.StringIO())
  return log


def checked_positions(count):
  return sorted(set([count - 1, count - 2, (2 * count) // 3]))


def grid_case(target, nr, nrho=None, fp_timeout_s=60, exact_points=False):
  """exact_points: the property pins the evaluation point as (i*cutoff)/(nr-1) (GULP): the Float64 term of every checked point must
  be that term (structurally, or no Float64 cutoff tells them apart)."""
  nrho = nrho or nr
  res = new_result("evaluation points under floating point: %s nr=%d" % (target, nr))
  spec = grid_spec(target, nr, nrho)
  shims.install(extra_globals={m.__name__: dict(float=fpalg.sfloat, int=fpalg.sint) for m in shims.repo_modules()})
  suspicious = []
  count_from_floats = False
  try:
    # ---- stage 1: rounding-error model, all cutoffs
    ex = core.Explorer(max_paths=4, max_seconds=120)
    for p in ex.iter_paths(lambda: run_symbolic(target, nr, nrho, "err"), catch=(Exception,)):
      if p.aborted and "concrete count" in str(p.aborted):
        # an integer that depends on floating-point arithmetic is used as a row count / loop bound
        count_from_floats = True
        continue
      if p.exc is not None or p.aborted:
        res["harness_errors"].append("rounding-error run ended: %r %r" % (p.exc, p.aborted))
        continue
      per = {}
      for (name, x) in p.value:
        per.setdefault(name, []).append(x)
      for kind, (first, count, div, which) in spec.items():
        xs = per.get(kind, [])[:count]
        if len(xs) < count:
          res["violations"].append(dict(key="fpgrid-count-%s" % target, desc="%s function evaluated %d times, %d grid points expected" % (kind, len(xs), count)))
          continue
        cut = z3.Real("cutoff" if which == "r" else "cutoff_rho")
        for k in reversed(checked_positions(count)):
          i = first + k
          if i == 0:
            continue
          if any(sk == kind for (sk, _a, _b, _c) in suspicious):
            break      # one position of this kind is already handed to the bit-precise search
          exact = rv(i) * cut / rv(div)
          t = term(xs[k])
          s = z3.Solver()
          s.set("timeout", 10000)
          for cnd in p.pc:
            s.add(cnd)
          tol = rv(TOL_U) * U
          s.add(z3.Not(z3.And(t - exact <= tol * exact, exact - t <= tol * exact)))
          r = s.check()
          res["vcs"] += 1
          res["queries"] += 1
          res[str(r)] += 1
          if r != z3.unsat:
            suspicious.append((kind, k, i, str(r)))
    res["paths"] += ex.stats["paths"]
    res["decisions"] += ex.stats["decisions"]
    if len(res["samples"]) < 2:
      res["samples"].append(dict(vc="|arg_i - i*step| <= %d*2^-53*i*step under the (1+e) model" % TOL_U, positions={k: checked_positions(v[1]) for k, v in spec.items()},
                                 not_shown=[(a, b) for (a, b, c_, d_) in suspicious]))
    # vacuity guard (negative twin): a running sum of nr steps must NOT be provable within the bound
    res["negatives"] += 1
    ex2 = core.Explorer(max_paths=2)
    for p in ex2.iter_paths(lambda: _running_sum(nr)):
      s = z3.Solver()
      s.set("timeout", 20000)
      for cnd in p.pc:
        s.add(cnd)
      exact = rv(nr) * z3.Real("step")
      s.add(z3.Not(z3.And(term(p.value) - exact <= rv(TOL_U) * U * exact, exact - term(p.value) <= rv(TOL_U) * U * exact)))
      if s.check() != z3.unsat:
        res["negatives_ok"] += 1
    if count_from_floats:
      found_c = _count_witness(target, nr, nrho, fp_timeout_s, res)
      if found_c is not None:
        confirmed, desc, rec = found_c
        res["replays"] += 1
        if confirmed:
          res["violations"].append(dict(key="fpgrid-count-%s" % target, desc=desc, record=rec))
        else:
          res["inconclusive"].append("row count derived from floats: Float64 witness did not show in the written table (%s)" % desc)
      else:
        res["inconclusive"].append("%s: a row count is derived from floating-point values; no Float64 witness for a wrong count was found within the budget" % target)
      return res
    if not suspicious and exact_points:
      hit = _exact_points(target, nr, nrho, spec, fp_timeout_s, res)
      if hit is not None:
        confirmed, desc, rec = hit
        res["replays"] += 1
        if confirmed:
          res["violations"].append(dict(key="fpgrid-exact-%s" % target, desc=desc, record=rec))
        else:
          res["inconclusive"].append("exact evaluation points: Float64 witness did not show in the written table (%s)" % desc)
      return res
    if not suspicious:
      return res
    # ---- stage 2: bit-precise witness search for the positions not shown to hold
    found = None
    for (kind, k, i, _st) in suspicious[:2]:
      first, count, div, which = spec[kind]
      ex3 = core.Explorer(max_paths=2, query_timeout_ms=2000, max_seconds=fp_timeout_s + 60)
      for p in ex3.iter_paths(lambda: run_symbolic(target, nr, nrho, "fp"), catch=(Exception,)):
        if p.exc is not None or p.aborted:
          continue
        xs = [x for (nm, x) in p.value if nm == kind][:count]
        cut = z3.FP("cutoff" if which == "r" else "cutoff_rho", fpalg.F64)
        step = z3.fpDiv(fpalg.RNE, cut, fpalg.fpv(float(div)))
        ref = z3.fpMul(fpalg.RNE, fpalg.fpv(float(i)), step)
        arg = xs[k].t
        s = z3.SolverFor("QF_FP")
        s.set("timeout", int(fp_timeout_s * 1000))
        for cnd in p.pc:
          s.add(cnd)
        diff = z3.fpAbs(z3.fpSub(fpalg.RNE, arg, ref))
        s.add(z3.fpGT(diff, z3.fpMul(fpalg.RNE, fpalg.fpv((TOL_U - 2) * 2.0 ** -53), ref)))
        r = s.check()
        res["queries"] += 1
        res["vcs"] += 1
        res[str(r)] += 1
        if r == z3.sat:
          m = s.model()
          v = m.eval(cut, model_completion=True)
          found = (kind, k, i, which, float(z3.simplify(z3.fpToReal(v)).as_fraction()))
          break
      if found:
        break
    if not found:
      res["inconclusive"].append("evaluation points of %s: the rounding-error model could not bound positions %s and the Float64 search found no witness" % (
        target, [(a, c_) for (a, b, c_, d_) in suspicious]))
      return res
  finally:
    shims.uninstall()
  kind, k, i, which, cv = found
  confirmed, desc, rec = replay_grid(target, nr, nrho, kind, which, cv)
  res["replays"] += 1
  if confirmed:
    res["violations"].append(dict(key="fpgrid-%s-%s" % (target, kind), desc=desc, witness=dict(cutoff=cv, index=i), record=rec))
  else:
    res["inconclusive"].append("Float64 witness %s=%r for %s did not show in the written table (%s)" % ("cutoff" if which == "r" else "cutoff_rho", cv, target, desc))
  return res


def _exact_points(target, nr, nrho, spec, fp_timeout_s, res):
  """(shims installed by the caller) Float64 run; each checked evaluation point against fpDiv(fpMul(i, cutoff), nr-1)"""
  ex = core.Explorer(max_paths=2, query_timeout_ms=2000, max_seconds=fp_timeout_s + 60)
  for p in ex.iter_paths(lambda: run_symbolic(target, nr, nrho, "fp"), catch=(Exception,)):
    if p.exc is not None or p.aborted:
      continue
    for kind, (first, count, div, which) in spec.items():
      xs = [x for (nm, x) in p.value if nm == kind][:count]
      cut = z3.FP("cutoff" if which == "r" else "cutoff_rho", fpalg.F64)
      for k in sorted(set([1, 3, count // 2, count - 2, count - 1])):
        i = first + k
        if i <= 0 or k >= len(xs) or not hasattr(xs[k], "t"):
          continue
        ref = z3.fpDiv(fpalg.RNE, z3.fpMul(fpalg.RNE, fpalg.fpv(float(i)), cut), fpalg.fpv(float(div)))
        arg = xs[k].t
        res["vcs"] += 1
        if z3.simplify(arg).eq(z3.simplify(ref)):
          res["unsat"] += 1
          continue
        s = z3.SolverFor("QF_FP")
        s.set("timeout", int(min(fp_timeout_s, 30) * 1000))
        for cnd in p.pc:
          s.add(cnd)
        s.add(z3.Not(z3.fpEQ(arg, ref)))
        r = s.check()
        res["queries"] += 1
        res[str(r)] += 1
        if r != z3.sat:
          continue      # (unsat, or not decided within the budget: the tolerance stage above stands)
        cv = float(z3.simplify(z3.fpToReal(s.model().eval(cut, model_completion=True))).as_fraction())
        return replay_exact(target, nr, nrho, kind, k, i, div, which, cv)
  return None


def replay_exact(target, nr, nrho, kind, k, i, div, which, cv):
  """Concrete: a potential stepping exactly at (i*cutoff)/(nr-1); the row for that point must hold the value at the step"""
  from atsim.potentials import Potential
  from atsim.potentials import pair_tabulation as pt
  from readers import pairtables
  if target != "GULP":
    return False, "exact mode is defined for GULP only", dict()
  ref = (i * cv) / float(div)
  log = []
  make(target, nr, nrho, cv, 50.0, log).write(io.StringIO())
  x = [a for (nm, a) in log if nm == kind][k]
  if x == ref:
    return False, "evaluation point equals (i*cutoff)/(nr-1) for cutoff %r" % cv, dict(cutoff=cv)
  edge = ref if x < ref else math.nextafter(ref, math.inf)
  out = io.StringIO()
  pt.GULP_PairTabulation([Potential("A", "B", Step(edge))], cv, nr).write(out)
  got = pairtables.read_gulp_spline(out.getvalue())[0]["rows"][k][0]
  want = Step(edge)(ref)
  return (abs(got - want) > 1e-6, "GULP table, cutoff %r, nr %d: row %d stands for r = %d*cutoff/(nr-1) = %r, where the potential (a step at %r) is %r; the table holds %r "
          "because the function was evaluated at %r" % (cv, nr, k + 1, i, ref, edge, want, got, x), dict(cutoff=cv, nr=nr, row=k + 1, evaluated_at=x, grid_point=ref))


def _count_witness(target, nr, nrho, fp_timeout_s, res):
  """Float64 run up to the point where the float-derived integer is used as a count; z3 searches a cutoff for which it is none of the declared sizes.
  (Run with a small row count: whether x/(x/n) can round below n depends on n; for n = 7 z3 finds a witness in under a minute, for n = 40 none exists.)"""
  nr = nrho = 8
  fp_timeout_s = max(fp_timeout_s, 120)
  core.LAST_SYMBOLIC_COUNT = None
  ex = core.Explorer(max_paths=2, query_timeout_ms=2000, max_seconds=fp_timeout_s + 60)
  for p in ex.iter_paths(lambda: run_symbolic(target, nr, nrho, "fp"), catch=(Exception,)):
    t = core.LAST_SYMBOLIC_COUNT
    if t is None or not p.aborted:
      continue
    if not z3.is_bv(t):
      return None
    s = z3.SolverFor("QF_FPBV")
    s.set("timeout", int(fp_timeout_s * 1000))
    for cnd in p.pc:
      s.add(cnd)
    for legit in set([nr, nr - 1, nrho, nrho - 1, nr - 4]):
      s.add(t != z3.BitVecVal(legit, 64))
    r = s.check()
    res["queries"] += 1
    res["vcs"] += 1
    res[str(r)] += 1
    if r != z3.sat:
      return None
    m = s.model()
    cv = float(z3.simplify(z3.fpToReal(m.eval(z3.FP("cutoff", fpalg.F64), model_completion=True))).as_fraction())
    crv = float(z3.simplify(z3.fpToReal(m.eval(z3.FP("cutoff_rho", fpalg.F64), model_completion=True))).as_fraction())
    # replay: count the evaluations of the concrete run
    log = []
    make(target, nr, nrho, cv, crv, log).write(io.StringIO())
    spec = grid_spec(target, nr, nrho)
    bad = []
    for kind, (first, count, div, which) in spec.items():
      n = len([1 for (nm, x) in log if nm == kind])
      per_fn = n // max(1, len(set(nm for (nm, x) in log if nm == kind)))
      if n % count != 0:
        bad.append("%s functions were evaluated %d times in total, a table of %d rows per function was asked for" % (kind, n, count))
    return (bool(bad), "%s with cutoff %r, nr %d: %s" % (target, cv, nr, "; ".join(bad) or "row counts as declared"), dict(cutoff=cv, cutoff_rho=crv, nr=nr))
  return None


def _running_sum(n):
  st = z3.Real("step")
  core.cur().assume(st > 0)
  acc = 0.0
  s = fpalg.SErr(st)
  for _ in range(n):
    acc = acc + s
  return acc


class Step(object):
  """1 below the exact grid point, 0 from it on (what '>=x as.zero' does)"""

  def __init__(self, edge):
    self.edge = edge

  def __call__(self, x):
    return 1.0 if x < self.edge else 0.0

  def deriv(self, x):
    return 0.0


def replay_grid(target, nr, nrho, kind, which, value):
  """Concrete: with the witness cutoff, find the rows whose evaluation point is not the grid point i*step and show it in the
  written table with a potential that steps exactly at that grid point."""
  cutoff, cutoff_rho = (value, 50.0) if which == "r" else (6.0, value)
  log = []
  make(target, nr, nrho, cutoff, cutoff_rho, log).write(io.StringIO())
  first, count, div, _w = grid_spec(target, nr, nrho)[kind]
  xs = [x for (nm, x) in log if nm == kind][:count]
  c = cutoff if which == "r" else cutoff_rho
  step = c / float(div)
  worst = None
  for k, x in enumerate(xs):
    ref = (first + k) * step
    if ref and x < ref and (worst is None or (ref - x) / ref > worst[2]):
      worst = (k, ref, (ref - x) / ref, x)
  if worst is None:
    for k, x in enumerate(xs):
      ref = (first + k) * step
      if ref and x != ref and (worst is None or abs(ref - x) / ref > worst[2]):
        worst = (k, ref, abs(ref - x) / ref, x)
  if worst is None:
    return False, "every evaluation point equals i*step for %r" % c, dict(cutoff=cutoff, cutoff_rho=cutoff_rho)
  k, ref, rel, x = worst
  edge = ref if x < ref else math.nextafter(ref, math.inf)
  # tabulate a step at the exact grid point and read the row back
  from atsim.potentials import Potential
  from atsim.potentials import pair_tabulation as pt
  from readers import pairtables
  if target in ("LAMMPS", "DL_POLY", "GULP"):
    cls = dict(LAMMPS=pt.LAMMPS_PairTabulation, DL_POLY=pt.DLPoly_PairTabulation, GULP=pt.GULP_PairTabulation)[target]
    out = io.StringIO()
    cls([Potential("A", "B", Step(edge))], cutoff, nr).write(out)
    if target == "LAMMPS":
      got = pairtables.read_lammps_table(out.getvalue())[0]["rows"][k][2]
    elif target == "DL_POLY":
      got = pairtables.read_dlpoly_table(out.getvalue())["blocks"][0]["energies"][k]
    else:
      got = pairtables.read_gulp_spline(out.getvalue())[0]["rows"][k][0]
    want = Step(edge)(ref)
    bad = abs(got - want) > 1e-6
    return bad, "%s table, cutoff %r, nr %d: row %d stands for r = %d*step = %r, where the potential (a step at %r) is %r; the table holds %r because the function was evaluated at %r (%.1f ulps off)" % (
      target, cutoff, nr, k + 1, first + k, ref, edge, want, got, x, rel / 2.0 ** -52), dict(cutoff=cutoff, nr=nr, row=k + 1, evaluated_at=x, grid_point=ref)
  return (rel > TOL_U * 2.0 ** -53), "%s: %s function evaluated at %r instead of the grid point %r (%.1f ulps)" % (target, kind, x, ref, rel / 2.0 ** -52), dict(cutoff=cutoff, cutoff_rho=cutoff_rho)
