"""C12 Tabulation is deterministic; evaluation is pure (no history/process dependence)."""
import ast
import inspect
import io
import logging
import os
import subprocess
import sys
import tempfile

import z3

from symx import core, shims, exprstub
from symx.core import sym, assume, uf, rv, term
from symx.harness import explore_and_check, Structural, T, Sink
from symx.run import Case, new_result
from symx.vc import VC, eq_formula
from checks import common, c09

ID = "C12"
META = dict(
  functions=["config._cexprtk_potential_function._Cexptrk_Potential_Function (symbol table re-binding)", "config._potential_form_registry.Potential_Form_Registry",
             "config._eam_potential_builder.EAM_Potential_Builder/EAM_Potential_Builder_FS (_add_null_embedding_functions/_add_null_density_functions/_init_eampotentials)",
             "config._pair_potential_builder (cached _potlist)", "pair_tabulation.Excel_PairTabulation.workbook / eam_tabulation.Excel_EAMTabulation.workbook (caches)",
             "all tabulation classes' write()", "referencedata.Reference_Data", "config.ConfigParser / FilteredConfigParser default arguments", "config.Configuration.read"],
  bounds=dict(quick=dict(purity="8 custom-form models: every variable of every form's symbol table holds an arbitrary (symbolic) left-over value before the evaluation; "
                         "two evaluation points; evaluation of two potentials in either order",
                         set_order="3 species plain EAM and Finnis-Sinclair models with 0..2 zero-filled species: every iteration order of every set (one symbolic permutation per distinct set) - all 7 EAM targets",
                         repeats="write twice / build twice / another model in between, uninterpreted functions, nr=nrho=3"),
              thorough=dict(purity="as quick with three evaluation points", set_order="as quick plus 4 species", repeats="nr in {3,5}")),
  stubs=["builtin set in config._eam_potential_builder -> a set whose iteration order is a symbolic permutation chosen per distinct content",
         "cexprtk -> symx/exprstub.py (validated against the real cexprtk on every run)"],
  outside=["wall-clock fields of the .xlsx container (zip member times, docProps/core.xml): the clock is not among the property's quantifiers; Excel is compared at cell level",
           "set displays / comprehensions would not be seen by the set stub: the analysed modules are scanned for them on every run"],
  assumptions=["within one process equal sets iterate in the same order"],
  explanation="purity is shown as an inductive step: from an arbitrary pre-state of the per-form symbol tables the value at r does not depend on the pre-state; "
              "hash-order independence: the element order and the bytes of every EAM target must be the same on every path of the symbolic permutations",
  max_inconclusive=dict(quick=0, thorough=0),
)

R = core.R


# ---------------------------------------------------------------------------
# (a) purity of evaluation

def _all_cexprtk_functions(pfr):
  out = []
  for lbl in pfr.registered:
    pf = pfr[lbl]
    f = getattr(pf, "potential_function", None)
    if f is not None and hasattr(f, "_local_symbol_table"):
      out.append((lbl, f))
  return out


def purity_case(name, npoints):
  from atsim.potentials.config import ConfigParser
  from atsim.potentials.config._potential_form_registry import Potential_Form_Registry
  from atsim.potentials.config._modifier_registry import Modifier_Registry
  from atsim.potentials.config._pair_potential_builder import Pair_Potential_Builder
  res = new_result("purity: %s (%d evaluation points)" % (name, npoints))
  bad = exprstub.validate()
  if bad:
    res["harness_errors"].append("cexprtk stub disagrees with the real cexprtk: %s" % "; ".join(bad[:3]))
    return res
  forms, pair = c09.CUSTOM[name]
  import re
  tags = sorted(set(float(x) for x in re.findall(r"10\d\.0", pair)))
  # two pair potentials using the same forms with different arguments
  pair2 = pair
  for t in tags:
    pair2 = pair2.replace(repr(t), repr(t + 50.0))
  text = "[Tabulation]\ntarget : LAMMPS\n\n[Pair]\nA-B : %s\nC-D : %s\n\n[Potential-Form]\n%s\n" % (pair, pair2, "\n".join("%s = %s" % f for f in forms))
  cp = ConfigParser(io.StringIO(text))
  alltags = tags + [t + 50.0 for t in tags]
  shims.install(extra_globals={"atsim.potentials.config._cexprtk_potential_function": dict(cexprtk=exprstub)})

  def fn():
    rs = [sym("r%d" % i) for i in range(npoints)]
    for r in rs:
      assume(r > 0)
    tab = {t: sym("p%d" % int(t - 100)) for t in alltags}
    for t in tab.values():
      assume(t > 0)
    scp = c09._SubstParser(cp, tab)
    pfr = Potential_Form_Registry(scp, register_standard=True, register_pymath_functions=True)
    pots = Pair_Potential_Builder(scp, pfr, Modifier_Registry()).potentials
    pA, pB = pots[0], pots[1]
    funcs = _all_cexprtk_functions(pfr)
    hist = [0]

    def scramble(tagname):
      # an arbitrary history: every variable of every form's symbol table holds some left-over value
      for lbl, f in funcs:
        for vn in list(f._local_symbol_table.variables.keys()):
          hist[0] += 1
          dict.__setitem__(f._local_symbol_table.variables, vn, sym("%s_%d" % (tagname, hist[0])))
    out = {}
    scramble("h")
    out["A_first"] = [term(pA.energy(r)) for r in rs]
    scramble("h")
    out["B_then"] = [term(pB.energy(r)) for r in rs]
    scramble("g")
    out["B_first"] = [term(pB.energy(r)) for r in reversed(rs)][::-1]
    out["A_then"] = [term(pA.energy(r)) for r in reversed(rs)][::-1]
    # interleaved
    scramble("k")
    out["A_inter"], out["B_inter"] = [], []
    for r in rs:
      out["A_inter"].append(term(pA.energy(r)))
      out["B_inter"].append(term(pB.energy(r)))
    # specification: the formula with explicitly bound parameters
    fspec = c09.spec_functions(forms)
    sA = c09.spec_definition(cp.pair[0].potential_form_instance, fspec, tab)
    sB = c09.spec_definition(cp.pair[1].potential_form_instance, fspec, tab)
    out["A_spec"] = [term(sA(r)) for r in rs]
    out["B_spec"] = [term(sB(r)) for r in rs]
    return out

  def build(path, wrong=False):
    if path.exc is not None:
      raise Structural("exception", "%s: %s" % (type(path.exc).__name__, str(path.exc)[:300]))
    v = path.value
    vcs = []
    for who in ("A", "B"):
      for i in range(npoints):
        want = v[who + "_spec"][i]
        if wrong and who == "A" and i == 0:
          want = want + 1
        for hist in ("first", "then", "inter"):
          k = "%s_%s" % (who, hist)
          if k in v:
            vcs.append(VC("%s[%d]" % (k, i), eq_formula(v[k][i], want), info=dict(key="purity-%s" % name)))
    return vcs

  def replay(vc_, w, path, structural):
    c, d, rec = common.in_fresh_process("checks.c12", "replay_purity", name)
    return bool(c), d, rec

  try:
    explore_and_check(res, fn, build, replay=replay, negative=lambda p: build(p, wrong=True), use_exp_axioms=True, vc_timeout_ms=30000,
                      explorer_kw=dict(max_paths=600))
  finally:
    shims.uninstall()
  return res


def replay_purity(name):
  """Concrete (real cexprtk): energies of two potentials sharing forms, evaluated
  in different orders and interleavings, must agree with a fresh evaluation."""
  from atsim.potentials.config import Configuration
  import re
  forms, pair = c09.CUSTOM[name]
  tags = sorted(set(float(x) for x in re.findall(r"10\d\.0", pair)))
  p1, p2 = pair, pair
  for i, t in enumerate(tags):
    p1 = p1.replace(repr(t), repr(0.8 + 0.45 * i))
    p2 = p2.replace(repr(t), repr(2.1 - 0.3 * i))
  text = "[Tabulation]\ntarget : LAMMPS\n\n[Pair]\nA-B : %s\nC-D : %s\n\n[Potential-Form]\n%s\n" % (p1, p2, "\n".join("%s = %s" % f for f in forms))
  rs = [0.5, 1.0, 1.75, 2.5]

  def fresh():
    return Configuration().read(io.StringIO(text)).potentials
  a, b = fresh()
  refA = [a.energy(r) for r in rs]
  a, b = fresh()
  refB = [b.energy(r) for r in rs]
  bad = []
  a, b = fresh()
  gotB = [b.energy(r) for r in reversed(rs)][::-1]
  gotA = [a.energy(r) for r in rs]
  if gotA != refA or gotB != refB:
    bad.append("evaluating C-D before A-B changes values: %r vs %r / %r vs %r" % (gotA, refA, gotB, refB))
  a, b = fresh()
  ia, ib = [], []
  for r in rs:
    ib.append(b.energy(r))
    ia.append(a.energy(r))
    ia[-1] = a.energy(r)
  if ia != refA or ib != refB:
    bad.append("interleaved evaluation changes values: %r vs %r / %r vs %r" % (ia, refA, ib, refB))
  return (bool(bad), "; ".join(bad) or "orders and interleavings agree for %s" % name, dict(kind="purity", model=text))


# ---------------------------------------------------------------------------
# (b) iteration order of sets

class SymSet(object):
  """A set whose iteration order is a symbolic permutation (one per distinct
  content per run), explored path by path."""

  def __init__(self, it=()):
    self._items = []
    for x in it:
      self.add(x)

  def add(self, x):
    if x not in self._items:
      self._items.append(x)

  def __contains__(self, x):
    return x in self._items

  def __len__(self):
    return len(self._items)

  def __bool__(self):
    return bool(self._items)

  def _order(self):
    run = core.cur()
    memo = run.__dict__.setdefault("set_orders", {})
    key = frozenset(self._items)
    if key not in memo:
      remaining = sorted(self._items, key=repr)
      out = []
      while remaining:
        idx = len(remaining) - 1
        for i in range(len(remaining) - 1):
          n = run.__dict__.setdefault("nperm", 0)
          run.__dict__["nperm"] = n + 1
          if run.decide(z3.Bool("perm_%d" % n)):
            idx = i
            break
        out.append(remaining.pop(idx))
      memo[key] = out
    return list(memo[key])

  def __iter__(self):
    return iter(self._order())

  def _bin(self, o, f):
    o = list(o)
    return SymSet(f(self._items, o))

  def __or__(self, o): return self._bin(o, lambda a, b: a + [x for x in b if x not in a])
  def __and__(self, o): return self._bin(o, lambda a, b: [x for x in a if x in b])
  def __sub__(self, o): return self._bin(o, lambda a, b: [x for x in a if x not in b])
  def __xor__(self, o): return self._bin(o, lambda a, b: [x for x in a if x not in b] + [x for x in b if x not in a])
  __ror__ = __or__

  def __eq__(self, o):
    return frozenset(self._items) == frozenset(o)

  __hash__ = None


SET_MODULES = ["atsim.potentials.config._eam_potential_builder"]
ORDER_SENSITIVE_MODULES = ["atsim.potentials.config._eam_potential_builder", "atsim.potentials.config._pair_potential_builder",
                           "atsim.potentials.config._tabulation_factories", "atsim.potentials.config._potential_form_registry",
                           "atsim.potentials._lammpsWriteEAM", "atsim.potentials._dlpoly_writeTABEAM", "atsim.potentials.eam_tabulation",
                           "atsim.potentials.pair_tabulation", "atsim.potentials._lammps_writeTABLE", "atsim.potentials._dlpoly_writeTABLE"]


def _set_uses_ok(tree):
  """set()/frozenset() results are harmless when they are only ever tested for membership, sorted, or
  combined into other such sets: returns the list of (lineno, reason) where that cannot be established."""
  bad = []
  parents = {}
  for node in ast.walk(tree):
    for ch in ast.iter_child_nodes(node):
      parents[ch] = node

  def target_name(call):
    par = parents.get(call)
    if isinstance(par, ast.Assign) and len(par.targets) == 1:
      t = par.targets[0]
      if isinstance(t, ast.Name):
        return t.id
      if isinstance(t, ast.Attribute):
        return t.attr
    if isinstance(par, ast.Return):
      return "<returned>"
    return None

  names = set()
  for node in ast.walk(tree):
    if isinstance(node, (ast.Set, ast.SetComp)):
      bad.append((node.lineno, "set display/comprehension"))
    if isinstance(node, ast.Call) and isinstance(node.func, ast.Name) and node.func.id in ("set", "frozenset"):
      n = target_name(node)
      if n is None:
        par = parents.get(node)
        # set(...) used directly as the right operand of `in`, or inside sorted(...)
        if isinstance(par, ast.Compare) or (isinstance(par, ast.Call) and isinstance(par.func, ast.Name) and par.func.id == "sorted"):
          continue
        bad.append((node.lineno, "%s() whose result is not bound to a name" % node.func.id))
      else:
        names.add(n)
  for node in ast.walk(tree):
    nm = node.id if isinstance(node, ast.Name) else (node.attr if isinstance(node, ast.Attribute) else None)
    if nm in names and isinstance(getattr(node, "ctx", None), ast.Load):
      par = parents.get(node)
      ok = False
      if isinstance(par, ast.Compare) and all(isinstance(o, (ast.In, ast.NotIn)) for o in par.ops) and node in par.comparators:
        ok = True
      if isinstance(par, ast.Call) and isinstance(par.func, ast.Name) and par.func.id in ("sorted", "len") and node in par.args:
        ok = True
      if isinstance(par, ast.Attribute) and par.attr in ("add", "update", "discard"):
        ok = True
      if isinstance(par, ast.Return):
        ok = True    # returned sets are bound (and checked) at the call site's name
      if not ok:
        bad.append((node.lineno, "set '%s' used other than for membership/sorted()" % nm))
  return bad


def scan_for_set_syntax():
  """sets outside the stubbed module whose iteration order could reach the output"""
  found = []
  for mn in ORDER_SENSITIVE_MODULES:
    if mn in SET_MODULES:
      continue
    mod = sys.modules.get(mn) or __import__(mn, fromlist=["x"])
    tree = ast.parse(inspect.getsource(mod))
    for (ln, why) in _set_uses_ok(tree):
      found.append("%s:%d %s" % (mn, ln, why))
  return found


EAM_TEXT = """[Tabulation]
target : %(target)s
cutoff : 6.0
nr : 3
cutoff_rho : 5.0
nrho : 3

[EAM-Embed]
%(embed)s

[EAM-Density]
%(density)s

[Pair]
Al-Al : as.buck 1000.0 0.3 10.0
Al-Cu : as.buck 800.0 0.31 5.0

[Species]
Xx.atomic_number : 120
Xx.atomic_mass : 300.0
"""
ADP_EXTRA = "\n[EAM-ADP-Dipole]\nAl-Al : as.polynomial 0 0.1\n\n[EAM-ADP-Quadrupole]\nAl-Al : as.polynomial 0 0.2\n"

EAM_MODELS = {
  # embed for one species, densities for three: two species get zero embedding functions
  "two-zero-filled": dict(embed="Al : as.polynomial 0 1", density="Al : as.polynomial 0 0.5\nCu : as.polynomial 0 0.25\nFe : as.polynomial 0 0.125", fs=False),
  "one-zero-filled": dict(embed="Al : as.polynomial 0 1\nCu : as.polynomial 0 2", density="Al : as.polynomial 0 0.5\nCu : as.polynomial 0 0.25\nFe : as.polynomial 0 0.125", fs=False),
  "fully-specified": dict(embed="Fe : as.polynomial 0 3\nAl : as.polynomial 0 1\nCu : as.polynomial 0 2", density="Cu : as.polynomial 0 0.25\nFe : as.polynomial 0 0.125\nAl : as.polynomial 0 0.5", fs=False),
  "fs-two-zero-filled": dict(embed="Al : as.polynomial 0 1", density="Al->Al : as.polynomial 0 0.5\nAl->Cu : as.polynomial 0 0.25\nFe->Al : as.polynomial 0 0.125", fs=True),
  "fs-one-zero-filled": dict(embed="Al : as.polynomial 0 1\nFe : as.polynomial 0 3", density="Al->Al : as.polynomial 0 0.5\nAl->Cu : as.polynomial 0 0.25\nFe->Al : as.polynomial 0 0.125", fs=True),
  "four-species": dict(embed="Al : as.polynomial 0 1", density="Al : as.polynomial 0 0.5\nCu : as.polynomial 0 0.25\nFe : as.polynomial 0 0.125\nNi : as.polynomial 0 0.1", fs=False),
}


def eam_model_text(model, target):
  m = EAM_MODELS[model]
  t = EAM_TEXT % dict(target=target, embed=m["embed"], density=m["density"])
  if target == "eam_adp":
    t += ADP_EXTRA
  return t


def targets_for(model):
  return ["setfl_fs", "DL_POLY_EAM_fs", "excel_eam_fs"] if EAM_MODELS[model]["fs"] else ["setfl", "DL_POLY_EAM", "excel_eam", "eam_adp"]


def _write_bytes(tab):
  if tab.target.startswith("excel"):
    # the file actually written, read back with openpyxl (the container's clock fields are outside the claim)
    import openpyxl
    buf = io.BytesIO()
    tab.write(buf)
    buf.seek(0)
    wb = openpyxl.load_workbook(buf)
    out = []
    for ws in wb.worksheets:
      out.append((ws.title, [[c.value for c in row] for row in ws.iter_rows()]))
    return repr(out)
  s = io.StringIO()
  tab.write(s)
  return s.getvalue()


def setorder_case(model, target):
  from atsim.potentials.config import ConfigParser, Configuration
  res = new_result("set iteration order: %s -> %s" % (model, target))
  found = scan_for_set_syntax()
  if found:
    res["inconclusive"].append("set syntax the stub cannot see: %s" % "; ".join(found[:4]))
  text = eam_model_text(model, target)
  import logging
  logging.disable(logging.CRITICAL)
  shims.install(extra_globals={m: dict(set=SymSet) for m in SET_MODULES})
  outputs = {}
  try:
    def fn():
      tab = Configuration().read(io.StringIO(text))
      order = [p.species for p in tab.eam_potentials]
      return order, _write_bytes(tab)
    ex = core.Explorer(max_paths=800, max_seconds=200)
    for p in ex.iter_paths(fn, catch=(Exception,)):
      if p.exc is not None or p.aborted:
        res["harness_errors"].append("path ended: %r %r" % (p.exc, p.aborted))
        continue
      order, data = p.value
      outputs.setdefault(data, []).append(tuple(order))
    res["paths"] += ex.stats["paths"]
    res["decisions"] += ex.stats["decisions"]
    res["queries"] += ex.stats["feasibility_queries"]
    res["solver_s"] += ex.stats["solver_s"]
    if ex.stats["truncated"]:
      res["inconclusive"].append("exploration budget exhausted after %d paths" % ex.stats["paths"])
  finally:
    shims.uninstall()
    logging.disable(logging.NOTSET)
  res["vcs"] += 1
  res["samples"].append(dict(vc="all iteration orders give one output", distinct_outputs=len(outputs), paths=res["paths"],
                             element_orders=sorted(set("/".join(o) for v in outputs.values() for o in v))))
  # vacuity guard: the permutations really were explored (more than one path unless no set has >= 2 elements)
  res["negatives"] += 1
  if res["paths"] > 1 or model == "none":
    res["negatives_ok"] += 1
  if len(outputs) <= 1:
    res["unsat"] += 1
    return res
  res["sat"] += 1
  orders = sorted(set("/".join(o) for v in outputs.values() for o in v))
  # replay: fresh processes under different hash seeds
  seen = {}
  for seed in range(0, 24):
    r = common.in_fresh_process("checks.c12", "potable_bytes", text, hashseed=seed)
    res["replays"] += 1
    seen.setdefault(r["digest"], []).append(seed)
    if len(seen) > 1:
      break
  if len(seen) > 1:
    res["violations"].append(dict(key="hash-order-%s-%s" % (model, target),
                                  desc="the %s output of model '%s' depends on set iteration order: element orders %s; potable gives different bytes under PYTHONHASHSEED %s" % (
                                    target, model, orders, {k[:8]: v for k, v in seen.items()}), record=dict(kind="hashseed", model=text)))
  else:
    # same element order on every path, yet different bytes: not the set order but what earlier builds of this process left behind
    r = common.in_fresh_process("checks.c12", "rebuild_digests", text, 8)
    res["replays"] += 1
    if len(set(r["digests"])) > 1:
      res["violations"].append(dict(key="rebuild-%s-%s" % (model, target),
                                    desc="building, writing and dropping the %s model '%s' %d times in one process gives %d different outputs (first differing build: #%d)" % (
                                      target, model, len(r["digests"]), len(set(r["digests"])), 1 + [d != r["digests"][0] for d in r["digests"]].index(True)),
                                    record=dict(kind="rebuild", model=text)))
    else:
      res["inconclusive"].append("symbolic set orders give %d outputs (%s) but 24 hash seeds gave identical bytes" % (len(outputs), orders))
  return res


def rebuild_digests(text, n):
  """Fresh process: the model is built, written and dropped n times, alternating with a copy that has other numbers."""
  import gc
  import hashlib
  import re as _re
  import logging
  from atsim.potentials.config import Configuration
  logging.disable(logging.CRITICAL)
  lines, body = [], False
  for line in text.split("\n"):
    if line.startswith("["):
      body = not (line.startswith("[Tabulation") or line.startswith("[Species"))
    if body and not line.startswith("["):
      line = _re.sub(r"(?<![\w.>=])(\d+\.\d+)", lambda m: repr(float(m.group(1)) * 1.5), line)
    lines.append(line)
  sibling = "\n".join(lines)
  out = []
  for i in range(n):
    t = Configuration().read(io.StringIO(text))
    out.append(hashlib.sha256(_write_bytes(t).encode("utf-8")).hexdigest())
    del t
    gc.collect()
    t = Configuration().read(io.StringIO(sibling))
    _write_bytes(t)
    del t
    gc.collect()
  return dict(digests=out)


def potable_bytes(text):
  """Fresh process: tabulate `text` with the real potable code path, return a digest of the output."""
  import hashlib
  from atsim.potentials.config import Configuration
  import logging
  logging.disable(logging.CRITICAL)
  tab = Configuration().read(io.StringIO(text))
  data = _write_bytes(tab)
  order = [p.species for p in tab.eam_potentials] if hasattr(tab, "eam_potentials") else []
  return dict(digest=hashlib.sha256(data.encode("utf-8")).hexdigest(), order=order)


# ---------------------------------------------------------------------------
# (c) repeated writes / builds / other models in between, shared defaults

def _defaults_state():
  from atsim.potentials.referencedata import Reference_Data
  from atsim.potentials.config import ConfigParser, FilteredConfigParser
  from atsim.potentials.config._eam_potential_builder import EAM_Potential_Builder
  return dict(reference_data=repr(Reference_Data.__init__.__defaults__),
              config_parser=repr(ConfigParser.__init__.__defaults__),
              filtered=repr(FilteredConfigParser.__init__.__defaults__),
              eam_builder_extra=repr(EAM_Potential_Builder.__init__.__defaults__[0].extra_data))


REPEAT_MODELS = {
  "pair": "[Tabulation]\ntarget : %(target)s\ncutoff : 6.0\nnr : %(nr)d\n\n[Pair]\nA-B : f 2.0 0.5\nB-B : sum(as.buck 1000.0 0.3 10.0, f 1.0 0.25)\n\n[Potential-Form]\nf(r, A, B) = A*exp(-r/B)\n",
  "eam": None,
}
OTHER_MODEL = "[Tabulation]\ntarget : %(target)s\ncutoff : 4.0\nnr : %(nr)d\n\n[Pair]\nA-B : f 3.0 0.75\nC-C : g 1.0\n\n[Potential-Form]\nf(r, A, B) = A/r + B\ng(r, Q) = f(r, Q, Q)\n\n[Table-Form:tab]\nx : 0 1 2 3 4\ny : 4 3 2 1 0\n"


def repeat_case(target, nr):
  """Concrete bytes (real cexprtk): write twice, build twice, build another model
  in between, custom forms sharing names - all within one process - and a fresh
  process under another hash seed."""
  from atsim.potentials.config import Configuration
  res = new_result("repeats %s nr=%d" % (target, nr))
  import logging
  logging.disable(logging.CRITICAL)
  try:
    if target in ("LAMMPS", "DLPOLY", "GULP", "excel"):
      text = REPEAT_MODELS["pair"] % dict(target=target, nr=nr if target != "DLPOLY" else 4 * nr)
      other = OTHER_MODEL % dict(target=target, nr=(nr + 1) if target != "DLPOLY" else 4 * nr + 4)
    else:
      model = "fs-one-zero-filled" if target.endswith("_fs") else "one-zero-filled"
      text = eam_model_text(model, target)
      other = eam_model_text("fully-specified" if not target.endswith("_fs") else "fs-two-zero-filled", target).replace("cutoff : 6.0", "cutoff : 7.5")
    if "[Species]" in other:
      other = other.replace("[Species]\n", "[Species]\nAl.atomic_mass : 99.5\nAl.lattice_constant : 9.25\nCu.atomic_number : 77\nFe.lattice_type : hcp\n")
    before = _defaults_state()
    t1 = Configuration().read(io.StringIO(text))
    b1 = _write_bytes(t1)

    def step(f):
      try:
        return f()
      except Exception as e:  # noqa  (the first write succeeded: a later failure is history dependence)
        return "raised %s: %s" % (type(e).__name__, e)
    b1again = step(lambda: _write_bytes(t1))
    t_other = Configuration().read(io.StringIO(other))
    step(lambda: _write_bytes(t_other))
    b1after = step(lambda: _write_bytes(t1))
    b2 = step(lambda: _write_bytes(Configuration().read(io.StringIO(text))))
    # a model of the same shape on the same grid, other numbers, built, written and dropped; then the model rebuilt
    import gc
    import re as _re
    lines, body = [], False
    for line in text.split("\n"):
      if line.startswith("["):
        body = not (line.startswith("[Tabulation") or line.startswith("[Species"))
      if body and not line.startswith("["):
        line = _re.sub(r"(?<![\w.>=])(\d+\.\d+)", lambda m: repr(float(m.group(1)) * 1.5), line)
      lines.append(line)
    sibling = "\n".join(lines)
    b3 = b1
    if sibling != text:
      def dropped():
        for _i in range(3):
          t_s = Configuration().read(io.StringIO(sibling))
          _write_bytes(t_s)
          del t_s
          gc.collect()
        return _write_bytes(Configuration().read(io.StringIO(text)))
      b3 = step(dropped)
    # evaluation order: energies queried backwards and forwards give the same numbers as a fresh object
    pots = getattr(t1, "potentials", [])
    rs = [0.0 + 0.75 * i for i in range(1, 8)]
    ev_fwd = step(lambda: [[p.energy(r) for r in rs] for p in pots])
    ev_back = step(lambda: [[p.energy(r) for r in reversed(rs)][::-1] for p in pots])
    ev_fresh = step(lambda: [[p.energy(r) for r in rs] for p in Configuration().read(io.StringIO(text)).potentials])
    # forces after a force evaluation that failed (r = 0 and negative separations: 1/r forms raise there) equal those of a fresh object
    def forces_after_failure():
      out = []
      for p in pots:
        for bad_r in (0.0, -1.0):
          try:
            p.force(bad_r)
          except Exception:  # noqa
            pass
        out.append([p.force(r) for r in rs])
      return out
    f_after = step(forces_after_failure)
    f_fresh = step(lambda: [[p.force(r) for r in rs] for p in Configuration().read(io.StringIO(text)).potentials])
    if target == "LAMMPS":
      # a potential whose analytic derivative is undefined over part of its range (pow with a base that turns negative): whether or
      # not a force was asked for there first, the forces elsewhere are the same
      ptxt = "[Tabulation]\ntarget : LAMMPS\ncutoff : 2.5\nnr : 6\n\n[Pair]\nA-A : pow(as.polynomial 3.0 -1.0, as.constant 3.0)\nA-B : sum(as.sqrt 2.0, as.polynomial 1.0 1.0)\n"

      def pow_forces(first_bad):
        out = []
        for p in Configuration().read(io.StringIO(ptxt)).potentials:
          if first_bad:
            for bad_r in (4.0, 3.0, 0.0):
              try:
                p.force(bad_r)
              except Exception:  # noqa
                pass
          out.append([p.force(r) for r in (0.5, 1.0, 1.75, 2.5)])
        return out
      g_after, g_fresh = step(lambda: pow_forces(True)), step(lambda: pow_forces(False))
    else:
      g_after = g_fresh = None
    after = _defaults_state()
    res["paths"] += 6
    res["replays"] += 6
    checks = [("writing the same tabulation twice", b1, b1again), ("writing after another model was built and written", b1, b1after),
              ("building the model a second time (another model in between)", b1, b2),
              ("building the model again after a same-shape, same-grid model with other numbers was built, written and dropped", b1, b3),
              ("evaluating the energies in descending instead of ascending order", ev_fwd, ev_back),
              ("evaluating on a used instead of a fresh object", ev_fresh, ev_fwd),
              ("a failed force evaluation (at r = 0) before the others", f_fresh, f_after),
              ("a force evaluation where the analytic derivative is undefined before the others", g_fresh, g_after)]
    for what, x, y in checks:
      if x != y:
        detail = y if isinstance(y, str) and y.startswith("raised") else ""
        res["violations"].append(dict(key="repeat-%s" % target, desc="%s changes the %s output %s" % (what, target, detail), record=dict(kind="repeat", model=text, other=other)))
        break
    if before != after:
      res["violations"].append(dict(key="shared-defaults", desc="shared default arguments were modified: %r -> %r" % (before, after)))
    # fresh process, other hash seed
    import hashlib
    d0 = hashlib.sha256(b1.encode("utf-8")).hexdigest()
    for seed in (1, 7):
      r = common.in_fresh_process("checks.c12", "potable_bytes", text, hashseed=seed)
      res["replays"] += 1
      if r["digest"] != d0:
        res["violations"].append(dict(key="process-%s" % target, desc="a fresh process with PYTHONHASHSEED=%d gives different %s output" % (seed, target),
                                      record=dict(kind="hashseed", model=text)))
        break
  finally:
    logging.disable(logging.NOTSET)
  return res


# parameter values whose hashes coincide in CPython (hash(-1) == hash(-2), hash(0.0) == hash(-0.0), hash(x) taken modulo 2**61-1)
# and ordinary ones: a model using one form twice with such values must give each entry its own function
TWIN_VALUES = [("-1.0", "-2.0"), ("-1", "-2"), ("1.0", "2305843009213693952.0"), ("0.5", "-0.5"), ("2", "2.0000000000000004"),
               ("3.0", "2305843009213693954.0"), ("1e-3", "1e3"), ("0.0", "-0.0")]
TWIN_FORMS = [("as.constant %s", "", lambda r, v: v), ("as.coul 1.0 %s", "", None), ("f 2.0 %s", "f(r, a, b) = a*b/r + b", lambda r, v: 2.0 * v / r + v),
              ("as.polynomial 0.0 %s", "", lambda r, v: v * r), ("sum(as.constant %s, f 1.0 %s)", "f(r, a, b) = a*b/r", lambda r, v: v + v / r)]


def _twin_energies(text):
  from atsim.potentials.config import Configuration
  tab = Configuration().read(io.StringIO(text))
  return dict(("%s-%s" % (p.speciesA, p.speciesB), [p.energy(r) for r in (0.5, 1.0, 2.75)]) for p in tab.potentials)


def twin_case():
  """One form used by two entries of a model whose parameter lists differ in one value: the energy of each
  entry equals what the entry gives when it is the only one in the file and the documented formula (concrete differential
  over the candidate values, both orders in the file; a history class the symbolic purity cases cannot reach because
  their parameters are symbols with distinct hashes)."""
  res = new_result("twin parametrisations of one form: %d value pairs x %d forms x 2 orders" % (len(TWIN_VALUES), len(TWIN_FORMS)))
  logging.disable(logging.CRITICAL)
  try:
    for v1, v2 in TWIN_VALUES:
      for form, defn, formula in TWIN_FORMS:
        for order in (0, 1):
          a, b = (v1, v2) if order == 0 else (v2, v1)
          head = "[Tabulation]\ntarget : LAMMPS\ncutoff : 5.0\nnr : 6\n\n"
          tail = ("\n[Potential-Form]\n%s\n" % defn) if defn else ""
          ea, eb = form.replace("%s", a), form.replace("%s", b)
          both = head + "[Pair]\nA-A : %s\nB-B : %s\n" % (ea, eb) + tail
          res["paths"] += 1
          res["replays"] += 1
          try:
            alone_a = _twin_energies(head + "[Pair]\nA-A : %s\n" % ea + tail)["A-A"]
            alone_b = _twin_energies(head + "[Pair]\nB-B : %s\n" % eb + tail)["B-B"]
            got = _twin_energies(both)
          except Exception as e:  # noqa
            res["violations"].append(dict(key="twin-exception", desc="%s: %s on\n%s" % (type(e).__name__, e, both), record=dict(kind="twin", model=both)))
            continue
          bad = []
          for lbl, alone, val in (("A-A", alone_a, float(a)), ("B-B", alone_b, float(b))):
            if got[lbl] != alone:
              bad.append("%s gives %r in the two-entry model and %r when it is the only entry" % (lbl, got[lbl], alone))
            if formula is not None:
              want = [formula(r, val) for r in (0.5, 1.0, 2.75)]
              if any(abs(x - y) > 1e-9 * max(1.0, abs(y)) for x, y in zip(got[lbl], want)):
                bad.append("%s gives %r, its definition gives %r" % (lbl, got[lbl], want))
          if bad:
            res["violations"].append(dict(key="twin-parametrisation", desc="; ".join(bad[:2]) + " on\n" + both, record=dict(kind="twin", model=both)))
            break
  finally:
    logging.disable(logging.NOTSET)
  return res


def cases(tier, seed=0):
  q = tier == "quick"
  cs = []
  for name in c09.CUSTOM:
    cs.append(Case("purity %s" % name, purity_case, name=name, npoints=2 if q else 3))
  models = ["two-zero-filled", "one-zero-filled", "fully-specified", "fs-two-zero-filled", "fs-one-zero-filled"] + ([] if q else ["four-species"])
  for m in models:
    for t in targets_for(m):
      cs.append(Case("setorder %s %s" % (m, t), setorder_case, model=m, target=t))
  for t in ("LAMMPS", "DLPOLY", "GULP", "excel", "setfl", "setfl_fs", "DL_POLY_EAM", "DL_POLY_EAM_fs", "excel_eam", "excel_eam_fs", "eam_adp"):
    for nr in ((3,) if q else (3, 5)):
      cs.append(Case("repeat %s %d" % (t, nr), repeat_case, target=t, nr=nr))
  # the same python objects handed to two writers: what the second writes depends on the model only (shared with C03-C05)
  from checks import eam_api as _ea
  for t in ("setfl", "DL_POLY_EAM", "setfl_fs", "DL_POLY_EAM_fs", "eam_adp"):
    cs += _ea.written_first_cases(t, tier)
  cs.append(Case("twin parametrisations", twin_case))
  return cs


def replay(path):
  return common.generic_replay(path)
