"""C02 DL_POLY TABLE: header, 4-per-record layout, energies and -r dU/dr; nr%4 rejection."""
import io
import itertools

import z3

from symx import core, shims, jets
from symx.core import sym, symint, assume, uf, term, rv
from symx.harness import explore_and_check, Structural, T, Sink
from symx.run import Case, new_result
from symx.vc import VC, eq_formula
from readers import pairtables
from checks import common

ID = "C02"
META = dict(
  functions=["pair_tabulation.DLPoly_PairTabulation.write", "_dlpoly_writeTABLE.writePotentials/_writePotential/"
             "_calculateForce/_writeTableHeader", "_potential.Potential.energy/force", "_util.gradient/num_deriv",
             "atsim.potentials.writePotentials('DL_POLY')",
             "config._tabulation_factories.DLPOLY_PairTabulationFactory.extract_cutoffs/create_tabulation",
             "config._config_parser._TabulationSection._target_synonyms / _init_target", "config.Configuration.read_from_parser"],
  bounds=dict(
    quick=dict(nr=[8, 12], potentials="1..2", cutoff="symbolic real > 0", rejection="all integers nr (symbolic Int)", potable_models=3),
    thorough=dict(nr=[8, 12, 16, 20, 24, 28, 32], potentials="1..3", cutoff="symbolic real > 0",
                  rejection="all integers nr (symbolic Int)", potable_models=6)),
  stubs=["potentials are uninterpreted functions", "_writeTableHeader has an empty body in the rejection harness only "
         "(its %d formatting needs a concrete int; the header is not the subject there)"],
  outside=["nr = 4 (delpot undefined; see C16)", "sign column of negative values (tags are positive; field widths are checked on them)",
           "last-ulp rounding of the accumulated r (floats as reals)"],
  assumptions=["floats are modelled as mathematical reals", "cutoff > 0"],
  explanation="symbolic execution of the real DL_POLY writer; every header field and every one of the 2*ngrid slots per "
              "potential is a z3 term compared with the specification; rejection explored over a symbolic Int row count",
)

# (atom labels are up to 8 characters: two 8-character labels leave no blank between the fields of a block header)
LABELS = [("A", "B"), ("O", "Ca_shell"), ("Mg_core1", "Mg_core2")]


IntCore = common.IntCore


def api_case(nr, npots, derivs, route, intcore=False, after_failure=False):
  res = new_result("api nr=%d npots=%d derivs=%s route=%s%s" % (nr, npots, derivs, route, " int-valued core" if intcore else "") + (" after failed writes of another table" if after_failure else ""))
  import atsim.potentials as ap
  from atsim.potentials import Potential
  from atsim.potentials.pair_tabulation import DLPoly_PairTabulation
  labels = LABELS[:npots]

  def fn():
    cutoff = sym("cutoff")
    assume(cutoff > 0)
    pots = [Potential(labels[p][0], labels[p][1], uf("U%d" % p, deriv=derivs[p])) for p in range(npots)]
    if intcore:
      thr = sym("thr")
      assume(thr > 0)
      u0 = uf("U0", deriv=True)
      pots[0] = Potential(labels[0][0], labels[0][1], IntCore(u0, u0.deriv, thr))
    out = Sink()
    if after_failure:
      # another table of the same shape whose potential fails at its second (third, ...) evaluation was attempted first
      for nfail in (1, 2, 3):
        cnt = [0]

        def doomed(r_, cnt=cnt, nfail=nfail):
          cnt[0] += 1
          if cnt[0] > nfail:
            raise ArithmeticError("injected failure")
          return 1.0
        try:
          if route == "class":
            DLPoly_PairTabulation([Potential(labels[0][0], labels[0][1], doomed)], cutoff, nr).write(Sink())
          else:
            ap.writePotentials("DL_POLY", [Potential(labels[0][0], labels[0][1], doomed)], cutoff, nr, Sink())
        except ArithmeticError:
          pass
    core.INT_TAGS = intcore
    try:
      second = None
      if route == "class":
        tab = DLPoly_PairTabulation(pots, cutoff, nr)
        tab.write(out)
        # the same tabulation object written a second time gives the same table
        out2 = Sink()
        tab.write(out2)
        second = out2.getvalue()
      else:
        ap.writePotentials("DL_POLY", pots, cutoff, nr, out)
    finally:
      core.INT_TAGS = False
    return out.getvalue(), second

  def build(path, wrong=False):
    if path.exc is not None:
      raise Structural("exception", "%s: %s" % (type(path.exc).__name__, path.exc))
    first, second = path.value
    vcs = build_text(path, first, wrong, "")
    if second is not None and not wrong:
      for v in build_text(path, second, False, "second-write-"):
        v.name = "second write/" + v.name
        vcs.append(v)
    return vcs

  def build_text(path, text, wrong, kp):
    try:
      t = pairtables.read_dlpoly_table(text)
    except pairtables.FormatError as e:
      raise Structural(kp + "format", "DL_POLY TABLE reader rejects the file%s: %s" % (" written second from the same object" if kp else "", e))
    c = z3.Real("cutoff")
    delpot = c / rv(nr - 4)
    if t["ngrid"] != nr:
      raise Structural("ngrid", "header ngrid=%d, expected %d" % (t["ngrid"], nr))
    if len(t["blocks"]) != npots:
      raise Structural("nblocks", "%d blocks for %d potentials" % (len(t["blocks"]), npots))
    vcs = [VC("delpot", eq_formula(T(path, t["delpot"]), delpot), info=dict(key="delpot")),
           VC("cutpot", eq_formula(T(path, t["cutpot"]), c), info=dict(key="cutpot"))]
    for p, blk in enumerate(t["blocks"]):
      a, b = labels[p]
      if blk["a"] != "%8s" % a or blk["b"] != "%8s" % b:
        raise Structural("labels", "block %d labelled %r %r" % (p, blk["a"], blk["b"]))
      U = z3.Function("U%d" % p, core.R, core.R)
      dU = z3.Function("d_U%d" % p, core.R, core.R)
      for k in range(nr):
        kk = k + 1 + (1 if wrong else 0)
        r = rv(kk) * delpot
        if intcore and p == 0:
          inside = r < z3.Real("thr")
          vcs.append(VC("p%d.E%d" % (p, k + 1), eq_formula(T(path, blk["energies"][k]), z3.If(inside, rv(0), U(r))), info=dict(key="E-int-valued-core")))
          vcs.append(VC("p%d.G%d" % (p, k + 1), eq_formula(T(path, blk["forces"][k]), z3.If(inside, rv(0), -(r * dU(r)))), info=dict(key="G-int-valued-core")))
          continue
        vcs.append(VC("p%d.E%d" % (p, k + 1), eq_formula(T(path, blk["energies"][k]), U(r)), info=dict(key="E")))
        if derivs[p]:
          want = -(r * dU(r))
        else:
          hh = rv(1e-6)
          r2, r1 = r + hh / 2, r - hh / 2
          want = -(r * ((U(r2) - U(r1)) / (r2 - r1)))
        vcs.append(VC("p%d.G%d" % (p, k + 1), eq_formula(T(path, blk["forces"][k]), want), info=dict(key="G")))
    return vcs

  def replay(v, w, path, structural):
    if intcore:
      return common.replay_pair_intcore("DL_POLY", nr, npots, derivs, labels, w, route)
    return common.replay_pair_table("DL_POLY", nr, npots, derivs, labels, w, route, after_failure=after_failure)

  explore_and_check(res, fn, build, replay=replay, negative=lambda p: build(p, wrong=True))
  res["nontrivial"] = res["vcs"]
  return res


def rejection_case(npots, via):
  """Row count as a symbolic Int: every path with nr % 4 != 0 must end in the
  documented exception with nothing written; the other path leaves the bound
  (symbolic loop count) and is covered by the concrete sizes of api_case."""
  res = new_result("rejection npots=%d via=%s" % (npots, via))
  from atsim.potentials import Potential
  from atsim.potentials.pair_tabulation import DLPoly_PairTabulation
  from atsim.potentials import _dlpoly_writeTABLE as W
  from atsim.potentials.config import _tabulation_factories as TF
  from atsim.potentials.config._common import ConfigurationException
  sink = Sink()
  state = {}

  def fn():
    nr = symint("nr")
    assume(nr > 4)
    cutoff = sym("cutoff")
    assume(cutoff > 0)
    del sink.writes[:]
    if via == "api":
      pots = [Potential("A", "B", uf("U%d" % p, deriv=True)) for p in range(npots)]
      DLPoly_PairTabulation(pots, cutoff, nr).write(sink)
      return "returned"
    else:
      class Tab(object):
        pass
      class CP(object):
        pass
      cp = CP()
      cp.tabulation = Tab()
      cp.tabulation.cutoff = cutoff
      cp.tabulation.nr = nr
      r = TF.TABULATION_FACTORIES["DLPOLY"].extract_cutoffs(cp)
      return ("cutoffs", r)

  saved = W._writeTableHeader
  if via == "api":
    W._writeTableHeader = lambda *a, **k: None
  try:
    ex = core.Explorer()
    paths = ex.explore(fn, catch=(Exception,))
  finally:
    W._writeTableHeader = saved
  res["paths"] += ex.stats["paths"]
  res["decisions"] += ex.stats["decisions"]
  res["queries"] += ex.stats["feasibility_queries"]
  res["solver_s"] += ex.stats["solver_s"]
  nrv = z3.Int("nr")
  s = z3.Solver()
  covered = []
  for p in paths:
    s.push()
    for c in p.pc:
      s.add(c)
    div4 = s.check(nrv % 4 != 0) == z3.unsat       # path implies nr%4 == 0
    notdiv4 = s.check(nrv % 4 == 0) == z3.unsat    # path implies nr%4 != 0
    s.pop()
    res["vcs"] += 1
    res["queries"] += 2
    if notdiv4:
      want_exc = W.WritePotentialException if via == "api" else ConfigurationException
      if p.exc is not None and isinstance(p.exc, want_exc):
        res["unsat"] += 1
        covered.append("nr%4!=0 -> " + type(p.exc).__name__)
      else:
        res["sat"] += 1
        res["violations"].append(dict(key="rejection", desc="nr %% 4 != 0 was not rejected with %s via %s: outcome %r" % (
          want_exc.__name__, via, p.exc or p.value or p.aborted)))
    elif div4:
      if p.exc is not None:
        res["sat"] += 1
        res["violations"].append(dict(key="accept", desc="nr divisible by 4 raised %r" % (p.exc,)))
      else:
        res["unsat"] += 1
        covered.append("nr%4==0 -> " + (p.aborted or "accepted"))
    else:
      res["unknown"] += 1
      res["inconclusive"].append("path does not decide nr % 4")
  # the two classes together must cover all integers > 4 (vacuity guard)
  res["negatives"] += 1
  if any(c.startswith("nr%4!=0") for c in covered) and any(c.startswith("nr%4==0") for c in covered):
    res["negatives_ok"] += 1
  res["samples"].append(dict(vc="rejection classes", classes=covered))
  # concrete confirmation through the public API for a few rejected sizes: nothing is written
  if via == "api":
    import math
    for nr in (5, 6, 7, 9, 10, 1001):
      out = Sink()
      pots = [Potential("A", "B", lambda r: math.exp(-r)) for _ in range(max(1, npots))]
      try:
        DLPoly_PairTabulation(pots, 5.0, nr).write(out)
        res["violations"].append(dict(key="rejection", desc="concrete nr=%d accepted" % nr))
      except W.WritePotentialException:
        if out.writes:
          res["violations"].append(dict(key="rejection-partial", desc="nr=%d rejected after writing %d bytes" % (nr, len(out.getvalue()))))
      res["replays"] += 1
  res["nontrivial"] = res["vcs"]
  return res


def synonym_case():
  """Targets DL_POLY and DLPOLY reach the same factory; potable files with
  nr%4 != 0 are refused with a ConfigurationException (concrete confirmation of
  the rejection classes through Configuration.read)."""
  res = new_result("target synonyms and potable rejection")
  from atsim.potentials.config import Configuration
  from atsim.potentials.config._common import ConfigurationException
  tmpl = common.PAIR_MODELS["buck_morse"]
  kinds = set()
  for target in ("DL_POLY", "DLPOLY"):
    tab = Configuration().read(io.StringIO(tmpl % dict(target=target, nr=8)))
    kinds.add(type(tab).__name__)
    res["replays"] += 1
    for nr in (5, 6, 7, 9, 1001):
      try:
        Configuration().read(io.StringIO(tmpl % dict(target=target, nr=nr)))
        res["violations"].append(dict(key="potable-rejection", desc="target %s nr=%d accepted" % (target, nr)))
      except ConfigurationException:
        pass
      res["replays"] += 1
  res["vcs"] += 1
  if kinds == {"DLPoly_PairTabulation"}:
    res["unsat"] += 1
  else:
    res["sat"] += 1
    res["violations"].append(dict(key="synonym", desc="targets DL_POLY/DLPOLY built %s" % sorted(kinds)))
  res["paths"] = 1
  res["samples"].append(dict(vc="synonyms", kinds=sorted(kinds)))
  return res


def potable_case(model_name, nr):
  res = new_result("potable model=%s nr=%d" % (model_name, nr))
  template = common.PAIR_MODELS[model_name]
  from atsim.potentials.config import Configuration, ConfigParser
  from symx.potable import SymParamParser
  cp = ConfigParser(io.StringIO(template % dict(target="DL_POLY", nr=nr)))
  shims.install()

  def fn():
    scp = SymParamParser(cp)
    tab = Configuration().read_from_parser(scp)
    if tab.nr != nr or type(tab).__name__ != "DLPoly_PairTabulation":
      raise Structural("factory", "factory returned %s nr=%r" % (type(tab).__name__, tab.nr))
    cutoff = sym("cutoff")
    assume(cutoff > 0)
    tab._cutoff = cutoff
    out = Sink()
    tab.write(out)
    want = []
    for pot in tab.potentials:
      rows = []
      for k in range(1, nr + 1):
        r = k * cutoff / (nr - 4)
        e = pot.energy(r)
        j = pot.potentialFunction(jets.Jet(r, 1.0, 0.0))
        d1 = j.d1 if isinstance(j, jets.Jet) else 0.0
        rows.append((e, -(r * d1)))
      want.append((pot.speciesA, pot.speciesB, hasattr(pot.potentialFunction, "deriv"), rows))
    return out.getvalue(), want

  def build(path, wrong=False):
    if path.exc is not None:
      raise Structural("exception", "%s: %s" % (type(path.exc).__name__, path.exc))
    text, want = path.value
    try:
      t = pairtables.read_dlpoly_table(text)
    except pairtables.FormatError as e:
      raise Structural("format", "DL_POLY TABLE reader rejects the file: %s" % e)
    if t["ngrid"] != nr or len(t["blocks"]) != len(want):
      raise Structural("ngrid", "ngrid=%d blocks=%d" % (t["ngrid"], len(t["blocks"])))
    vcs = []
    for p, blk in enumerate(t["blocks"]):
      A, B, has_deriv, rows = want[p]
      if blk["a"] != "%8s" % A or blk["b"] != "%8s" % B:
        raise Structural("labels", "block %d labelled %r %r" % (p, blk["a"], blk["b"]))
      for k in range(nr):
        kk = k if not wrong else (k + 1) % nr
        we, wg = rows[kk]
        vcs.append(VC("%s.p%d.E%d" % (model_name, p, k + 1), eq_formula(T(path, blk["energies"][k]), term(we)), info=dict(key="E")))
        if has_deriv:
          vcs.append(VC("%s.p%d.G%d" % (model_name, p, k + 1), eq_formula(T(path, blk["forces"][k]), term(wg)), info=dict(key="G")))
    return vcs

  def replay(v, w, path, structural):
    return common.replay_potable_pair("DL_POLY", template, nr, w, 6.0)

  try:
    explore_and_check(res, fn, build, replay=replay, negative=lambda p: build(p, wrong=True),
                      explorer_kw=dict(max_paths=600, query_timeout_ms=3000), max_seconds=150)
  finally:
    shims.uninstall()
  res["nontrivial"] = res["vcs"]
  return res


def cases(tier, seed=0):
  cs = []
  from checks import fpgrid
  cs.append(Case("fp grid DL_POLY", fpgrid.grid_case, target="DL_POLY", nr=44))
  if tier == "quick":
    nrs, maxp, models, mnr = [8, 12], 2, ["buck_morse", "multirange"], [8]
  else:
    nrs, maxp = [8, 12, 16, 20, 24, 28, 32], 3
    models = [m for m in common.PAIR_MODELS if m not in ("spline", "buck4")]
    mnr = [8, 12]
  for nr in nrs:
    for npots in range(1, maxp + 1):
      for derivs in itertools.product([True, False], repeat=npots):
        for route in (("class", "writePotentials") if nr == 8 or tier == "thorough" else ("class",)):
          if tier == "thorough" and nr > 16 and npots == 3 and route == "writePotentials":
            continue
          cs.append(Case("api nr=%d n=%d d=%s %s" % (nr, npots, "".join("ad"[not d] for d in derivs), route),
                         api_case, nr=nr, npots=npots, derivs=derivs, route=route))
  # potentials that return python ints over part of their range (`return 0` inside a cut-off core)
  for npots, route in ((1, "class"), (2, "writePotentials")) if tier == "quick" else ((1, "class"), (1, "writePotentials"), (2, "class"), (2, "writePotentials")):
    for nr in ((8,) if tier == "quick" else (8, 12)):
      cs.append(Case("api int-valued core nr=%d n=%d %s" % (nr, npots, route), api_case, nr=nr, npots=npots, derivs=(True,) * npots, route=route, intcore=True))
  for route in ("class", "writePotentials"):
    cs.append(Case("api nr=8 n=2 after failed writes %s" % route, api_case, nr=8, npots=2, derivs=(True, False), route=route, after_failure=True))
  for npots in (1, 2):
    cs.append(Case("rejection api n=%d" % npots, rejection_case, npots=npots, via="api"))
  cs.append(Case("rejection factory", rejection_case, npots=1, via="factory"))
  cs.append(Case("synonyms", synonym_case))
  for m in models:
    for nr in mnr:
      cs.append(Case("potable %s nr=%d" % (m, nr), potable_case, model_name=m, nr=nr))
  return cs


def replay(path):
  return common.generic_replay(path)
