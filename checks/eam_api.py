"""Generic API-route case for the EAM text targets: the real writer is executed
on uninterpreted functions with symbolic cutoffs; the output is read by the
independent reader and compared slot by slot with the specification."""
import z3

from symx import core, shims
from symx.core import sym, assume, uf, rv
from symx.harness import explore_and_check, Structural, T, Sink
from symx.run import new_result
from readers import eamtables
from checks import eam_common as EC
from checks import eam_potable as EP


def write_target(target, route, model, eampots, pairpots, dip, quad, cutoff, nr, cutoff_rho, nrho, out):
  import atsim.potentials as ap
  from atsim.potentials import eam_tabulation as et
  dr, drho = cutoff / (nr - 1), cutoff_rho / (nrho - 1)
  if target == "setfl":
    if route == "class":
      et.SetFL_EAMTabulation(pairpots, eampots, cutoff, nr, cutoff_rho, nrho).write(out)
    else:
      ap.writeSetFL(nrho, drho, nr, dr, eampots, pairpots, out)
  elif target == "setfl_fs":
    if route == "class":
      et.SetFL_FS_EAMTabulation(pairpots, eampots, cutoff, nr, cutoff_rho, nrho).write(out)
    else:
      ap.writeSetFLFinnisSinclair(nrho, drho, nr, dr, eampots, pairpots, out)
  elif target == "eam_adp":
    et.ADP_EAMTabulation(pairpots, eampots, dip, quad, cutoff, nr, cutoff_rho, nrho).write(out)
  elif target == "DL_POLY_EAM":
    if route == "class":
      et.TABEAM_EAMTabulation(pairpots, eampots, cutoff, nr, cutoff_rho, nrho).write(out)
    else:
      ap.writeTABEAM(nrho, drho, nr, dr, eampots, pairpots, out)
  elif target == "DL_POLY_EAM_fs":
    if route == "class":
      et.TABEAM_FinnisSinclair_EAMTabulation(pairpots, eampots, cutoff, nr, cutoff_rho, nrho).write(out)
    else:
      ap.writeTABEAMFinnisSinclair(nrho, drho, nr, dr, eampots, pairpots, out)
  else:
    raise ValueError(target)


def observed_expected(target, text, model, nr, nrho, dr, drho, alg, meta):
  style = EP.STYLE.get(target)
  if style:
    parsed = eamtables.read_setfl(text, style)
    O = EC.observed_setfl(parsed, model, nr, nrho, meta, style)
    E = EC.expected_setfl(model, nr, nrho, dr, drho, alg, meta, style)
  else:
    parsed = eamtables.read_tabeam(text)
    O = EC.observed_tabeam(parsed, model, nr, nrho)
    E = EC.expected_tabeam(model, nr, nrho, dr, drho, alg)
  return parsed, O, E


def api_case(target, elements, pairs, nr, nrho, route="class", rot=0, dip=None, quad=None, extra_vcs=None):
  fs = target.endswith("_fs")
  model = EC.Model(elements, pairs, fs=fs, dip=dip, quad=quad, pair_list_rotation=rot)
  res = new_result("api %s %s nr=%d nrho=%d %s" % (target, model.describe(), nr, nrho, route))

  def fn():
    cutoff, cutoff_rho = sym("cutoff"), sym("cutoff_rho")
    assume(cutoff > 0)
    assume(cutoff_rho > 0)
    eampots, pairpots, d, q = EC.build_objects(model, lambda name: uf(name), EC.sym_meta)
    out = Sink()
    write_target(target, route, model, eampots, pairpots, d, q, cutoff, nr, cutoff_rho, nrho, out)
    return out.getvalue(), len(out.writes)

  c, cr = z3.Real("cutoff"), z3.Real("cutoff_rho")

  def build(path, wrong=False):
    if path.exc is not None:
      raise Structural("exception", "%s: %s" % (type(path.exc).__name__, path.exc))
    text, nwrites = path.value
    dr = c / rv(nr - 1) * (2 if wrong else 1)
    drho = cr / rv(nrho - 1)
    try:
      parsed, O, E = observed_expected(target, text, model, nr, nrho, dr, drho, EC.z3_alg(), EC.z3_meta)
    except eamtables.FormatError as e:
      raise Structural("format", "reader rejects the file: %s" % e)
    vcs = EC.vcs_from(path, O, E)
    if extra_vcs is not None:
      vcs.extend(extra_vcs(path, parsed, model, nr, nrho, dr, drho, wrong))
    return vcs

  def replay(v, w, path, structural):
    return EP.replay_eam_api(target, model, nr, nrho, w, route)

  shims.install()
  try:
    explore_and_check(res, fn, build, replay=replay, negative=lambda p: build(p, wrong=True))
  finally:
    shims.uninstall()
  res["nontrivial"] = res["vcs"]
  return res
