"""Generic API-route case for the EAM text targets: the real writer is executed
on uninterpreted functions with symbolic cutoffs; the output is read by the
independent reader and compared slot by slot with the specification."""
import z3

from symx import core, shims
from symx.core import sym, assume, uf, rv
from symx.harness import explore_and_check, Structural, T, Sink
from symx.run import new_result
from readers import eamtables
from checks import eam_common as EC
from checks import eam_potable as EP


def write_target(target, route, model, eampots, pairpots, dip, quad, cutoff, nr, cutoff_rho, nrho, out, cutoff_arg=None):
  import atsim.potentials as ap
  from atsim.potentials import eam_tabulation as et
  dr, drho = cutoff / (nr - 1), cutoff_rho / (nrho - 1)
  kw = {} if cutoff_arg is None else dict(cutoff=cutoff_arg)     # the documented `cutoff` argument of the setfl functions (a header field)
  if target == "setfl":
    if route == "class":
      et.SetFL_EAMTabulation(pairpots, eampots, cutoff, nr, cutoff_rho, nrho).write(out)
    else:
      ap.writeSetFL(nrho, drho, nr, dr, eampots, pairpots, out, **kw)
  elif target == "setfl_fs":
    if route == "class":
      et.SetFL_FS_EAMTabulation(pairpots, eampots, cutoff, nr, cutoff_rho, nrho).write(out)
    else:
      ap.writeSetFLFinnisSinclair(nrho, drho, nr, dr, eampots, pairpots, out, **kw)
  elif target == "eam_adp":
    et.ADP_EAMTabulation(pairpots, eampots, dip, quad, cutoff, nr, cutoff_rho, nrho).write(out)
  elif target == "DL_POLY_EAM":
    if route == "class":
      et.TABEAM_EAMTabulation(pairpots, eampots, cutoff, nr, cutoff_rho, nrho).write(out)
    else:
      ap.writeTABEAM(nrho, drho, nr, dr, eampots, pairpots, out)
  elif target == "DL_POLY_EAM_fs":
    if route == "class":
      et.TABEAM_FinnisSinclair_EAMTabulation(pairpots, eampots, cutoff, nr, cutoff_rho, nrho).write(out)
    else:
      ap.writeTABEAMFinnisSinclair(nrho, drho, nr, dr, eampots, pairpots, out)
  else:
    raise ValueError(target)


def observed_expected(target, text, model, nr, nrho, dr, drho, alg, meta):
  style = EP.STYLE.get(target)
  if style:
    parsed = eamtables.read_setfl(text, style)
    O = EC.observed_setfl(parsed, model, nr, nrho, meta, style)
    E = EC.expected_setfl(model, nr, nrho, dr, drho, alg, meta, style)
  else:
    parsed = eamtables.read_tabeam(text)
    O = EC.observed_tabeam(parsed, model, nr, nrho)
    E = EC.expected_tabeam(model, nr, nrho, dr, drho, alg)
  return parsed, O, E


def replay_written_first(target, other, model, nr, nrho, w, route):
  """concrete: the same objects written as `other`, then as `target`; the second file against the model"""
  import io
  cutoff, cutoff_rho, dr, drho = EP._grid(w, nr, nrho)
  funcs = EC.concrete_functions(EC.function_names(model))
  eampots, pairpots, dip, quad = EC.build_objects(model, lambda name: funcs[name], EC.conc_meta)
  rt = "class" if route == "class" else "func"
  try:
    write_target(other, rt, model, eampots, pairpots, dip, quad, cutoff, nr, cutoff_rho, nrho, io.StringIO())
    out = io.StringIO()
    write_target(target, rt, model, eampots, pairpots, dip, quad, cutoff, nr, cutoff_rho, nrho, out)
    parsed, O, E = observed_expected(target, out.getvalue(), model, nr, nrho, dr, drho, EC.float_alg(funcs), EC.conc_meta)
    bad = EC.compare_dicts(O, E, 1e-12, 1e-12) if EP.STYLE.get(target) else EC.compare_dicts(O, E, 1e-9, 6e-7)
  except Exception as e:  # noqa
    bad = ["%s: %s" % (type(e).__name__, e)]
  rec = dict(kind="eam_written_first", target=target, written_first=other, model=model.describe(), nr=nr, nrho=nrho, cutoff=cutoff, cutoff_rho=cutoff_rho, mismatches=bad[:10])
  return (bool(bad), "the same lists and potentials were written as %s first; the %s file then written: " % (other, target) + ("; ".join(bad[:3]) or "agrees with the model"), rec)


def replay_pair_iterable(target, model, nr, nrho, w):
  """concrete: the procedural writer given its pair potentials as a generator"""
  import io
  cutoff, cutoff_rho, dr, drho = EP._grid(w, nr, nrho)
  funcs = EC.concrete_functions(EC.function_names(model))
  eampots, pairpots, dip, quad = EC.build_objects(model, lambda name: funcs[name], EC.conc_meta)
  try:
    out = io.StringIO()
    write_target(target, "func", model, eampots, (p_ for p_ in list(pairpots)), dip, quad, cutoff, nr, cutoff_rho, nrho, out)
    parsed, O, E = observed_expected(target, out.getvalue(), model, nr, nrho, dr, drho, EC.float_alg(funcs), EC.conc_meta)
    bad = EC.compare_dicts(O, E, 1e-12, 1e-12) if EP.STYLE.get(target) else EC.compare_dicts(O, E, 1e-9, 6e-7)
  except Exception as e:  # noqa
    bad = ["%s: %s" % (type(e).__name__, e)]
  rec = dict(kind="eam_pair_iterable", target=target, model=model.describe(), nr=nr, nrho=nrho, cutoff=cutoff, cutoff_rho=cutoff_rho, mismatches=bad[:10])
  return (bool(bad), "pair potentials handed over as a generator: " + ("; ".join(bad[:3]) or "agrees with the model"), rec)


def replay_cutoff_arg(target, model, nr, nrho, w):
  """concrete: writeSetFL*(..., cutoff=x) for the witness x and a few fractions of the table's extent"""
  import io
  cutoff, cutoff_rho, dr, drho = EP._grid(w, nr, nrho)
  funcs = EC.concrete_functions(EC.function_names(model))
  cands = []
  try:
    x = float(w.get("cutarg"))
    if 1e-6 < x < 1e6:
      cands.append(x)
  except Exception:  # noqa
    pass
  cands += [0.3 * cutoff, 0.6 * cutoff, cutoff, 1.5 * cutoff]
  last = None
  for x in cands:
    eampots, pairpots, dip, quad = EC.build_objects(model, lambda name: funcs[name], EC.conc_meta)
    try:
      out = io.StringIO()
      write_target(target, "func", model, eampots, pairpots, dip, quad, cutoff, nr, cutoff_rho, nrho, out, cutoff_arg=x)
      parsed, O, E = observed_expected(target, out.getvalue(), model, nr, nrho, dr, drho, EC.float_alg(funcs), EC.conc_meta)
      bad = EC.compare_dicts(O, E, 1e-12, 1e-12)
      if abs(parsed["cutoff"] - x) > 1e-9 * x:
        bad.append("header cutoff %r, argument %r" % (parsed["cutoff"], x))
    except Exception as e:  # noqa
      bad = ["%s: %s" % (type(e).__name__, e)]
    rec = dict(kind="eam_cutoff_arg", target=target, model=model.describe(), nr=nr, nrho=nrho, cutoff=cutoff, cutoff_rho=cutoff_rho, cutoff_argument=x, mismatches=bad[:10])
    last = (bool(bad), "written with cutoff=%r (table extent %r): " % (x, cutoff) + ("; ".join(bad[:3]) or "agrees with the model"), rec)
    if bad:
      return last
  return last


class Mutable(object):
  """A callable whose behaviour can be changed in place (same object identity):
  models a potential whose parameters are adjusted between two writes."""

  def __init__(self, name):
    self.name = name
    self.f = uf(name)

  def __call__(self, x):
    return self.f(x)


class _CM(object):
  def __init__(self, f, name=None):
    self.f = f
    self.name = name

  def __call__(self, x):
    return self.f(x)


def replay_rewrite(target, model, nr, nrho, w):
  """Concrete: one tabulation object written, its functions changed in place, written again; the second
  file must hold the new functions."""
  import io
  from atsim.potentials import eam_tabulation as et
  cutoff, cutoff_rho, dr, drho = EP._grid(w, nr, nrho)
  names = EC.function_names(model)
  f1 = EC.concrete_functions(names)
  f2 = {n: (lambda x, g=g: 1.5 * g(x) + 0.25) for n, g in f1.items()}
  wrappers = {}

  def mk(name):
    wrappers[name] = _CM(f1[name])
    return wrappers[name]
  eampots, pairpots, dip, quad = EC.build_objects(model, mk, EC.conc_meta)
  cls = dict(setfl=et.SetFL_EAMTabulation, setfl_fs=et.SetFL_FS_EAMTabulation, DL_POLY_EAM=et.TABEAM_EAMTabulation,
             DL_POLY_EAM_fs=et.TABEAM_FinnisSinclair_EAMTabulation).get(target)
  if cls is not None:
    tab = cls(pairpots, eampots, cutoff, nr, cutoff_rho, nrho)
  else:
    tab = et.ADP_EAMTabulation(pairpots, eampots, dip, quad, cutoff, nr, cutoff_rho, nrho)
  style = EP.STYLE.get(target)
  bad = []
  for which, funcs in (("first", f1), ("second", f2)):
    for n, wr in wrappers.items():
      wr.f = funcs[n]
    out = io.StringIO()
    try:
      tab.write(out)
      alg = EC.float_alg(funcs)
      if style:
        parsed = eamtables.read_setfl(out.getvalue(), style)
        O = EC.observed_setfl(parsed, model, nr, nrho, EC.conc_meta, style)
        E = EC.expected_setfl(model, nr, nrho, dr, drho, alg, EC.conc_meta, style)
        b = EC.compare_dicts(O, E, 1e-12, 1e-12)
      else:
        parsed = eamtables.read_tabeam(out.getvalue())
        O = EC.observed_tabeam(parsed, model, nr, nrho)
        E = EC.expected_tabeam(model, nr, nrho, dr, drho, alg)
        b = EC.compare_dicts(O, E, 1e-9, 6e-7)
    except Exception as e:  # noqa
      b = ["%s: %s" % (type(e).__name__, e)]
    bad += ["[%s write of the same object] %s" % (which, x) for x in b[:3]]
  rec = dict(kind="eam_rewrite", target=target, model=model.describe(), nr=nr, nrho=nrho, cutoff=cutoff, cutoff_rho=cutoff_rho, mismatches=bad[:10])
  return (bool(bad), "; ".join(bad[:3]) or "both writes agree with the functions in force at the time", rec)


def api_case(target, elements, pairs, nr, nrho, route="class", rot=0, dip=None, quad=None, extra_vcs=None, rewrite=True, surplus=None, shared=None, fs_undeclared=None,
             written_first=None, energy_override=None, cutoff_arg=False, fs_on_demand=False, pair_iterable=False):
  """written_first: another target of the same family; the same python objects (lists, potentials) are written in that format
  first - the caller's objects are not the writer's to change"""
  fs = target.endswith("_fs")
  model = EC.Model(elements, pairs, fs=fs, dip=dip, quad=quad, pair_list_rotation=rot, surplus=surplus, shared=shared, fs_undeclared=fs_undeclared)
  model.energy_override = set(k for k in (energy_override or []) if model.pairs.get(k) is not None)
  model.fs_on_demand = bool(fs_on_demand and fs)
  res = new_result("api %s %s nr=%d nrho=%d %s%s" % (target, model.describe(), nr, nrho, route, " after the same objects were written as %s" % written_first if written_first else ""))

  def fn():
    cutoff, cutoff_rho = sym("cutoff"), sym("cutoff_rho")
    assume(cutoff > 0)
    assume(cutoff_rho > 0)
    made = []

    def mk(name):
      m = Mutable(name)
      made.append(m)
      return m
    eampots, pairpots, d, q = EC.build_objects(model, mk, EC.sym_meta)
    if pair_iterable:
      # the pair potentials handed over as a single-pass iterable (a generator filtering a library of potentials)
      pairpots = (p_ for p_ in list(pairpots))
    if written_first:
      write_target(written_first, "class" if route == "class" else "func", model, eampots, pairpots, d, q, cutoff, nr, cutoff_rho, nrho, Sink())
    out = Sink()
    tab = None
    if route == "class" and rewrite:
      # one tabulation object written twice: the functions are changed in place in between
      from atsim.potentials import eam_tabulation as et
      cls = dict(setfl=et.SetFL_EAMTabulation, setfl_fs=et.SetFL_FS_EAMTabulation, DL_POLY_EAM=et.TABEAM_EAMTabulation,
                 DL_POLY_EAM_fs=et.TABEAM_FinnisSinclair_EAMTabulation).get(target)
      if cls is not None:
        tab = cls(pairpots, eampots, cutoff, nr, cutoff_rho, nrho)
      elif target == "eam_adp":
        tab = et.ADP_EAMTabulation(pairpots, eampots, d, q, cutoff, nr, cutoff_rho, nrho)
    if tab is not None:
      tab.write(out)
    elif cutoff_arg:
      # writeSetFL(..., cutoff=x): x is what the header announces; the nr rows of spacing dr are tabulated whatever x is
      ca = sym("cutarg")
      assume(ca > 0)
      write_target(target, route, model, eampots, pairpots, d, q, cutoff, nr, cutoff_rho, nrho, out, cutoff_arg=ca)
    else:
      write_target(target, route, model, eampots, pairpots, d, q, cutoff, nr, cutoff_rho, nrho, out)
    second = None
    if rewrite:
      for m in made:
        m.f = uf(m.name + "__2")
      out2 = Sink()
      if tab is not None:
        tab.write(out2)
      else:
        write_target(target, route, model, eampots, pairpots, d, q, cutoff, nr, cutoff_rho, nrho, out2)
      second = out2.getvalue()
    return out.getvalue(), len(out.writes), second

  c, cr = z3.Real("cutoff"), z3.Real("cutoff_rho")

  def build(path, wrong=False):
    if path.exc is not None:
      raise Structural("exception", "%s: %s" % (type(path.exc).__name__, path.exc))
    text, nwrites, second = path.value
    dr = c / rv(nr - 1) * (2 if wrong else 1)
    drho = cr / rv(nrho - 1)
    try:
      parsed, O, E = observed_expected(target, text, model, nr, nrho, dr, drho, EC.z3_alg(), EC.z3_meta)
    except eamtables.FormatError as e:
      raise Structural("format", "reader rejects the file: %s" % e)
    vcs = EC.vcs_from(path, O, E)
    if cutoff_arg and not wrong:
      from symx.vc import VC, eq_formula
      vcs.append(VC("header cutoff", eq_formula(T(path, parsed["cutoff"]), z3.Real("cutarg")), info=dict(key="header-cutoff-argument")))
    if extra_vcs is not None:
      vcs.extend(extra_vcs(path, parsed, model, nr, nrho, dr, drho, wrong))
    if second is not None and not wrong:
      # the second write of the same object, after its functions were changed in place, tabulates the new functions
      alg2 = EC.Alg(lambda name: z3.Function(name + "__2", core.R, core.R), rv)
      try:
        parsed2, O2, E2 = observed_expected(target, second, model, nr, nrho, dr, drho, alg2, EC.z3_meta)
      except eamtables.FormatError as e:
        raise Structural("format-second-write", "reader rejects the file written second: %s" % e)
      for v2 in EC.vcs_from(path, O2, E2):
        v2.name = "second-write/" + v2.name
        v2.info = dict(v2.info or {}, key="second-write-" + (v2.info or {}).get("key", "slot"))
        vcs.append(v2)
    return vcs

  def replay(v, w, path, structural):
    if pair_iterable:
      return replay_pair_iterable(target, model, nr, nrho, w)
    if cutoff_arg:
      return replay_cutoff_arg(target, model, nr, nrho, w)
    if written_first:
      return replay_written_first(target, written_first, model, nr, nrho, w, route)
    first = EP.replay_eam_api(target, model, nr, nrho, w, route)
    if first[0] or not rewrite or route != "class":
      return first
    return replay_rewrite(target, model, nr, nrho, w)

  shims.install()
  try:
    explore_and_check(res, fn, build, replay=replay, negative=lambda p: build(p, wrong=True))
  finally:
    shims.uninstall()
  res["nontrivial"] = res["vcs"]
  return res


def surplus_cases(target, tier, api=None, **kw):
  """cases in which the pair list handed to the writer also holds potentials for species the model does not tabulate
  (a pair list shared between several models): the file is the same as without them"""
  from symx.run import Case
  api = api or api_case
  orders = [("Cu",), ("Cu", "Al"), ("Al", "Cu"), ("Zr", "Cu", "Al")] + ([] if tier == "quick" else [("Al", "Zr", "Cu"), ("Cu", "Zr")])
  out = []
  for i, order in enumerate(orders):
    keys = EC.all_pair_keys(order)
    for j in range(2 if tier == "quick" else 5):
      st = {}
      for n, k in enumerate(keys):
        c = (i + j + n) % 3
        st[k] = None if c == 0 else ((k[0], k[1]) if c == 1 or k[0] == k[1] else (k[1], k[0]))
      sur = [[(order[j % len(order)], "Xe")], [("Xe", order[-1]), ("Xe", "Xe")], [("He", order[0]), (order[-1], "Xe")],
             [("Xe", "He")], [(order[0], "Xe"), ("Xe", order[0])]][(i + j) % 5]
      extra = dict(kw)
      if target == "eam_adp":
        extra.update(dip=dict(st), quad={k: (None if v else (k[0], k[1])) for k, v in st.items()})
      out.append(Case("api %s %s surplus pairs %s #%d" % (target, "/".join(order), ",".join("%s-%s" % p for p in sur), j), api, target=target,
                      elements=order, pairs=st, nr=2 + (i + j) % 3, nrho=2 + j % 2, route="class" if (i + j) % 2 or target == "eam_adp" else "func",
                      rot=i + j, surplus=sur, **extra))
  return out


# ---------------------------------------------------------------------------
# history: another model of the same shape failed part-way through its write, was dropped, then this model is written

class _Boom(Exception):
  pass


def _raiser(x):
  raise OverflowError("density out of range (injected)")


def _last_density_index(model, made):
  idx = [i for i, m in enumerate(made) if m.name.startswith("doomed_rho_")]
  return idx[-1]


def _failed_write_then(target, model, mk, meta, cutoff, nr, cutoff_rho, nrho, route, fail=True):
  """the sequence itself (shared by the symbolic run and the concrete replay): returns the text of the second model.
  fail=False: the first model (same elements, every density declared, other functions) is written successfully instead."""
  import gc
  made = []

  def mk_doomed(name):
    m = mk("doomed_" + name)
    made.append(m)
    return m
  first = model if fail else EC.Model(model.elements, model.pairs, fs=model.fs, dip=model.dip, quad=model.quad, pair_list_rotation=model.rot)
  eampots, pairpots, d, q = EC.build_objects(first, mk_doomed, meta)
  if fail:
    # the last density function created fails at its first evaluation
    made[_last_density_index(first, made)].f = _raiser
  try:
    write_target(target, route, first, eampots, pairpots, d, q, cutoff, nr, cutoff_rho, nrho, Sink())
    failed = not fail
  except OverflowError:
    failed = True
  del eampots, pairpots, d, q
  del made[:]
  gc.collect()
  eampots, pairpots, d, q = EC.build_objects(model, mk, meta)
  out = Sink()
  write_target(target, route, model, eampots, pairpots, d, q, cutoff, nr, cutoff_rho, nrho, out)
  return out.getvalue(), failed


def after_failure_case(target, elements, pairs, nr, nrho, cutoff=4.5, cutoff_rho=7.5, route="func", rot=0, dip=None, quad=None, fail=True, fs_undeclared=None):
  """arbitrary (uninterpreted) functions on a concrete grid: model A fails during its write (fail=False: is written) and is
  dropped; model B, same elements and grid, new function objects, is then written and must hold B's functions only"""
  fs = target.endswith("_fs")
  model = EC.Model(elements, pairs, fs=fs, dip=dip, quad=quad, pair_list_rotation=rot, fs_undeclared=fs_undeclared)
  res = new_result("api %s %s nr=%d nrho=%d %s after %s of another model" % (target, model.describe(), nr, nrho, route, "a failed write" if fail else "the write"))

  def fn():
    text, failed = _failed_write_then(target, model, Mutable, EC.sym_meta, cutoff, nr, cutoff_rho, nrho, route, fail)
    return text, failed

  def build(path, wrong=False):
    if path.exc is not None:
      raise Structural("exception", "%s: %s" % (type(path.exc).__name__, path.exc))
    text, failed = path.value
    if not failed:
      raise Structural("no-failure", "the injected failure did not stop the first write")
    dr = rv(cutoff) / rv(nr - 1) * (2 if wrong else 1)
    drho = rv(cutoff_rho) / rv(nrho - 1)
    try:
      parsed, O, E = observed_expected(target, text, model, nr, nrho, dr, drho, EC.z3_alg(), EC.z3_meta)
    except eamtables.FormatError as e:
      raise Structural("format", "reader rejects the file: %s" % e)
    vcs = EC.vcs_from(path, O, E)
    for v in vcs:
      v.info = dict(v.info or {}, key=("after-failed-write-" if fail else "after-another-model-") + (v.info or {}).get("key", "slot"))
    return vcs

  def replay(v, w, path, structural):
    names = EC.function_names(model)
    funcs = EC.concrete_functions(names + ["doomed_" + n for n in names])
    try:
      text, failed = _failed_write_then(target, model, lambda name: _CM(funcs[name], name), EC.conc_meta, cutoff, nr, cutoff_rho, nrho, route, fail)
      dr, drho = cutoff / (nr - 1), cutoff_rho / (nrho - 1)
      parsed, O, E = observed_expected(target, text, model, nr, nrho, dr, drho, EC.float_alg(funcs), EC.conc_meta)
      style = EP.STYLE.get(target)
      bad = EC.compare_dicts(O, E, 1e-12, 1e-12) if style else EC.compare_dicts(O, E, 1e-9, 6e-7)
    except Exception as e:  # noqa
      bad = ["%s: %s" % (type(e).__name__, e)]
    rec = dict(kind="eam_after_failure", target=target, model=model.describe(), nr=nr, nrho=nrho, cutoff=cutoff, cutoff_rho=cutoff_rho, mismatches=bad[:10])
    return (bool(bad), "a model of the same shape %s and was dropped; the table written next: " % ("failed during its write" if fail else "was written") + ("; ".join(bad[:3]) or "agrees with its own functions"), rec)

  shims.install()
  try:
    explore_and_check(res, fn, build, replay=replay, negative=lambda p: build(p, wrong=True))
  finally:
    shims.uninstall()
  res["nontrivial"] = res["vcs"]
  return res


def after_failure_cases(target, tier, **kw):
  from symx.run import Case
  orders = [("Cu",), ("Al", "Cu"), ("Zr", "Cu", "Al")] + ([] if tier == "quick" else [("Cu", "Al"), ("Al", "Zr", "Cu")])
  out = []
  for i, order in enumerate(orders):
    cov = EC.covering_pair_states(order, seed=i)
    for j in range(1 if tier == "quick" else 3):
      st = cov[(i + 2 * j) % len(cov)]
      extra = dict(kw)
      if target == "eam_adp":
        extra.update(dip=cov[(i + 1) % len(cov)], quad=cov[(i + 2) % len(cov)])
      for route in (("func", "class") if target != "eam_adp" else ("class",)):
        out.append(Case("api %s %s after a failed write #%d %s" % (target, "/".join(order), j, route), after_failure_case, target=target, elements=order, pairs=st,
                        nr=3 + j, nrho=3, route=route, rot=i + j, **extra))
  return out


def shared_and_undeclared_cases(target, tier):
  """one callable object serving an embedding function and a density (grids of different size and step);
  Finnis-Sinclair models whose density mappings leave ordered pairs undeclared, alone and after a fully declared model"""
  from symx.run import Case
  out = []
  fs = target.endswith("_fs")
  orders = [("Cu",), ("Al", "Cu"), ("Zr", "Cu", "Al")] if tier == "quick" else [("Cu",), ("Al", "Cu"), ("Cu", "Al"), ("Zr", "Cu", "Al"), ("Al", "Zr", "Cu")]
  for i, order in enumerate(orders):
    cov = EC.covering_pair_states(order, seed=i + 3)
    st = cov[i % len(cov)]
    e0, e1 = order[0], order[-1]
    dens0 = "rho_%s_%s" % (e0, e1) if fs else "rho_%s" % e0
    dens1 = "rho_%s_%s" % (e1, e0) if fs else "rho_%s" % e1
    shared = [("F_%s" % e0, dens0)] if i % 2 == 0 else [("F_%s" % e1, dens1, "F_%s" % e0)]
    for (nr, nrho) in ((3, 4), (4, 2)):
      for route in ("class", "func"):
        if tier == "quick" and (nr, route) in ((4, "class"), (3, "func")):
          continue
        out.append(Case("api %s %s one object for %s nr=%d nrho=%d %s" % (target, "/".join(order), "=".join(shared[0]), nr, nrho, route), api_case, target=target,
                        elements=order, pairs=st, nr=nr, nrho=nrho, route=route, rot=i, shared=shared))
    if fs:
      out.append(Case("api %s %s densities built on demand" % (target, "/".join(order)), api_case, target=target, elements=order, pairs=st, nr=3, nrho=2,
                      route="class" if i % 2 else "func", rot=i, fs_on_demand=True))
    if fs and len(order) > 1:
      und = [(e0, e1)] if i % 2 else [(e1, e0), (e1, e1)]
      out.append(Case("api %s %s undeclared %s" % (target, "/".join(order), und), api_case, target=target, elements=order, pairs=st, nr=3, nrho=3,
                      route="class", rot=i, fs_undeclared=und))
      for route in ("func", "class"):
        out.append(Case("api %s %s undeclared %s after a fully declared model %s" % (target, "/".join(order), und, route), after_failure_case, target=target,
                        elements=order, pairs=st, nr=3, nrho=3, route=route, rot=i, fail=False, fs_undeclared=und))
  return out


def written_first_cases(target, tier):
  """the caller's objects after they were handed to another writer of the same family"""
  from symx.run import Case
  fs = target.endswith("_fs")
  family = ["setfl_fs", "DL_POLY_EAM_fs"] if fs else ["setfl", "DL_POLY_EAM"]
  others = [t for t in family if t != target] + ([target] if tier == "thorough" else [])
  orders = [("Zr", "Cu", "Al"), ("Cu", "Al")] + ([] if tier == "quick" else [("Cu", "Zr", "Al"), ("Zr", "Al")])
  out = []
  for i, order in enumerate(orders):
    cov = EC.covering_pair_states(order, seed=i + 7)
    for other in others:
      for route in ("class", "func"):
        extra = {}
        if target == "eam_adp":
          if route == "func":
            continue
          extra = dict(dip=cov[1 % len(cov)], quad=cov[2 % len(cov)])
        out.append(Case("api %s %s after %s %s" % (target, "/".join(order), other, route), api_case, target=target, elements=order, pairs=cov[i % len(cov)], nr=3, nrho=2 + i % 2,
                        route=route, rot=i, rewrite=False, written_first=other, **extra))
  return out


def energy_override_cases(target, tier):
  """pair potentials that are Potential subclasses overriding energy(), declared in either species order"""
  from symx.run import Case
  out = []
  orders = [("Cu", "Al"), ("Zr", "Cu", "Al")] + ([] if tier == "quick" else [("Al", "Cu"), ("Cu",), ("Al", "Zr", "Cu")])
  for i, order in enumerate(orders):
    keys = EC.all_pair_keys(order)
    for j in range(2 if tier == "quick" else 4):
      st = {}
      for n, k in enumerate(keys):
        c = (i + j + n) % 3
        st[k] = (k[0], k[1]) if (c == 0 or k[0] == k[1]) else ((k[1], k[0]) if c == 1 else (None if n % 2 else (k[1], k[0])))
      extra = {}
      if target == "eam_adp":
        extra = dict(dip=dict(st), quad=dict(st))
      out.append(Case("api %s %s energy() overridden #%d" % (target, "/".join(order), j), api_case, target=target, elements=order, pairs=st, nr=3, nrho=2 + j % 2,
                      route="class" if (i + j) % 2 or target == "eam_adp" else "func", rot=i + j, energy_override=[k for n, k in enumerate(keys) if (n + j) % 2 == 0], **extra))
  return out


def cutoff_arg_cases(target, tier):
  from symx.run import Case
  out = []
  orders = [("Cu",), ("Al", "Cu")] + ([] if tier == "quick" else [("Zr", "Cu", "Al")])
  for i, order in enumerate(orders):
    cov = EC.covering_pair_states(order, seed=i + 11)
    out.append(Case("api %s %s explicit cutoff argument" % (target, "/".join(order)), api_case, target=target, elements=order, pairs=cov[i % len(cov)], nr=4, nrho=3,
                    route="func", rot=i, rewrite=False, cutoff_arg=True))
  return out


def long_label_cases(target, tier):
  """species labels of eight characters (block headers have two label fields side by side)"""
  from symx.run import Case
  out = []
  # (charge-state labels contain the character that separates the species of a pair key)
  for i, order in enumerate([("Fe_gamma", "Al", "Fe_alpha"), ("Al", "Fe_alpha"), ("O2-", "Al"), ("F-", "O2-")] + ([] if tier == "quick" else [("Fe_alpha", "Fe_gamma")])):
    cov = EC.covering_pair_states(order, seed=i + 13)
    for j in range(2 if tier == "quick" else 4):
      extra = {}
      if target == "eam_adp":
        extra = dict(dip=cov[(j + 1) % len(cov)], quad=cov[(j + 2) % len(cov)])
      out.append(Case("api %s %s #%d" % (target, "/".join(order), j), api_case, target=target, elements=order, pairs=cov[(3 * j + i) % len(cov)], nr=3, nrho=2 + j % 2,
                      route="class" if j % 2 or target == "eam_adp" else "func", rot=j, **extra))
  return out


def pair_iterable_cases(target, tier):
  from symx.run import Case
  out = []
  for i, order in enumerate([("Cu", "Al"), ("Zr", "Cu", "Al")] + ([] if tier == "quick" else [("Al",)])):
    cov = EC.covering_pair_states(order, seed=i + 17)
    st = dict(cov[i % len(cov)])
    # (at least one pair declared)
    k0 = sorted(st)[0]
    st[k0] = st[k0] or (k0[0], k0[1])
    out.append(Case("api %s %s pair potentials as a generator" % (target, "/".join(order)), api_case, target=target, elements=order, pairs=st, nr=3, nrho=2,
                    route="func", rot=i, rewrite=False, pair_iterable=True))
  return out


class _LateOnset(object):
  """exactly zero inside a core radius, an arbitrary function beyond it"""

  def __init__(self, name, rc):
    self.name, self.rc, self.f = name, rc, uf(name)

  def __call__(self, x):
    if x < self.rc:
      return 0.0
    return self.f(x)


def late_onset_case(target, nr=40, nrho=3, cutoff=4.875, cutoff_rho=7.5, route="func"):
  """concrete grid, uninterpreted functions: the densities (and pair functions) are exactly 0.0 over the first 35 grid points and
  non-zero afterwards - every row still holds the function"""
  fs = target.endswith("_fs")
  elements = ("Cu", "Al")
  model = EC.Model(elements, {("Al", "Cu"): ("Cu", "Al"), ("Al", "Al"): None, ("Cu", "Cu"): ("Cu", "Cu")}, fs=fs)
  res = new_result("api %s %s nr=%d: functions that are exactly zero up to r=4.3125 %s" % (target, model.describe(), nr, route))
  rc = 4.3125      # (step 0.125: every grid point is an exact binary fraction; 35 leading points lie inside the core)

  def mk(name):
    if name.startswith("rho_") or name.startswith("phi_"):
      return _LateOnset(name, rc)
    return Mutable(name)

  def fn():
    eampots, pairpots, d, q = EC.build_objects(model, mk, EC.sym_meta)
    out = Sink()
    write_target(target, route, model, eampots, pairpots, d, q, cutoff, nr, cutoff_rho, nrho, out)
    return out.getvalue()

  def build(path, wrong=False):
    if path.exc is not None:
      raise Structural("exception", "%s: %s" % (type(path.exc).__name__, path.exc))
    dr = rv(cutoff) / rv(nr - 1) * (2 if wrong else 1)
    drho = rv(cutoff_rho) / rv(nrho - 1)
    base = EC.z3_alg()

    def fnn(name):
      f = base.fn(name)
      if name.startswith("rho_") or name.startswith("phi_"):
        return lambda x: z3.If(x < rv(rc), rv(0), f(x))
      return f
    alg = EC.Alg(fnn, rv)
    try:
      parsed, O, E = observed_expected(target, path.value, model, nr, nrho, dr, drho, alg, EC.z3_meta)
    except eamtables.FormatError as e:
      raise Structural("format", "reader rejects the file: %s" % e)
    vcs = EC.vcs_from(path, O, E)
    for v in vcs:
      v.info = dict(v.info or {}, key="late-onset-" + (v.info or {}).get("key", "slot"))
    return vcs

  def replay(v, w, path, structural):
    import io
    names = EC.function_names(model)
    funcs = EC.concrete_functions(names)
    cfuncs = {n: ((lambda x, g=g: 0.0 if x < rc else g(x)) if (n.startswith("rho_") or n.startswith("phi_")) else g) for n, g in funcs.items()}
    try:
      eampots, pairpots, d, q = EC.build_objects(model, lambda name: cfuncs[name], EC.conc_meta)
      out = io.StringIO()
      write_target(target, route, model, eampots, pairpots, d, q, cutoff, nr, cutoff_rho, nrho, out)
      parsed, O, E = observed_expected(target, out.getvalue(), model, nr, nrho, cutoff / (nr - 1), cutoff_rho / (nrho - 1), EC.float_alg(cfuncs), EC.conc_meta)
      bad = EC.compare_dicts(O, E, 1e-12, 1e-12) if EP.STYLE.get(target) else EC.compare_dicts(O, E, 1e-9, 6e-7)
    except Exception as e:  # noqa
      bad = ["%s: %s" % (type(e).__name__, e)]
    rec = dict(kind="eam_late_onset", target=target, model=model.describe(), nr=nr, nrho=nrho, cutoff=cutoff, cutoff_rho=cutoff_rho, mismatches=bad[:10])
    return (bool(bad), "densities and pair functions exactly zero for r < %r: " % rc + ("; ".join(bad[:3]) or "agrees with the model"), rec)

  shims.install()
  try:
    explore_and_check(res, fn, build, replay=replay, negative=lambda p: build(p, wrong=True))
  finally:
    shims.uninstall()
  res["nontrivial"] = res["vcs"]
  return res


def late_onset_cases(target, tier):
  from symx.run import Case
  return [Case("api %s late onset %s" % (target, r_), late_onset_case, target=target, route=r_) for r_ in (("func",) if tier == "quick" else ("func", "class"))]
