"""The built-in potential forms: parameter names (documented signature order)
and domain assumptions used by C06/C07."""
from symx.core import sym, assume

# name -> (parameter names in documented order, exactness)
#   exact    : identity must hold exactly over the reals
#   tolerant : the source contains literals rounded to ~15 digits
FORMS = {
  "bornmayer": (["A", "rho"], "exact"),
  "buck": (["A", "rho", "C"], "exact"),
  "constant": (["constant"], "exact"),
  "coul": (["qi", "qj"], "tolerant"),
  "exponential": (["A", "n"], "exact"),
  "exp_spline": (["B0", "B1", "B2", "B3", "B4", "B5", "C"], "exact"),
  "hbnd": (["A", "B"], "exact"),
  "lj": (["epsilon", "sigma"], "exact"),
  "morse": (["gamma", "r_star", "D"], "exact"),
  "sqrt": (["G"], "exact"),
  "tang_toennies": (["A", "b", "C_6", "C_8", "C_10"], "tolerant"),
  "zbl": (["z1", "z2"], "tolerant"),
  "zero": ([], "exact"),
}


def sym_params(name, prefix=""):
  names = FORMS[name][0]
  ps = [sym(prefix + n) for n in names]
  if name == "zbl":
    for p in ps:
      assume(p > 0)
  return ps
