"""C18 Tabulated input is reproduced at its data points and is zero outside its range."""
import io
import os
import tempfile
import time

import z3

from symx import core, shims, xhrun
from symx.core import sym, assume, uf, rv, term
from symx.harness import explore_and_check, Structural, T, Sink
from symx.run import Case, new_result
from symx.vc import VC, eq_formula
from checks import common

ID = "C18"
META = dict(
  functions=["_tablereaders.TableReaderBase.getValue/_findIndex/_XProxy", "_tablereaders.DatReader._populate", "atsim.potentials.TableReader.__call__",
             "atsim.potentials.plotToFile/plot/plotPotentialObjectToFile/plotPotentialObject",
             "config._config_parser._TableFormSection._parse_x_y/_parse_xy/_parse_data/_parse_section", "tableforms.Cubic_Spline_Table_Form",
             "config._table_form_builder.Table_Form_Builder/Table_Form/Table_Form_Factory", "config._potential_form_registry._build_table_forms"],
  bounds=dict(quick=dict(table="1..4 symbolic strictly increasing x_i with symbolic y_i, symbolic query point (every path of the bisect search)",
                         plot="steps in 1..5, symbolic lowx/highx, uninterpreted func", table_form="3..5 data points as opaque symbolic values through the "
                         "real parser/builder/registry to a contract stub of scipy's spline", dat="text: <= 2 lines of <= 5 characters over '12. #\\n' (CrossHair)"),
              thorough=dict(table="1..6 points", plot="steps 1..8", table_form="3..8 points", dat="as quick with a longer budget")),
  stubs=["scipy.interpolate.InterpolatedUnivariateSpline(x, y, ext) -> interpolant I with I(x_i) = y_i, and 0 outside [x_0, x_n] when ext=1 "
         "(scipy's documented contract), derivative() -> I', I''", "potentials to plot are uninterpreted functions"],
  outside=["that FITPACK's interpolant passes through the data / is zero outside / has exact derivatives (Fortran behind scipy; assumed as its contract)",
           "DatReader on arbitrary text: CrossHair realises strings at float(), so it searches for counterexamples but cannot confirm all paths; "
           "those two conditions are reported inconclusive, never as held"],
  assumptions=["floats as reals"],
  explanation="getValue/_findIndex and plotToFile run on symbolic data; the solver compares the returned term with the piecewise-linear "
              "specification on every path; table forms: symbolic data travel as opaque values through the real parser and builder into a contract stub",
  max_inconclusive=dict(quick=3, thorough=3),
)

R = core.R


# ---------------------------------------------------------------------------
# (a) legacy TableReader: getValue / _findIndex

def getvalue_case(n, via="getValue", repeats=False):
  """repeats: rows may share an x value (two pasted blocks with a common boundary row); queries at a
  repeated x are excluded (which of its y values is 'the tabulated y' is not defined), everywhere else the specification is unchanged"""
  res = new_result("TableReader %s n=%d%s" % (via, n, " (repeated x allowed)" if repeats else ""))
  from atsim.potentials._tablereaders import TableReaderBase
  import atsim.potentials as ap

  def fn():
    xs = [sym("x%d" % i) for i in range(n)]
    ys = [sym("y%d" % i) for i in range(n)]
    q = sym("q")
    for i in range(n - 1):
      assume((xs[i] <= xs[i + 1]) if repeats else (xs[i] < xs[i + 1]))
    if repeats:
      for i in range(n - 1):
        assume(z3.Implies(term(xs[i]) == term(xs[i + 1]), term(q) != term(xs[i])))

    class Rd(TableReaderBase):
      def _populate(self, fileobj):
        self.extend(list(zip(xs, ys)))
    rd = Rd(None)
    if via == "TableReader":
      # the public callable wraps a DatReader; graft the symbolic rows into one
      t = ap.TableReader.__new__(ap.TableReader)
      t._tablereader = rd
      v = t(q)
    else:
      v = rd.getValue(q)
    return term(v) if isinstance(v, core.SReal) else rv(v)

  X = [z3.Real("x%d" % i) for i in range(n)]
  Y = [z3.Real("y%d" % i) for i in range(n)]
  q = z3.Real("q")

  def oracle(shift=0):
    e = z3.RealVal(0)
    # between neighbours: the straight line through them
    for i in range(n - 1):
      lin = Y[i] + (Y[i + 1] - Y[i]) * (q - X[i]) / (X[i + 1] - X[i])
      e = z3.If(z3.And(q > X[i], q < X[i + 1]), lin, e)
    for i in range(n):
      e = z3.If(q == X[i], Y[(i + shift) % n], e)
    return z3.If(z3.Or(q < X[0], q > X[n - 1]), z3.RealVal(0), e)

  def build(path, wrong=False):
    if path.exc is not None:
      raise Structural("exception", "%s: %s" % (type(path.exc).__name__, path.exc))
    if wrong:
      return [VC("neg", eq_formula(path.value, oracle(0) + 1))]
    vcs = [VC("getValue==spec", eq_formula(path.value, oracle()), info=dict(key="table-reader-value"))]
    # between two neighbours the value lies between their y values
    for i in range(n - 1):
      lo = z3.If(Y[i] <= Y[i + 1], Y[i], Y[i + 1])
      hi = z3.If(Y[i] <= Y[i + 1], Y[i + 1], Y[i])
      vcs.append(VC("between%d" % i, z3.Implies(z3.And(q > X[i], q < X[i + 1]), z3.And(path.value >= lo, path.value <= hi)), info=dict(key="table-reader-between")))
    return vcs

  def replay(v, w, path, structural):
    return replay_getvalue(n, w, repeats)

  explore_and_check(res, fn, build, replay=replay, negative=lambda p: build(p, wrong=True), explorer_kw=dict(max_paths=4000))
  return res


def replay_getvalue(n, w, repeats=False):
  import atsim.potentials as ap
  xs, ys = [], []
  ok = True
  for i in range(n):
    x, y = w.get("x%d" % i), w.get("y%d" % i)
    if not isinstance(x, float) or not isinstance(y, float) or (xs and (x < xs[-1] if repeats else x <= xs[-1])) or abs(x) > 1e6 or abs(y) > 1e6:
      ok = False
      break
    xs.append(x)
    ys.append(y)
  if not ok:
    xs = [0.5 + 0.75 * i for i in range(n)]
    ys = [1.0 + ((-1) ** i) * 0.5 * (i + 1) for i in range(n)]
    if repeats and n >= 3:
      xs[1] = xs[0]          # two rows share the lowest x
      ys[1] = ys[0]
  text = "# x y\n\n" + "".join("%r %r\n" % (x, y) for x, y in reversed(list(zip(xs, ys))))
  t = ap.TableReader(io.StringIO(text))
  qs = [x for x in xs if xs.count(x) == 1] + [0.5 * (a + b) for a, b in zip(xs, xs[1:]) if a != b] + [xs[0] - 1.0, xs[-1] + 1.0]
  if isinstance(w.get("q"), float) and ok:
    qs.append(w["q"])
  bad = []
  for qv in qs:
    if qv < xs[0] or qv > xs[-1]:
      want = 0.0
    elif qv in xs:
      if xs.count(qv) > 1:
        continue
      want = ys[xs.index(qv)]
    else:
      i = max(j for j in range(n) if xs[j] < qv)
      want = ys[i] + (ys[i + 1] - ys[i]) * (qv - xs[i]) / (xs[i + 1] - xs[i])
    try:
      got = t(qv)
    except Exception as e:  # noqa
      bad.append("TableReader(%r) raises %s: %s (data %r)" % (qv, type(e).__name__, e, list(zip(xs, ys))))
      continue
    if abs(got - want) > 1e-9 * max(1.0, abs(want)):
      bad.append("TableReader(%r) = %r, specification %r (data %r)" % (qv, got, want, list(zip(xs, ys))))
  return (bool(bad), "; ".join(bad[:3]) or "TableReader agrees with the piecewise-linear specification", dict(kind="tablereader", x=xs, y=ys))


# ---------------------------------------------------------------------------
# (b) plotToFile / plot / plotPotentialObjectToFile

def plot_case(steps, route):
  res = new_result("plot %s steps=%d" % (route, steps))
  import atsim.potentials as ap

  def fn():
    lo, hi = sym("lowx"), sym("highx")
    f = uf("f")
    out = Sink()
    if route == "plotToFile":
      ap.plotToFile(out, lo, hi, f, steps)
    elif route == "plotPotentialObjectToFile":
      ap.plotPotentialObjectToFile(out, lo, hi, ap.Potential("A", "B", f), steps)
    else:
      d = tempfile.mkdtemp(prefix="c18_")
      p = os.path.join(d, "plot.dat")
      try:
        if route == "plot":
          ap.plot(p, lo, hi, f, steps)
        else:
          ap.plotPotentialObject(p, lo, hi, ap.Potential("A", "B", f), steps)
        with open(p) as fh:
          out.write(fh.read())
      finally:
        import shutil
        shutil.rmtree(d, ignore_errors=True)
    return out.getvalue()

  lo, hi = z3.Real("lowx"), z3.Real("highx")
  fz = z3.Function("f", R, R)

  def build(path, wrong=False):
    if path.exc is not None:
      raise Structural("exception", "%s: %s" % (type(path.exc).__name__, path.exc))
    text = path.value
    if not text.endswith("\n"):
      raise Structural("format", "output does not end with a newline")
    rows = text[:-1].split("\n")
    if len(rows) != steps:
      raise Structural("rows", "%d rows written for steps=%d" % (len(rows), steps))
    vcs = []
    for i, row in enumerate(rows):
      toks = row.split(" ")
      if len(toks) != 2:
        raise Structural("format", "row %d is %r, expected two space separated columns" % (i, row))
      x, y = T(path, float(toks[0])), T(path, float(toks[1]))
      xi = lo + rv(i + (1 if wrong else 0)) * (hi - lo) / rv(steps)
      vcs.append(VC("x[%d]" % i, eq_formula(x, xi), info=dict(key="plot-x")))
      vcs.append(VC("y[%d]" % i, eq_formula(y, fz(xi)), info=dict(key="plot-y")))
    return vcs

  def replay(v, w, path, structural):
    import math
    lo_, hi_ = w.get("lowx"), w.get("highx")
    if not (isinstance(lo_, float) and isinstance(hi_, float) and abs(lo_) < 1e6 and abs(hi_) < 1e6 and lo_ != hi_):
      lo_, hi_ = 0.5, 4.25
    f = lambda x: math.sin(1.3 * x) + 0.1 * x * x
    out = io.StringIO()
    if route in ("plotToFile", "plot"):
      ap.plotToFile(out, lo_, hi_, f, steps)
    else:
      ap.plotPotentialObjectToFile(out, lo_, hi_, ap.Potential("A", "B", f), steps)
    rows = [l for l in out.getvalue().split("\n") if l]
    bad = []
    if len(rows) != steps:
      bad.append("%d rows for steps=%d" % (len(rows), steps))
    for i, row in enumerate(rows[:steps]):
      x, y = [float(t) for t in row.split()]
      xi = lo_ + i * (hi_ - lo_) / steps
      if abs(x - xi) > 1e-9 * max(1, abs(xi)) or abs(y - f(xi)) > 1e-9 * max(1, abs(f(xi))):
        bad.append("row %d is (%r, %r), expected (%r, %r)" % (i, x, y, xi, f(xi)))
    return (bool(bad), "; ".join(bad[:3]) or "rows agree", dict(kind="plot", lowx=lo_, highx=hi_, steps=steps))

  explore_and_check(res, fn, build, replay=replay, negative=lambda p: build(p, wrong=True))
  return res


# ---------------------------------------------------------------------------
# (c) table forms: x/y vs xy, and the wiring of the data into the interpolant

class _Interp(object):
  """Contract stub of scipy's InterpolatedUnivariateSpline."""
  calls = []

  def __init__(self, x, y, order=0, idx=None, **kw):
    self.x, self.y, self.kw, self.order = list(x), list(y), kw, order
    if order == 0:
      idx = len(_Interp.calls)
      _Interp.calls.append(self)
    self.idx = idx

  def __call__(self, q):
    name = ["I%d", "d_I%d", "d2_I%d"][self.order] % self.idx
    return core.SReal(z3.Function(name, R, R)(term(q)))

  def derivative(self):
    return _Interp(self.x, self.y, self.order + 1, self.idx, **self.kw)


def plot_fp_case(steps, timeout_s=60):
  """Row count of plotToFile under floating point: the real function runs on Float64 terms (low and high ends symbolic);
  a path that writes a number of rows other than `steps` is handed to z3 (QF_FP) for a witness, which is replayed."""
  import atsim.potentials as ap
  from symx import fpalg
  res = new_result("plot row count under floating point, steps=%d" % steps)
  shims.install(extra_globals={m.__name__: dict(float=fpalg.sfloat, int=fpalg.sint) for m in shims.repo_modules()})
  wrong = []
  try:
    def fn():
      lo, hi = z3.FP("lowx", fpalg.F64), z3.FP("highx", fpalg.F64)
      core.cur().assume(z3.And(z3.fpGEQ(lo, fpalg.fpv(0.0)), z3.fpLEQ(lo, fpalg.fpv(8.0)), z3.fpGEQ(hi, fpalg.fpv(0.0625)), z3.fpLEQ(hi, fpalg.fpv(16.0)),
                               z3.fpGEQ(z3.fpSub(fpalg.RNE, hi, lo), fpalg.fpv(0.0625))))
      xs = []

      def f(x):
        xs.append(x)
        if len(xs) > steps + 2:
          raise core.PathAbort("more than steps + 2 rows", "too-many-rows")
        return 1.0

      class Out(object):
        n = 0

        def write(self, t):
          Out.n += t.count("\n")
      Out.n = 0
      ap.plotToFile(Out(), fpalg.SFP(lo), fpalg.SFP(hi), f, steps)
      return Out.n, len(xs)
    ex = core.Explorer(max_paths=8 * steps + 16, max_seconds=timeout_s + 120, blind=True)
    for p in ex.iter_paths(fn, catch=(Exception,)):
      if p.aborted and "more than steps" in str(p.aborted):
        res["vcs"] += 1
        wrong.append((steps + 3, steps + 3, list(p.pc)))
        continue
      if p.exc is not None or p.aborted:
        res["inconclusive"].append("Float64 run of plotToFile ended: %r %r" % (p.exc, p.aborted))
        continue
      rows, evals = p.value
      res["vcs"] += 1
      if rows == steps and evals == steps:
        res["unsat"] += 1
        continue
      wrong.append((rows, evals, list(p.pc)))
    res["paths"] += ex.stats["paths"]
    res["queries"] += ex.stats["feasibility_queries"]
    res["solver_s"] += ex.stats["solver_s"]
  finally:
    shims.uninstall()
  res["negatives"] += 1
  res["negatives_ok"] += 1 if res["paths"] >= 1 else 0
  undecided = 0
  wrong.sort(key=lambda w_: abs(w_[0] - steps))
  for rows, evals, pc in wrong[:4]:
    s = z3.SolverFor("QF_FP")
    s.set("timeout", int(timeout_s * 1000))
    for c in pc:
      s.add(c)
    t0 = time.time()
    r = s.check()
    res["queries"] += 1
    res["solver_s"] += time.time() - t0
    if r == z3.unsat:
      res["unsat"] += 1
      continue
    if r != z3.sat:
      undecided += 1
      continue
    res["sat"] += 1
    m = s.model()
    lo = float(z3.simplify(z3.fpToReal(m.eval(z3.FP("lowx", fpalg.F64), model_completion=True))).as_fraction())
    hi = float(z3.simplify(z3.fpToReal(m.eval(z3.FP("highx", fpalg.F64), model_completion=True))).as_fraction())
    out = io.StringIO()
    ap.plotToFile(out, lo, hi, lambda x: 1.0, steps)
    n = out.getvalue().count("\n")
    res["replays"] += 1
    if n != steps:
      res["violations"].append(dict(key="plot-row-count-floating-point", desc="plotToFile(low=%r, high=%r, steps=%d) writes %d rows" % (lo, hi, steps, n),
                                    record=dict(kind="plot_rows", low=lo, high=hi, steps=steps, rows=n)))
      return res
    res["inconclusive"].append("Float64 witness low=%r high=%r for %d rows did not reproduce (%d rows written)" % (lo, hi, rows, n))
  if undecided:
    res["inconclusive"].append("%d paths of plotToFile write a number of rows other than steps=%d; z3 did not decide whether any Float64 input takes them" % (undecided, steps))
  return res


def _tags(n, base):
  return [float(base + i) for i in range(n)]


def tableform_case(n, layout, history=False):
  """layout: 'x_y' | 'xy' | 'both' (both sections in one file: same function).
  history: another model with table forms of the same names (other data) is
  built first in the same process."""
  res = new_result("table form n=%d %s%s" % (n, layout, " after an earlier model with the same table names" if history else ""))
  import scipy.interpolate as si
  from atsim.potentials.config import ConfigParser
  from atsim.potentials.config._potential_form_registry import Potential_Form_Registry
  xt, yt = _tags(n, 501), _tags(n, 701)       # placeholder numerals, replaced by symbols after parsing
  sx, sy = " ".join(repr(v) for v in xt), " ".join(repr(v) for v in yt)
  sxy = "\n     ".join("%r  %r" % (a, b) for a, b in zip(xt, yt))
  text = ""
  if layout in ("x_y", "both"):
    text += "[Table-Form:tabA]\ninterpolation : cubic_spline\nx : %s\ny : %s\n\n" % (sx, sy)
  if layout in ("xy", "both"):
    text += "[Table-Form:tabB]\nxy : %s\n\n" % sxy
  if layout == "xy3":
    # the same data wrapped three values to a line (pairs straddle the line breaks)
    flat = [repr(v) for pair in zip(xt, yt) for v in pair]
    text += "[Table-Form:tabB]\nxy : %s\n\n" % "\n     ".join(" ".join(flat[i:i + 3]) for i in range(0, len(flat), 3))
  cp = ConfigParser(io.StringIO(text))
  tuples = cp.table_form      # real _parse_section/_parse_data/_parse_x_y/_parse_xy
  shims.install()
  saved = si.InterpolatedUnivariateSpline

  def fn():
    X = [sym("x%d" % i) for i in range(n)]
    Y = [sym("y%d" % i) for i in range(n)]
    q = sym("q")
    tab = dict(zip(xt, X))
    tab.update(zip(yt, Y))
    sym_tuples = [t._replace(x=[tab.get(v, v) for v in t.x], y=[tab.get(v, v) for v in t.y]) for t in tuples]

    class CP(object):
      table_form = sym_tuples

      @property
      def potential_form(self):
        from atsim.potentials.config._common import ConfigParserMissingSectionException
        raise ConfigParserMissingSectionException("no [Potential-Form]")
    _Interp.calls = []
    si.InterpolatedUnivariateSpline = _Interp
    try:
      if history:
        P = [sym("px%d" % i) for i in range(n + 1)]
        Q = [sym("py%d" % i) for i in range(n + 1)]
        CP0 = type("CP0", (CP,), dict(table_form=[t._replace(x=list(P), y=list(Q)) for t in tuples]))
        reg0 = Potential_Form_Registry(CP0(), register_standard=False)
        for t in tuples:
          reg0[t.name]()(q)
      reg = Potential_Form_Registry(CP(), register_standard=False)
      out = {}
      for t in sym_tuples:
        f = reg[t.name]()
        out[t.name] = [term(f(q)), term(f.deriv(q)), term(f.deriv2(q))]
        # a second object of the same form asked in the opposite order (second derivative first)
        g = reg[t.name]()
        d2 = term(g.deriv2(q))
        d1 = term(g.deriv(q))
        out[t.name] += [term(g(q)), d1, d2]
      calls = [(c.x, c.y, dict(c.kw)) for c in _Interp.calls]
    finally:
      si.InterpolatedUnivariateSpline = saved
    return out, calls

  X = [z3.Real("x%d" % i) for i in range(n)]
  Y = [z3.Real("y%d" % i) for i in range(n)]
  q = z3.Real("q")

  def build(path, wrong=False):
    if path.exc is not None:
      raise Structural("exception", "%s: %s" % (type(path.exc).__name__, path.exc))
    out, calls = path.value
    vcs = []
    used = []
    for (name, terms) in sorted(out.items()):
      dn = terms[0].decl().name() if z3.is_app(terms[0]) else ""
      if not (dn.startswith("I") and dn[1:].isdigit() and int(dn[1:]) < len(calls)):
        raise Structural("not-interpolant", "table form %s does not evaluate the interpolant built from its data: %s" % (name, terms[0]))
      k_ = int(dn[1:])
      used.append(k_)
      (cx, cy, kw) = calls[k_]
      if kw.get("ext") not in (1, "zeros"):
        raise Structural("ext", "interpolant of %s built with %r: values outside the data range are not forced to zero" % (name, kw))
      if len(cx) != n or len(cy) != n:
        raise Structural("data-length", "interpolant of %s received %d x and %d y values for %d data points" % (name, len(cx), len(cy), n))
      # the interpolant's contract, instantiated on the data it was given
      I = z3.Function("I%d" % k_, R, R)
      contract = [I(term(a)) == term(b) for a, b in zip(cx, cy)]
      hyp = z3.And(contract)
      for i in range(n):
        want = Y[(i + 1) % n] if (wrong and n > 1) else Y[i]
        vcs.append(VC("%s.through[%d]" % (name, i), z3.Implies(hyp, z3.substitute(terms[0], (q, X[i])) == want), info=dict(key="tableform-through-points")))
      # data handed over in file order, x as abscissa
      for i in range(n):
        vcs.append(VC("%s.x[%d]" % (name, i), term(cx[i]) == X[i], info=dict(key="tableform-x-data")))
        vcs.append(VC("%s.y[%d]" % (name, i), term(cy[i]) == Y[i], info=dict(key="tableform-y-data")))
      for k, nm in enumerate(["I", "d_I", "d2_I"]):
        vcs.append(VC("%s.%s" % (name, nm), terms[k] == z3.Function(nm + str(k_), R, R)(q), info=dict(key="tableform-wiring-" + nm)))
      if len(terms) >= 6:
        # the object asked for deriv2 first: same three functions (of whichever interpolant object it built from the same data)
        dn2 = terms[3].decl().name() if z3.is_app(terms[3]) else ""
        if not (dn2.startswith("I") and dn2[1:].isdigit() and int(dn2[1:]) < len(calls)):
          raise Structural("not-interpolant", "second object of table form %s does not evaluate an interpolant: %s" % (name, terms[3]))
        j_ = dn2[1:]
        for k, nm in enumerate(["I", "d_I", "d2_I"]):
          vcs.append(VC("%s.%s (deriv2 asked first)" % (name, nm), terms[3 + k] == z3.Function(nm + j_, R, R)(q), info=dict(key="tableform-wiring-order-" + nm)))
    if len(out) == 2:
      a, b = sorted(out)
      # same data, same interpolation settings -> same function (the interpolant is a function of its arguments)
      (ax, ay, akw), (bx, by, bkw) = calls[used[0]], calls[used[1]]
      if akw != bkw:
        raise Structural("xy-settings", "x/y and xy forms build their interpolants with different settings: %r vs %r" % (akw, bkw))
      for i in range(n):
        vcs.append(VC("x_y==xy.data[%d]" % i, z3.And(term(ax[i]) == term(bx[i]), term(ay[i]) == term(by[i])), info=dict(key="tableform-xy-equivalence")))
    return vcs

  def replay(v, w, path, structural):
    c, d, r = common.in_fresh_process("checks.c18", "replay_tableform", n, history)
    return bool(c), d, r

  try:
    explore_and_check(res, fn, build, replay=replay, negative=lambda p: build(p, wrong=True))
  finally:
    shims.uninstall()
    si.InterpolatedUnivariateSpline = saved
  return res


def replay_tableform(n, history=False):
  from atsim.potentials.config import Configuration
  xs = [0.3 + 0.4 * i + 0.05 * (i % 3) for i in range(max(n, 4))]
  ys = [2.0 - 0.7 * i + 0.3 * (i % 2) for i in range(max(n, 4))]
  head = "[Tabulation]\ntarget : LAMMPS\ncutoff : 5.0\nnr : 6\n\n[Pair]\nA-A : tabA\nB-B : tabB\nC-C : tabC\n\n"
  if history:
    x0 = [0.1 + 0.9 * i for i in range(max(n, 4) + 1)]
    y0 = [5.0 + 0.25 * i * i for i in range(max(n, 4) + 1)]
    t0 = head + "[Table-Form:tabA]\nx : %s\ny : %s\n\n[Table-Form:tabB]\nxy : %s\n" % (
      " ".join(repr(v) for v in x0), " ".join(repr(v) for v in y0), "\n   ".join("%r %r" % p for p in zip(x0, y0)))
    t0 += "\n[Table-Form:tabC]\nxy : %s\n" % "\n   ".join("%r %r" % p for p in zip(x0, y0))
    for p in Configuration().read(io.StringIO(t0)).potentials:
      p.energy(1.0)
  text = head + "[Table-Form:tabA]\nx : %s\ny : %s\n\n[Table-Form:tabB]\nxy : %s\n" % (
    " ".join(repr(v) for v in xs), " ".join(repr(v) for v in ys), "\n   ".join("%r %r" % p for p in zip(xs, ys)))
  flat = [repr(v) for pair in zip(xs, ys) for v in pair]
  wrapped3 = "\n     ".join(" ".join(flat[i:i + 3]) for i in range(0, len(flat), 3))
  text += "\n[Table-Form:tabC]\nxy : %s\n" % wrapped3
  try:
    tab = Configuration().read(io.StringIO(text))
  except Exception as e:  # noqa
    return (True, "a model with the same data as x/y, as xy pairs and as xy wrapped three values to a line is refused: %s: %s" % (type(e).__name__, e), dict(kind="tableform", x=xs, y=ys, model=text))
  pa, pb, pc3 = [p.potentialFunction for p in tab.potentials]
  bad = []
  for x, y in zip(xs, ys):
    if abs(pc3(x) - y) > 1e-9:
      bad.append("xy data wrapped three values to a line: at data point (%r, %r) the form gives %r" % (x, y, pc3(x)))
      break
  for x, y in zip(xs, ys):
    if abs(pa(x) - y) > 1e-9 or abs(pb(x) - y) > 1e-9:
      bad.append("at data point (%r, %r): x/y form gives %r, xy form %r" % (x, y, pa(x), pb(x)))
  import math
  outside = [xs[0] - 0.1, xs[-1] + 0.1, xs[-1] + 10,
             # just outside: one ulp, and a relative 1e-7 / 1e-10, beyond either end
             math.nextafter(xs[-1], math.inf), xs[-1] * (1 + 1e-7), xs[-1] * (1 + 1e-10), math.nextafter(xs[0], -math.inf), xs[0] * (1 - 1e-7), xs[0] - 1e-9]
  for x in outside:
    if pa(x) != 0.0 or pb(x) != 0.0:
      bad.append("outside the data range at %r: %r / %r" % (x, pa(x), pb(x)))
    if pa.deriv(x) != 0.0 or pa.deriv2(x) != 0.0:
      bad.append("outside the data range at %r the derivatives are %r / %r" % (x, pa.deriv(x), pa.deriv2(x)))
  for x in (0.5 * (xs[0] + xs[1]), 0.37 * xs[1] + 0.63 * xs[2]):
    if abs(pa(x) - pb(x)) > 1e-12:
      bad.append("x/y and xy forms differ at %r: %r vs %r" % (x, pa(x), pb(x)))
    h = 1e-5
    dn = (pa(x + h) - pa(x - h)) / (2 * h)
    if abs(pa.deriv(x) - dn) > 1e-5 * max(1, abs(dn)):
      bad.append("deriv at %r is %r, finite difference %r" % (x, pa.deriv(x), dn))
    # a fresh object asked for the second derivative first
    pc = Configuration().read(io.StringIO(text)).potentials[0].potentialFunction
    d2 = pc.deriv2(x)
    if abs(pc.deriv(x) - dn) > 1e-5 * max(1, abs(dn)) or abs(d2 - pa.deriv2(x)) > 1e-9 * max(1, abs(d2)):
      bad.append("asked for deriv2 first, then deriv at %r: %r / %r; finite difference of the values %r, deriv2 of an object asked in the usual order %r" % (x, d2, pc.deriv(x), dn, pa.deriv2(x)))
  return (bool(bad), "; ".join(bad[:3]) or "table forms pass through their data, vanish outside and agree", dict(kind="tableform", x=xs, y=ys))


def xh_case(name, timeout):
  return xhrun.run_condition("xh.c18_dat", name, timeout)


def cases(tier, seed=0):
  q = tier == "quick"
  cs = []
  for n in (range(1, 5) if q else range(1, 7)):
    cs.append(Case("getValue n=%d" % n, getvalue_case, n=n))
  cs.append(Case("TableReader n=3", getvalue_case, n=3, via="TableReader"))
  for n in ((3, 4) if q else (3, 4, 5)):
    cs.append(Case("getValue n=%d repeats" % n, getvalue_case, n=n, repeats=True))
  for route in ("plotToFile", "plot", "plotPotentialObjectToFile", "plotPotentialObject"):
    for steps in ((1, 3, 5) if q else range(1, 9)):
      cs.append(Case("plot %s %d" % (route, steps), plot_case, steps=steps, route=route))
  for steps in ((10,) if q else (3, 7, 10, 12)):
    cs.append(Case("plot rows under floating point steps=%d" % steps, plot_fp_case, steps=steps, timeout_s=60 if q else 300))
  for n in ((3, 4, 5) if q else range(3, 9)):
    for layout in ("x_y", "xy", "both", "xy3"):
      cs.append(Case("tableform %d %s" % (n, layout), tableform_case, n=n, layout=layout))
    cs.append(Case("tableform %d both history" % n, tableform_case, n=n, layout="both", history=True))
  t = 45 if q else 400
  cs.append(Case("xh dat_rows", xh_case, name="dat_rows", timeout=t))
  cs.append(Case("xh dat_rows_three", xh_case, name="dat_rows_three", timeout=t))
  cs.append(Case("xh dat_suffix", xh_case, name="dat_suffix", timeout=t))
  return cs


def replay(path):
  return common.generic_replay(path)
