"""potable route for the EAM targets (C03, C04, C05, C19) and the concrete
replays of EAM counterexamples."""
import io
import math

import z3

from symx import core, shims
from symx.core import sym, assume, rv, term
from symx.harness import explore_and_check, Structural, T, Sink
from symx.run import new_result
from symx.vc import VC, eq_formula
from readers import eamtables
from checks import eam_common as EC

_TAB = ("[Tabulation]\ntarget : %(target)s\ncutoff : 6.0\nnr : %(nr)d\ncutoff_rho : 50.0\nnrho : %(nrho)d\n\n")

EAM_MODELS = {
  "eam_basic": dict(text=_TAB + """[EAM-Embed]
Cu : as.polynomial 0.0 -1.5 0.25
Al : as.sqrt -2.0

[EAM-Density]
Cu : as.bornmayer 3.0 0.5
Al : as.polynomial 1.0 0.5

[Pair]
Al-Cu : as.morse 1.2 2.5 0.3
Cu-Cu : as.bornmayer 900.0 0.3
"""),
  "eam_species": dict(text=_TAB + """[EAM-Embed]
Zr : as.polynomial 0.0 -1.0
Xx : as.sqrt -3.0
Al : as.polynomial 0.5 0.25 0.125

[EAM-Density]
Al : as.bornmayer 2.0 0.75
Zr : as.constant 0.5
Xx : as.polynomial 0.0 1.0

[Pair]
Xx-Al : as.bornmayer 100.0 0.25
Zr-Zr : as.polynomial 1.0 -0.5
Al-Zr : sum(as.bornmayer 50.0 0.5, as.constant -0.25)

[Species]
Xx.atomic_number : 0
Xx.atomic_mass : 300.5
Zr.atomic_mass : 0.0
Zr.atomic_number : 0
Al.lattice_constant : 4.05
Al.lattice_type : bcc
Xx.lattice_type : hcp
"""),
  # labels that decorate an element symbol (phases, charge states): not in the element table, metadata from [Species] or the defaults
  "eam_decorated": dict(text=_TAB + """[EAM-Embed]
Fe_a : as.polynomial 0.0 -1.0
Ni2 : as.sqrt -3.0
U4+ : as.polynomial 0.5 0.25

[EAM-Density]
Fe_a : as.bornmayer 2.0 0.75
Ni2 : as.constant 0.5
U4+ : as.polynomial 0.0 1.0

[Pair]
Fe_a-Ni2 : as.bornmayer 100.0 0.25
U4+-U4+ : as.polynomial 1.0 -0.5

[Species]
Fe_a.atomic_number : 26
Fe_a.atomic_mass : 55.25
Fe_a.lattice_constant : 2.875
Fe_a.lattice_type : bcc
Ni2.atomic_number : 28
Ni2.atomic_mass : 58.5
U4+.atomic_number : 92
U4+.atomic_mass : 238.25
U4+.lattice_type : hcp
"""),
  "eam_species2": dict(text=_TAB + """[EAM-Embed]
Cu : as.polynomial 0.0 -1.0
Al : as.sqrt -3.0

[EAM-Density]
Al : as.bornmayer 2.0 0.75
Cu : as.constant 0.5

[Pair]
Cu-Al : as.bornmayer 100.0 0.25

[Species]
Cu.atomic_mass : 70.25
Cu.lattice_constant : 3.5
Cu.lattice_type : hcp
Al.atomic_mass : 30.5
Al.atomic_number : 14
"""),
  "eam_undeclared": dict(text=_TAB + """[EAM-Embed]
Al : as.sqrt -1.25

[EAM-Density]
Al : as.polynomial 1.0 0.5
Cu : as.bornmayer 3.0 0.5

[Pair]
Cu-Al : as.morse 1.1 2.4 0.2
"""),
  # Zr takes part through densities only: its embedding function is left to the builder (a null function)
  "fs_undeclared": dict(fs=True, text=_TAB + """[EAM-Embed]
Cu : as.polynomial 0.0 -1.5 0.25
Al : as.sqrt -2.0

[EAM-Density]
Al->Cu : as.bornmayer 3.0 0.5
Zr->Cu : as.polynomial 0.5 0.25
Cu->Al : as.polynomial 1.0 0.5
Al->Al : as.polynomial 0.25 0.0 0.5

[Pair]
Cu-Al : as.morse 1.2 2.5 0.3
"""),
  "fs_basic": dict(fs=True, text=_TAB + """[EAM-Embed]
Cu : as.polynomial 0.0 -1.5 0.25
Al : as.sqrt -2.0

[EAM-Density]
Al->Cu : as.bornmayer 3.0 0.5
Cu->Al : as.polynomial 1.0 0.5
Al->Al : as.polynomial 0.25 0.0 0.5

[Pair]
Cu-Al : as.morse 1.2 2.5 0.3
Al-Al : as.bornmayer 900.0 0.3
"""),
  # multi-range densities that share their first range (same form, same numbers) and differ only later:
  # parameters are kept concrete so that entries really are textually alike
  "fs_multirange": dict(fs=True, concrete=True, text=_TAB + """[EAM-Embed]
Cu : as.polynomial 0.0 -1.5
Al : as.sqrt -2.0

[EAM-Density]
Al->Cu : as.polynomial 0.5 1.0 >=2.5 as.zero
Cu->Al : as.polynomial 0.5 1.0 >=4.0 as.constant 0.25
Al->Al : sum(as.polynomial 0.5 1.0, >=3.0 as.constant 1.0)
Cu->Cu : sum(as.polynomial 0.5 1.0, >=1.5 as.constant 2.0)

[Pair]
Cu-Al : as.polynomial 0.5 1.0 >=2.0 as.zero
Al-Al : as.polynomial 0.5 1.0 >=5.0 as.zero
"""),
  "eam_multirange": dict(concrete=True, text=_TAB + """[EAM-Embed]
Cu : as.polynomial 0.0 -1.5 >=10.0 as.constant -20.0
Al : as.polynomial 0.0 -1.5 >=30.0 as.constant -50.0

[EAM-Density]
Cu : as.polynomial 0.5 1.0 >=2.5 as.zero
Al : as.polynomial 0.5 1.0 >=4.0 as.constant 0.25

[Pair]
Cu-Al : as.polynomial 0.5 1.0 >=2.0 as.zero
Al-Al : as.polynomial 0.5 1.0 >=5.0 as.zero
Cu-Cu : sum(as.polynomial 0.5 1.0, >=1.5 as.constant 2.0)
"""),
  "fs_three": dict(fs=True, text=_TAB + """[EAM-Embed]
Zr : as.polynomial 0.0 -1.0
Al : as.sqrt -2.0
Cu : as.polynomial 0.0 0.5 0.5

[EAM-Density]
Zr->Al : as.polynomial 1.0 1.0
Al->Zr : as.polynomial 2.0 0.5
Cu->Zr : as.bornmayer 1.5 0.5
Zr->Zr : as.constant 0.75
Al->Cu : as.polynomial 0.0 3.0
Cu->Cu : as.bornmayer 2.5 0.25

[Pair]
Zr-Cu : as.polynomial 1.0 -0.25
Al-Al : as.bornmayer 10.0 0.5
"""),
  "adp_basic": dict(adp=True, text=_TAB + """[EAM-Embed]
Cu : as.polynomial 0.0 -1.5 0.25
Al : as.sqrt -2.0

[EAM-Density]
Cu : as.bornmayer 3.0 0.5
Al : as.polynomial 1.0 0.5

[Pair]
Al-Cu : as.morse 1.2 2.5 0.3
Cu-Cu : as.bornmayer 900.0 0.3

[EAM-ADP-Dipole]
Cu-Al : as.polynomial 0.5 0.25
Al-Al : as.bornmayer 2.0 0.5

[EAM-ADP-Quadrupole]
Cu-Cu : as.polynomial 0.0 0.125 0.25
Al-Cu : as.constant 0.375
"""),
}


def ref_meta(cp, symbolic=False):
  """Independent statement of the metadata rule: [Species] override, else the
  built-in element table, else the documented defaults (0.0, fcc).  With
  symbolic=True float-typed overrides are the z3 constants the run uses."""
  from atsim.potentials.referencedata import _data
  sp = {k: dict(v) for k, v in cp.species.items()}
  if symbolic:
    for e, props in sp.items():
      for prop in list(props):
        if prop in ("atomic_mass", "lattice_constant", "charge", "covalent_radius"):
          props[prop] = z3.Real("Species|%s.%s" % (e, prop))

  def meta(e):
    ov = sp.get(e, {})
    base = _data.reference_data.get(e)

    def get(prop, default=None):
      if prop in ov:
        return ov[prop]
      if base is not None and hasattr(base, prop) and getattr(base, prop) is not None:
        return getattr(base, prop)
      return default
    return (get("atomic_number"), get("atomic_mass"), get("lattice_constant", 0.0), get("lattice_type", "fcc"))
  return meta


def declared_model(cp, fs, adp):
  """Model description (element order, declaration states) read from the parsed
  file by the harness's own rules."""
  embed = [t.species for t in cp.eam_embed]
  if fs:
    dens_sp = []
    for t in cp.eam_density_fs:
      for s in (t.species.from_species, t.species.to_species):
        if s not in dens_sp:
          dens_sp.append(s)
  else:
    dens_sp = [t.species for t in cp.eam_density]
  extra = [s for s in dens_sp if s not in embed]
  elements = embed + extra

  def states(tuples):
    d = {k: None for k in EC.all_pair_keys(elements)}
    for t in tuples:
      k = tuple(sorted((t.species.species_a, t.species.species_b)))
      d[k] = (t.species.species_a, t.species.species_b)
    return d
  pairs = states(cp.pair) if cp.raw_config_parser.has_section("Pair") else {k: None for k in EC.all_pair_keys(elements)}
  m = EC.Model(elements, pairs, fs=fs)
  if adp:
    m.dip = states(cp.parse_pair_like("EAM-ADP-Dipole"))
    m.quad = states(cp.parse_pair_like("EAM-ADP-Quadrupole"))
  m.n_zero_filled = len(extra)
  return m


def independent_functions(scp, fs, adp):
  """Every declared function, built directly from its own definition tuple by
  the real Potential_Form_Builder (no EAM builder, no writer)."""
  from atsim.potentials.config._potential_form_registry import Potential_Form_Registry
  from atsim.potentials.config._modifier_registry import Modifier_Registry
  from atsim.potentials.config._potential_form_builder import Potential_Form_Builder
  pfb = Potential_Form_Builder(Potential_Form_Registry(scp, True, True), Modifier_Registry())
  d = {}
  for t in scp.eam_embed:
    d["F_%s" % t.species] = pfb.create_potential_function(t.potential_form_instance)
  if fs:
    for t in scp.eam_density_fs:
      d["rho_%s_%s" % (t.species.from_species, t.species.to_species)] = pfb.create_potential_function(t.potential_form_instance)
  else:
    for t in scp.eam_density:
      d["rho_%s" % t.species] = pfb.create_potential_function(t.potential_form_instance)
  secs = [("Pair", "phi")]
  if adp:
    secs += [("EAM-ADP-Dipole", "u"), ("EAM-ADP-Quadrupole", "w")]
  for sec, pre in secs:
    if not scp.raw_config_parser.has_section(sec):
      continue
    for t in scp.parse_pair_like(sec):
      k = tuple(sorted((t.species.species_a, t.species.species_b)))
      d["%s_%s_%s" % ((pre,) + k)] = pfb.create_potential_function(t.potential_form_instance)
  return d


STYLE = {"setfl": "alloy", "lammps_eam_alloy": "alloy", "setfl_fs": "fs", "eam_adp": "adp"}
CLS = {"setfl": "SetFL_EAMTabulation", "lammps_eam_alloy": "SetFL_EAMTabulation", "setfl_fs": "SetFL_FS_EAMTabulation",
       "eam_adp": "ADP_EAMTabulation", "DL_POLY_EAM": "TABEAM_EAMTabulation", "DL_POLY_EAM_fs": "TABEAM_FinnisSinclair_EAMTabulation"}


def potable_case(model_name, target, nr, nrho, history=()):
  """history: models read and tabulated (concretely) earlier in the same
  process, before the checked model is built (arbitrary prior use)."""
  res = new_result("potable %s target=%s nr=%d nrho=%d%s" % (model_name, target, nr, nrho,
                                                             " after " + "+".join(history) if history else ""))
  for h in history:
    from atsim.potentials.config import Configuration as _C
    hs = EAM_MODELS[h]
    ht = "setfl_fs" if hs.get("fs") else ("eam_adp" if hs.get("adp") else "setfl")
    _C().read(io.StringIO(hs["text"] % dict(target=ht, nr=3, nrho=3))).write(io.StringIO())
  spec = EAM_MODELS[model_name]
  fs, adp = bool(spec.get("fs")), bool(spec.get("adp"))
  from atsim.potentials.config import Configuration, ConfigParser
  from symx.potable import SymParamParser
  text = spec["text"] % dict(target=target, nr=nr, nrho=nrho)
  cp = ConfigParser(io.StringIO(text))
  model = declared_model(cp, fs, adp)
  meta = ref_meta(cp, symbolic=True)
  meta_conc = ref_meta(cp, symbolic=False)
  holder = {"meta": meta}
  shims.install()

  def zero(x):
    return 0.0

  def fn():
    scp = SymParamParser(cp, keep=(lambda *a: True) if spec.get("concrete") else None)
    tab = Configuration().read_from_parser(scp)
    if type(tab).__name__ != CLS[target] or tab.nr != nr or tab.nrho != nrho:
      raise Structural("factory", "factory returned %s nr=%r nrho=%r" % (type(tab).__name__, tab.nr, tab.nrho))
    cutoff, cutoff_rho = sym("cutoff"), sym("cutoff_rho")
    assume(cutoff > 0)
    assume(cutoff_rho > 0)
    tab._cutoff, tab._cutoff_rho = cutoff, cutoff_rho
    out = Sink()
    tab.write(out)
    decl = independent_functions(scp, fs, adp)
    alg = EC.Alg(lambda name: decl.get(name, zero), lambda x: x)
    dr, drho = cutoff / (nr - 1), cutoff_rho / (nrho - 1)
    m_used = meta_conc if getattr(scp, "species_concrete", False) else meta
    holder["meta"] = m_used
    if target in STYLE:
      E = EC.expected_setfl(model, nr, nrho, dr, drho, alg, m_used, STYLE[target])
    else:
      E = EC.expected_tabeam(model, nr, nrho, dr, drho, alg)
    return out.getvalue(), {k: term(v) for k, v in E.items()}

  def build(path, wrong=False):
    if path.exc is not None:
      raise Structural("exception", "%s: %s" % (type(path.exc).__name__, path.exc))
    text_out, E = path.value
    try:
      if target in STYLE:
        parsed = eamtables.read_setfl(text_out, STYLE[target])
        O = EC.observed_setfl(parsed, model, nr, nrho, holder["meta"], STYLE[target])
      else:
        parsed = eamtables.read_tabeam(text_out)
        O = EC.observed_tabeam(parsed, model, nr, nrho)
    except eamtables.FormatError as e:
      raise Structural("format", "reader rejects the file: %s" % e)
    if wrong:
      # negative twin: expectations rotated by one slot within each family
      keys = sorted(E, key=repr)
      E2 = {k: E[keys[(i + 1) % len(keys)]] for i, k in enumerate(keys)}
      return EC.vcs_from(path, O, E2)
    return EC.vcs_from(path, O, E)

  def replay(v, w, path, structural):
    r = replay_eam_potable(text, target, nr, nrho, fs, adp, w)
    if r[0] and "HarnessError" in r[1]:
      # module-level state of the code under test still holds objects of the symbolic run (which the unchanged code never
      # keeps): the same thing is re-run with plain numbers in a fresh process - another model of the same kind first
      from checks import common
      c, d, rec = common.in_fresh_process("checks.eam_potable", "replay_after_other", text, target, nr, nrho, fs, adp)
      return bool(c), d, rec
    return r

  try:
    explore_and_check(res, fn, build, replay=replay, negative=lambda p: build(p, wrong=True),
                      explorer_kw=dict(max_paths=300, query_timeout_ms=3000), max_seconds=150)
  finally:
    shims.uninstall()
  res["nontrivial"] = res["vcs"]
  return res


# ---------------------------------------------------------------------------
# concrete replays

def _grid(w, nr, nrho):
  def g(name, default):
    v = w.get(name) if isinstance(w, dict) else None
    try:
      v = float(v)
    except Exception:
      v = None
    return v if v is not None and 1e-3 < v < 1e4 else default
  cutoff, cutoff_rho = g("cutoff", 5.5), g("cutoff_rho", 40.0)
  return cutoff, cutoff_rho, cutoff / (nr - 1), cutoff_rho / (nrho - 1)


def replay_eam_api(target, model, nr, nrho, w, route="class"):
  """Concrete replay through the Python API with the solver's grid and generic
  pairwise-different functions (or the model's own function tables)."""
  from atsim.potentials import eam_tabulation as et
  import atsim.potentials as ap
  cutoff, cutoff_rho, dr, drho = _grid(w, nr, nrho)
  attempts = []
  mf = w.get("#functions") if isinstance(w, dict) else None
  if mf:
    attempts.append(("model functions", EC.concrete_functions(EC.function_names(model), mf)))
  attempts.append(("generic functions", EC.concrete_functions(EC.function_names(model))))
  last = None
  for what, funcs in attempts:
    eampots, pairpots, dip, quad = EC.build_objects(model, lambda name: funcs[name], EC.conc_meta)
    out = io.StringIO()
    try:
      if target == "setfl":
        if route == "class":
          et.SetFL_EAMTabulation(pairpots, eampots, cutoff, nr, cutoff_rho, nrho).write(out)
        else:
          ap.writeSetFL(nrho, drho, nr, dr, eampots, pairpots, out)
        style = "alloy"
      elif target == "setfl_fs":
        if route == "class":
          et.SetFL_FS_EAMTabulation(pairpots, eampots, cutoff, nr, cutoff_rho, nrho).write(out)
        else:
          ap.writeSetFLFinnisSinclair(nrho, drho, nr, dr, eampots, pairpots, out)
        style = "fs"
      elif target == "eam_adp":
        et.ADP_EAMTabulation(pairpots, eampots, dip, quad, cutoff, nr, cutoff_rho, nrho).write(out)
        style = "adp"
      elif target == "DL_POLY_EAM":
        if route == "class":
          et.TABEAM_EAMTabulation(pairpots, eampots, cutoff, nr, cutoff_rho, nrho).write(out)
        else:
          ap.writeTABEAM(nrho, drho, nr, dr, eampots, pairpots, out)
        style = None
      elif target == "DL_POLY_EAM_fs":
        if route == "class":
          et.TABEAM_FinnisSinclair_EAMTabulation(pairpots, eampots, cutoff, nr, cutoff_rho, nrho).write(out)
        else:
          ap.writeTABEAMFinnisSinclair(nrho, drho, nr, dr, eampots, pairpots, out)
        style = None
      else:
        raise ValueError(target)
      txt = out.getvalue()
      alg = EC.float_alg(funcs)
      if style:
        parsed = eamtables.read_setfl(txt, style)
        O = EC.observed_setfl(parsed, model, nr, nrho, EC.conc_meta, style)
        E = EC.expected_setfl(model, nr, nrho, dr, drho, alg, EC.conc_meta, style)
        bad = EC.compare_dicts(O, E, 1e-12, 1e-12)
      else:
        parsed = eamtables.read_tabeam(txt)
        O = EC.observed_tabeam(parsed, model, nr, nrho)
        E = EC.expected_tabeam(model, nr, nrho, dr, drho, alg)
        bad = EC.compare_dicts(O, E, 1e-9, 6e-7)
    except eamtables.FormatError as e:
      bad = ["reader: %s" % e]
    except Structural as s:
      bad = ["structure: %s" % s.desc]
    except Exception as e:
      bad = ["writer raised %s: %s" % (type(e).__name__, e)]
    rec = dict(kind="eam_api", target=target, model=model.describe(), nr=nr, nrho=nrho, cutoff=cutoff,
               cutoff_rho=cutoff_rho, route=route, functions=what, mismatches=bad[:10])
    last = (bool(bad), ("[%s] " % what) + ("; ".join(bad[:3]) or "output agrees with the specification"), rec)
    if bad:
      return last
  return last


def replay_after_other(text, target, nr, nrho, fs, adp):
  """fresh process: a copy of the model with other numbers is tabulated first, then the model itself is checked"""
  import re
  from atsim.potentials.config import Configuration
  out, body = [], False
  for line in text.split("\n"):
    if line.startswith("["):
      body = not (line.startswith("[Tabulation") or line.startswith("[Species"))
    if body and not line.startswith("["):
      line = re.sub(r"(?<![\w.>=])(\d+\.\d+)", lambda m: repr(float(m.group(1)) * 1.5), line)
    out.append(line)
  other = "\n".join(out)
  try:
    Configuration().read(io.StringIO(other)).write(io.StringIO())
  except Exception as e:  # noqa
    return [False, "the model read first could not be tabulated: %s: %s" % (type(e).__name__, e), dict(model=other)]
  c, d, rec = replay_eam_potable(text, target, nr, nrho, fs, adp, {})
  rec = dict(rec, read_first=other)
  return [bool(c), "after a model of the same kind with other numbers was tabulated in this process: " + d, rec]


def replay_eam_potable(text, target, nr, nrho, fs, adp, w):
  """Concrete replay through Configuration().read(): the model file re-rendered
  with the solver's parameter / [Species] values (then, if that agrees, the
  file as given), the solver's cutoffs; expectations from the file's own
  definitions built one by one."""
  from atsim.potentials.config import Configuration, ConfigParser
  from symx import potable as sp
  cutoff, cutoff_rho, dr, drho = _grid(w, nr, nrho)
  t2 = text.replace("cutoff : 6.0", "cutoff : %r" % cutoff).replace("cutoff_rho : 50.0", "cutoff_rho : %r" % cutoff_rho)
  vals = {k: v for k, v in w.items() if isinstance(k, str) and "|" in k and not k.endswith("#exact") and isinstance(v, float)}
  last = None
  for what, values in (("witness parameters", vals), ("file parameters", None)):
    if values is not None and not values:
      continue
    bad = []
    t3 = t2
    try:
      if values is not None:
        t3 = sp.render_model_text(ConfigParser(io.StringIO(t2)), t2, values)
      cp = ConfigParser(io.StringIO(t3))
      model = declared_model(cp, fs, adp)
      meta = ref_meta(cp)
      tab = Configuration().read(io.StringIO(t3))
      out = io.StringIO()
      tab.write(out)
      decl = independent_functions(cp, fs, adp)
      alg = EC.Alg(lambda name: decl.get(name, lambda x: 0.0), float)
      if target in STYLE:
        parsed = eamtables.read_setfl(out.getvalue(), STYLE[target])
        O = EC.observed_setfl(parsed, model, nr, nrho, meta, STYLE[target])
        E = EC.expected_setfl(model, nr, nrho, dr, drho, alg, meta, STYLE[target])
        bad = EC.compare_dicts(O, E, 1e-12, 1e-12)
      else:
        parsed = eamtables.read_tabeam(out.getvalue())
        O = EC.observed_tabeam(parsed, model, nr, nrho)
        E = EC.expected_tabeam(model, nr, nrho, dr, drho, alg)
        bad = EC.compare_dicts(O, E, 1e-9, 6e-7)
    except eamtables.FormatError as e:
      bad = ["reader: %s" % e]
    except Structural as s:
      bad = ["structure: %s" % s.desc]
    except Exception as e:
      bad = ["%s: %s" % (type(e).__name__, e)]
      if what == "witness parameters":
        # a witness outside the functions' domain is not evidence either way
        last = (False, "[%s] model could not be tabulated: %s" % (what, bad[0]), dict(model=t3))
        continue
    rec = dict(kind="eam_potable", target=target, nr=nr, nrho=nrho, cutoff=cutoff, cutoff_rho=cutoff_rho, model=t3,
               parameters=what, mismatches=bad[:10])
    last = (bool(bad), ("[%s] " % what) + ("; ".join(bad[:3]) or "output agrees with the specification"), rec)
    if bad:
      return last
  return last
