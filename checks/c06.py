"""C06 Built-in potential forms evaluate their documented formula and argument order."""
import io

import z3

from symx import core, shims, jets, mathshim
from symx.core import sym, assume, rv, term
from symx.harness import explore_and_check, Structural
from symx.run import Case, new_result
from symx.vc import VC, eq_formula
from checks import common
from checks.forms import FORMS, sym_params
from specs import potential_forms as spec

ID = "C06"
META = dict(
  functions=["potentialfunctions.<form>.__call__ for every built-in form", "potentialforms._FunctionFactory.__call__", "_util._rpartial",
             "config._potential_form_registry.Potential_Form_Registry._register_standard/_register_from_potentialforms/__getitem__",
             "config._potential_form.Potential_Form.__call__/_Check_Call", "config._python_potential_function._Python_Potential_Function.__call__"],
  bounds=dict(quick=dict(r="symbolic real > 0", parameters="all symbolic (zbl: atomic numbers > 0)", polynomial="orders 0..5",
                         exponential="symbolic n and n in {-2,-1,0,1,2,3,1/2,-1/2,3/2,-3/2}", routes=4),
              thorough=dict(polynomial="orders 0..8", exponential="n in -12..12 and +-1/2, +-3/2, 5/2", routes=4)),
  stubs=["exp/sqrt/pow atoms"],
  outside=["the inside of cexprtk (route 4 is checked at the Python binding it calls)", "as.buck4 (covered region-wise in C10)",
           "tang_toennies and coul are compared to a relative tolerance of 1e-9 per coefficient (rounded literals in the source)",
           "ZBL: the manual's rounded screening coefficients (0.18175/3.19980 ...) differ from the source's (0.1818/3.2 ...); the source's are the reference"],
  assumptions=["reference formulas transcribed by hand from docs/reference/potential_forms.rst (specs/potential_forms.py)", "floats as reals"],
  explanation="differential VCs: each of the four access routes evaluated on symbolic r and parameters equals the reference formula term",
)


def route_values(name, r, ps, registry):
  from atsim.potentials import potentialfunctions as pf, potentialforms as pfo
  f = getattr(pf, name)
  out = {}
  out["function"] = f(r, *ps)
  out["factory"] = getattr(pfo, name)(*ps)(r)
  out["potable"] = registry["as." + name](*ps)(r)
  out["formula-call"] = registry["as." + name].potential_function(r, *ps)
  return out


def form_case(fname, variant=None, tolerant=False):
  res = new_result("form %s%s" % (fname, "" if variant is None else " %r" % (variant,)))
  from atsim.potentials.config import ConfigParser
  from atsim.potentials.config._potential_form_registry import Potential_Form_Registry
  cp = ConfigParser(io.StringIO("[Tabulation]\ntarget : LAMMPS\n"))
  registry = Potential_Form_Registry(cp, register_standard=True)
  ref = spec.make(mathshim.exp, mathshim.sqrt)
  shims.install()
  mathshim.RAW_EXP = bool(tolerant)

  def fn():
    r = sym("r")
    assume(r > 0)
    if fname == "polynomial":
      ps = [sym("c%d" % i) for i in range(variant + 1)]
    else:
      ps = sym_params(fname)
      if fname == "exponential" and variant is not None:
        ps[1] = variant
    got = route_values(fname, r, ps, registry)
    want = ref[fname](r, *ps)
    return {k: term(v) for k, v in got.items()}, term(want)

  def build(path, wrong=False):
    if path.exc is not None:
      raise Structural("exception", "%s: %s" % (type(path.exc).__name__, path.exc))
    got, want = path.value
    if wrong:
      return [VC("neg", eq_formula(got["function"] + 1, want))]
    vcs = []
    for route, g in sorted(got.items()):
      if tolerant:
        from symx import poly
        ok, info = poly.tolerant_equal(g, want, 1e-9)
        if route == "function":
          res["samples"].append(dict(vc="%s/%s~1e-9" % (fname, route), **info))
        vcs.append(VC("%s/%s~" % (fname, route), z3.BoolVal(bool(ok)), info=dict(key="formula-%s" % route)))
      else:
        vcs.append(VC("%s/%s" % (fname, route), eq_formula(g, want), info=dict(key="formula-%s" % route)))
    return vcs

  def replay(v, w, path, structural):
    return replay_form(fname, variant, w, registry)

  try:
    explore_and_check(res, fn, build, replay=replay, negative=lambda p: build(p, wrong=True), vc_timeout_ms=60000, batch=False)
  finally:
    shims.uninstall()
    mathshim.RAW_EXP = False
  return res


def replay_form(fname, variant, w, registry):
  import math
  ref = spec.make(math.exp, math.sqrt)
  r = w.get("r")
  if not (isinstance(r, float) and 0.05 < r < 50):
    r = 1.7
  if fname == "polynomial":
    ps = [float(w.get("c%d" % i, 0.5 + i)) for i in range(variant + 1)]
  else:
    ps = []
    for n in FORMS[fname][0]:
      v = w.get(n)
      ps.append(v if isinstance(v, float) and 1e-3 < abs(v) < 1e3 else 1.3)
    if fname == "exponential" and variant is not None:
      ps[1] = variant
    if fname == "zbl":
      ps = [abs(p) for p in ps]
  # a second, fixed probe with a zero among the parameters (history-free special values)
  probes = [ps, [0.0 if i == len(ps) // 2 else (1.1 + 0.3 * i) for i in range(len(ps))]]
  if fname == "exponential" and variant is not None:
    probes[1][1] = variant
  if fname == "zbl":
    probes = probes[:1]
  bad = []
  for pp in probes:
    try:
      want = ref[fname](r, *pp)
      for route, g in route_values(fname, r, pp, registry).items():
        if abs(g - want) > 1e-9 * max(1.0, abs(want)):
          bad.append("%s route %s at r=%r params=%r gives %r, documented formula %r" % (fname, route, r, pp, g, want))
    except (ZeroDivisionError, ValueError, OverflowError) as e:
      continue
  return (bool(bad), "; ".join(bad[:2]) or "all routes agree with the documented formula at the probes", dict(kind="form_formula", form=fname, r=r, params=ps))


def zbl_doc_case():
  """Observation (not a solver claim): value of the source's ZBL constants against the manual's printed ones."""
  res = new_result("zbl manual constants (observation)")
  import math
  from atsim.potentials import potentialfunctions as pf
  ref = spec.make(math.exp, math.sqrt)
  worst = 0.0
  for r in (0.2, 0.5, 1.0, 2.0):
    a = pf.zbl(r, 92.0, 8.0)
    b = ref["zbl"](r, 92.0, 8.0, C=spec.ZBL_DOC_C, B=spec.ZBL_DOC_B, a0=0.46850)
    worst = max(worst, abs(a - b) / abs(b))
  res["notes"].append("ZBL: source constants vs the manual's printed constants differ by up to %.2e relative (U-O, r in 0.2..2.0)" % worst)
  res["paths"] = 1
  res["samples"].append(dict(vc="zbl manual constants", relative_difference=worst))
  return res


def section_case(fname):
  """What a potable section builds: several 'as.NAME p...' entries of one form in one model, built by one
  real Potential_Form_Builder.  Every entry must evaluate the documented formula with ITS OWN parameters:
  (i) symbolically, two entries with independent symbolic parameters; (ii) concretely for pairs of parameter
  lists that differ in one value only, including values whose python hashes collide (-1 / -2)."""
  import io
  import math
  from atsim.potentials.config import ConfigParser
  from atsim.potentials.config._potential_form_registry import Potential_Form_Registry
  from atsim.potentials.config._modifier_registry import Modifier_Registry
  from atsim.potentials.config._pair_potential_builder import Pair_Potential_Builder
  from checks import c09
  res = new_result("section entries of as.%s" % fname)
  names = FORMS[fname][0]
  n = len(names)
  if n == 0:
    res["paths"] = 1
    return res
  t1 = [101.0 + i for i in range(n)]
  t2 = [121.0 + i for i in range(n)]
  text = "[Pair]\nA-A : as.%s %s\nB-B : as.%s %s\n" % (fname, " ".join(map(repr, t1)), fname, " ".join(map(repr, t2)))
  cp = ConfigParser(io.StringIO(text))
  shims.install()
  if FORMS[fname][1] == "tolerant":
    mathshim.RAW_EXP = True

  def fn():
    r = sym("r")
    assume(r > 0)
    P = sym_params(fname, "one_")
    Q = sym_params(fname, "two_")
    if fname == "exponential":
      P[1], Q[1] = 2, 3
    tab = dict(zip(t1, P))
    tab.update(zip(t2, Q))
    scp = c09._SubstParser(cp, tab)
    pots = Pair_Potential_Builder(scp, Potential_Form_Registry(scp, True, True), Modifier_Registry()).potentials
    ref = spec.make(mathshim.exp, mathshim.sqrt)
    out = []
    for pot, ps in zip(pots, (P, Q)):
      out.append((term(pot.energy(r)), term(ref[fname](r, *ps))))
    return out

  def build(path, wrong=False):
    if path.exc is not None:
      raise Structural("exception", "%s: %s" % (type(path.exc).__name__, path.exc))
    vcs = []
    for i, (g, wnt) in enumerate(path.value):
      if wrong:
        wnt = wnt + 1
      if FORMS[fname][1] == "tolerant" and fname != "zbl":
        from symx import poly
        ok, info = poly.tolerant_equal(g, wnt, 1e-9)
        vcs.append(VC("entry%d~" % i, z3.BoolVal(bool(ok)), info=dict(key="section-entry")))
      else:
        vcs.append(VC("entry%d" % i, eq_formula(g, wnt), info=dict(key="section-entry")))
    return vcs

  def replay(v, w, path, structural):
    return section_replay(fname)

  try:
    explore_and_check(res, fn, build, replay=replay, negative=lambda p: build(p, wrong=True), vc_timeout_ms=60000, batch=False)
  finally:
    shims.uninstall()
    mathshim.RAW_EXP = False
  return res


def replay_form(fname, variant, w, registry):
  import math
  ref = spec.make(math.exp, math.sqrt)
  r = w.get("r")
  if not (isinstance(r, float) and 0.05 < r < 50):
    r = 1.7
  if fname == "polynomial":
    ps = [float(w.get("c%d" % i, 0.5 + i)) for i in range(variant + 1)]
  else:
    ps = []
    for n in FORMS[fname][0]:
      v = w.get(n)
      ps.append(v if isinstance(v, float) and 1e-3 < abs(v) < 1e3 else 1.3)
    if fname == "exponential" and variant is not None:
      ps[1] = variant
    if fname == "zbl":
      ps = [abs(p) for p in ps]
  # a second, fixed probe with a zero among the parameters (history-free special values)
  probes = [ps, [0.0 if i == len(ps) // 2 else (1.1 + 0.3 * i) for i in range(len(ps))]]
  if fname == "exponential" and variant is not None:
    probes[1][1] = variant
  if fname == "zbl":
    probes = probes[:1]
  bad = []
  for pp in probes:
    try:
      want = ref[fname](r, *pp)
      for route, g in route_values(fname, r, pp, registry).items():
        if abs(g - want) > 1e-9 * max(1.0, abs(want)):
          bad.append("%s route %s at r=%r params=%r gives %r, documented formula %r" % (fname, route, r, pp, g, want))
    except (ZeroDivisionError, ValueError, OverflowError) as e:
      continue
  return (bool(bad), "; ".join(bad[:2]) or "all routes agree with the documented formula at the probes", dict(kind="form_formula", form=fname, r=r, params=ps))


def zbl_doc_case():
  """Observation (not a solver claim): value of the source's ZBL constants against the manual's printed ones."""
  res = new_result("zbl manual constants (observation)")
  import math
  from atsim.potentials import potentialfunctions as pf
  ref = spec.make(math.exp, math.sqrt)
  worst = 0.0
  for r in (0.2, 0.5, 1.0, 2.0):
    a = pf.zbl(r, 92.0, 8.0)
    b = ref["zbl"](r, 92.0, 8.0, C=spec.ZBL_DOC_C, B=spec.ZBL_DOC_B, a0=0.46850)
    worst = max(worst, abs(a - b) / abs(b))
  res["notes"].append("ZBL: source constants vs the manual's printed constants differ by up to %.2e relative (U-O, r in 0.2..2.0)" % worst)
  res["paths"] = 1
  res["samples"].append(dict(vc="zbl manual constants", relative_difference=worst))
  return res


def section_case(fname):
  """What a potable section builds: several 'as.NAME p...' entries of one form in one model, built by one
  real Potential_Form_Builder.  Every entry must evaluate the documented formula with ITS OWN parameters:
  (i) symbolically, two entries with independent symbolic parameters; (ii) concretely for pairs of parameter
  lists that differ in one value only, including values whose python hashes collide (-1 / -2)."""
  import io
  import math
  from atsim.potentials.config import ConfigParser
  from atsim.potentials.config._potential_form_registry import Potential_Form_Registry
  from atsim.potentials.config._modifier_registry import Modifier_Registry
  from atsim.potentials.config._pair_potential_builder import Pair_Potential_Builder
  from checks import c09
  res = new_result("section entries of as.%s" % fname)
  names = FORMS[fname][0]
  n = len(names)
  if n == 0:
    res["paths"] = 1
    return res
  t1 = [101.0 + i for i in range(n)]
  t2 = [121.0 + i for i in range(n)]
  text = "[Pair]\nA-A : as.%s %s\nB-B : as.%s %s\n" % (fname, " ".join(map(repr, t1)), fname, " ".join(map(repr, t2)))
  cp = ConfigParser(io.StringIO(text))
  shims.install()
  if FORMS[fname][1] == "tolerant":
    mathshim.RAW_EXP = True

  def fn():
    r = sym("r")
    assume(r > 0)
    P = sym_params(fname, "one_")
    Q = sym_params(fname, "two_")
    if fname == "exponential":
      P[1], Q[1] = 2, 3
    tab = dict(zip(t1, P))
    tab.update(zip(t2, Q))
    scp = c09._SubstParser(cp, tab)
    pots = Pair_Potential_Builder(scp, Potential_Form_Registry(scp, True, True), Modifier_Registry()).potentials
    ref = spec.make(mathshim.exp, mathshim.sqrt)
    out = []
    for pot, ps in zip(pots, (P, Q)):
      out.append((term(pot.energy(r)), term(ref[fname](r, *ps))))
    return out

  def build(path, wrong=False):
    if path.exc is not None:
      raise Structural("exception", "%s: %s" % (type(path.exc).__name__, path.exc))
    vcs = []
    for i, (g, wnt) in enumerate(path.value):
      if wrong:
        wnt = wnt + 1
      if FORMS[fname][1] == "tolerant" and fname != "zbl":
        from symx import poly
        ok, info = poly.tolerant_equal(g, wnt, 1e-9)
        vcs.append(VC("entry%d~" % i, z3.BoolVal(bool(ok)), info=dict(key="section-entry")))
      else:
        vcs.append(VC("entry%d" % i, eq_formula(g, wnt), info=dict(key="section-entry")))
    return vcs

  def replay(v, w, path, structural):
    ref = spec.make(math.exp, math.sqrt)
    base = [1.3 + 0.4 * i for i in range(n)]
    if fname == "exponential":
      base[1] = 2
    bad = []
    variants = []
    for i in range(n):
      for (a, b) in ((-1.0, -2.0), (-2.0, -1.0), (0.5, 0.75), (-1, -2)):
        if fname == "exponential" and i == 1:
          a, b = (-1, -2) if a < 0 else (2, 3)
        if fname == "zbl" and a < 0:
          continue
        p1, p2 = list(base), list(base)
        p1[i], p2[i] = a, b
        variants.append((p1, p2))
    for (p1, p2) in variants:
      txt = "[Tabulation]\ntarget : LAMMPS\n[Pair]\nA-A : as.%s %s\nB-B : as.%s %s\n" % (fname, " ".join(map(repr, p1)), fname, " ".join(map(repr, p2)))
      c2 = ConfigParser(io.StringIO(txt))
      pots = Pair_Potential_Builder(c2, Potential_Form_Registry(c2, True, True), Modifier_Registry()).potentials
      for pot, ps in zip(pots, (p1, p2)):
        for r in (0.9, 1.7, 2.6):
          try:
            wnt = ref[fname](r, *[float(x) if not (fname == "exponential" and ps.index(x) == 1) else x for x in ps])
            got = pot.energy(r)
          except (ZeroDivisionError, ValueError, OverflowError):
            continue
          if isinstance(got, complex) or isinstance(wnt, complex):
            continue
          if abs(got - wnt) > 1e-9 * max(1.0, abs(wnt)):
            bad.append("%s-%s : as.%s %s evaluates to %r at r=%r, the documented formula gives %r (other entry: %s)" % (
              pot.speciesA, pot.speciesB, fname, " ".join(map(repr, ps)), got, r, wnt, " ".join(map(repr, p2 if ps is p1 else p1))))
            break
    return (bool(bad), "; ".join(bad[:2]) or "every entry follows its own parameters", dict(kind="section_entries", form=fname))

  try:
    explore_and_check(res, fn, build, replay=replay, negative=lambda p: build(p, wrong=True), vc_timeout_ms=60000, batch=False)
  finally:
    shims.uninstall()
    mathshim.RAW_EXP = False
  return res


def section_replay(fname):
  """Concrete: pairs of entries of one form whose parameter lists differ in one value only (incl. values whose python hashes
  collide); the two potentials are evaluated alternately at the same separations, in both orders."""
  import io
  import math
  from atsim.potentials.config import ConfigParser
  from atsim.potentials.config._potential_form_registry import Potential_Form_Registry
  from atsim.potentials.config._modifier_registry import Modifier_Registry
  from atsim.potentials.config._pair_potential_builder import Pair_Potential_Builder
  n = len(FORMS[fname][0])
  ref = spec.make(math.exp, math.sqrt)
  base = [1.3 + 0.4 * i for i in range(n)]
  if fname == "exponential":
    base[1] = 2
  bad = []
  variants = []
  for i in range(n):
    for (a, b) in ((-1.0, -2.0), (-2.0, -1.0), (0.5, 0.75), (-1, -2)):
      if fname == "exponential" and i == 1:
        a, b = (-1, -2) if a < 0 else (2, 3)
      if fname == "zbl" and a < 0:
        continue
      p1, p2 = list(base), list(base)
      p1[i], p2[i] = a, b
      variants.append((p1, p2))
  for (p1, p2) in variants:
    txt = "[Tabulation]\ntarget : LAMMPS\n[Pair]\nA-A : as.%s %s\nB-B : as.%s %s\n" % (fname, " ".join(map(repr, p1)), fname, " ".join(map(repr, p2)))
    c2 = ConfigParser(io.StringIO(txt))
    pots = Pair_Potential_Builder(c2, Potential_Form_Registry(c2, True, True), Modifier_Registry()).potentials
    both = list(zip(pots, (p1, p2)))
    for order in (both, both[::-1]):
      for r in (0.9, 1.7, 2.6):
        for pot, ps in order:
          try:
            wnt = ref[fname](r, *[float(x) if not (fname == "exponential" and ps.index(x) == 1) else x for x in ps])
            got = pot.energy(r)
          except (ZeroDivisionError, ValueError, OverflowError):
            continue
          if isinstance(got, complex) or isinstance(wnt, complex):
            continue
          if abs(got - wnt) > 1e-9 * max(1.0, abs(wnt)):
            bad.append("%s-%s : as.%s %s evaluates to %r at r=%r, the documented formula gives %r (other entry, evaluated at the same r just before or after: %s)" % (
              pot.speciesA, pot.speciesB, fname, " ".join(map(repr, ps)), got, r, wnt, " ".join(map(repr, p2 if ps is p1 else p1))))
            break
  return (bool(bad), "; ".join(bad[:2]) or "every entry follows its own parameters", dict(kind="section_entries", form=fname))


def section_concrete_case(fname):
  res = new_result("section entries of as.%s (concrete pairs, alternating evaluation)" % fname)
  c, d, rec = section_replay(fname)
  res["paths"] += 1
  res["replays"] += 1
  if c:
    res["violations"].append(dict(key="section-entry-concrete", desc=d, record=rec))
  return res


def cases(tier, seed=0):
  cs = []
  for name, (params, kind) in sorted(FORMS.items()):
    if name != "tang_toennies" or tier == "thorough":
      cs.append(Case("section %s" % name, section_case, fname=name))
    else:
      cs.append(Case("section %s (concrete)" % name, section_concrete_case, fname=name))
    cs.append(Case("form %s" % name, form_case, fname=name, tolerant=(kind == "tolerant" and name != "zbl")))
  for order in range(0, 10 if tier == "quick" else 13):
    cs.append(Case("form polynomial order %d" % order, form_case, fname="polynomial", variant=order))
  ns = [-2, -1, 0, 1, 2, 3, 0.5, -0.5, 1.5, -1.5] if tier == "quick" else list(range(-12, 13)) + [0.5, -0.5, 1.5, -1.5, 2.5, -2.5, 0.25, -0.75]
  for n in ns:
    cs.append(Case("form exponential n=%r" % n, form_case, fname="exponential", variant=n))
  cs.append(Case("zbl manual constants", zbl_doc_case))
  return cs


def replay(path):
  return common.generic_replay(path)
