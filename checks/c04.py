"""C04 Finnis-Sinclair densities land in the slot the consumer reads for that pair."""
import itertools

import z3

from symx import core, shims
from symx.core import sym, assume, uf, rv
from symx.harness import explore_and_check, Structural, T, Sink
from symx.run import Case, new_result
from symx.vc import VC, eq_formula
from readers import excel as xl
from checks import eam_common as EC
from checks import eam_potable as EP
from checks.eam_api import api_case

ID = "C04"
META = dict(
  functions=["_lammpsWriteEAM._writeSetFLDensityFunctionFinnisSinclair / writeSetFLFinnisSinclair",
             "_dlpoly_writeTABEAM.writeTABEAMFinnisSinclair", "eam_tabulation.SetFL_FS_EAMTabulation / "
             "TABEAM_FinnisSinclair_EAMTabulation / Excel_FinnisSinclair_EAMTabulation._add_eam_density",
             "config._eam_potential_builder.EAM_Potential_Builder_FS", "config._config_parser.ConfigParser._parse_eam_fs_density_line"],
  bounds=dict(
    quick=dict(species="1..2 (all orders) + one 3-species layout", densities="independent uninterpreted function per ordered pair",
               cluster="3 atoms, all species assignments, separations on grid points", grids="nr in {2,3}", potable_models=2),
    thorough=dict(species="1..3 (all orders), 4 species on a covering set", cluster="3 atoms, all species assignments",
                  grids="nr in {2..4}", potable_models=2)),
  stubs=["all densities, embedding and pair functions are uninterpreted and pairwise distinct (a transposition cannot cancel)"],
  outside=["cluster separations between grid points (the consumer's interpolation)", ".xlsx byte container (cells are read from the workbook object)"],
  assumptions=["LAMMPS eam/fs rule rho_i += rhor[type_j][type_i]; DL_POLY EEAM 'dens A B' and Excel 'A->B' hold the density at an A "
               "site due to a B neighbour (the repo's documented convention)", "floats as reals"],
  explanation="slot-by-slot term comparison for eam/fs setfl, EEAM TABEAM and the Excel sheet, plus the per-atom embedding "
              "density of a symbolic cluster recomputed from the file terms by the consumer's rule versus the model's sum",
)

KS = [(1, 1, 0), (1, 0, 1), (0, 1, 1)]   # grid indices of the three separations r01, r02, r12 (cycled)


def cluster_vcs(target):
  def extra(path, parsed, model, nr, nrho, dr, drho, wrong):
    els = model.elements
    n = len(els)
    vcs = []
    alg = EC.z3_alg()
    for assign in itertools.product(range(n), repeat=3):
      ks = [min(k, nr - 1) for k in KS[sum(assign) % 3]]
      kij = {(0, 1): ks[0], (0, 2): ks[1], (1, 2): ks[2]}
      for i in range(3):
        got, want = rv(0), rv(0)
        for j in range(3):
          if i == j:
            continue
          k = kij[(min(i, j), max(i, j))]
          ti, tj = assign[i], assign[j]
          if target == "setfl_fs":
            # LAMMPS: rho[i] += rhor[type2rhor[jtype][itype]]: block of element jtype, array number itype
            val = parsed["blocks"][tj]["rho"][ti][k]
          else:
            f = [x for x in parsed["functions"] if x["kind"] == "dens" and x["species"] == (els[ti], els[tj])]
            if len(f) != 1:
              raise Structural("dens-block", "no unique 'dens %s %s' block" % (els[ti], els[tj]))
            val = f[0]["values"][k]
          got = got + T(path, val)
          want = want + alg.fn("rho_%s_%s" % (els[ti], els[tj]))(rv(k) * dr)
        vcs.append(VC("cluster/%s/atom%d" % ("".join(els[a] for a in assign), i), eq_formula(got, want), info=dict(key="cluster")))
    return vcs
  return extra


def excel_case(elements, nr, nrho):
  """Excel_FinnisSinclair_EAMTabulation: column 'A->B' of the EAM-Density sheet
  holds the density declared for central A, neighbour B, at that row's r."""
  model = EC.Model(elements, {k: (k[0], k[1]) for k in EC.all_pair_keys(elements)}, fs=True)
  res = new_result("excel_eam_fs %s nr=%d nrho=%d" % (model.describe(), nr, nrho))
  from atsim.potentials.eam_tabulation import Excel_FinnisSinclair_EAMTabulation

  def fn():
    cutoff, cutoff_rho = sym("cutoff"), sym("cutoff_rho")
    assume(cutoff > 0)
    assume(cutoff_rho > 0)
    eampots, pairpots, _d, _q = EC.build_objects(model, lambda name: uf(name), EC.sym_meta)
    tab = Excel_FinnisSinclair_EAMTabulation(pairpots, eampots, cutoff, nr, cutoff_rho, nrho)
    return xl.read_workbook(tab.workbook)

  c = z3.Real("cutoff")

  def build(path, wrong=False):
    if path.exc is not None:
      raise Structural("exception", "%s: %s" % (type(path.exc).__name__, path.exc))
    sheets = path.value
    if "EAM-Density" not in sheets:
      raise Structural("sheet", "no EAM-Density sheet")
    sh = sheets["EAM-Density"]
    want_cols = sorted("%s->%s" % (a, b) for a in elements for b in elements)
    if sorted(sh["columns"]) != want_cols:
      raise Structural("columns", "density columns %r, expected %r" % (sorted(sh["columns"]), want_cols))
    if len(sh["x"]) != nr:
      raise Structural("rows", "%d rows, expected %d" % (len(sh["x"]), nr))
    vcs = []
    for k in range(nr):
      r = rv(k + (1 if wrong else 0)) * c / rv(nr - 1)
      vcs.append(VC("r%d" % k, eq_formula(T(path, sh["x"][k]), r), info=dict(key="r")))
      for a in elements:
        for b in elements:
          f = z3.Function("rho_%s_%s" % (a, b), core.R, core.R)
          vcs.append(VC("%s->%s/%d" % (a, b, k), eq_formula(T(path, sh["columns"]["%s->%s" % (a, b)][k]), f(r)), info=dict(key="column")))
    return vcs

  def replay(v, w, path, structural):
    return replay_excel_fs(elements, nr, nrho, w)

  shims.install()
  try:
    explore_and_check(res, fn, build, replay=replay, negative=lambda p: build(p, wrong=True))
  finally:
    shims.uninstall()
  return res


def replay_excel_fs(elements, nr, nrho, w):
  from atsim.potentials.eam_tabulation import Excel_FinnisSinclair_EAMTabulation
  model = EC.Model(elements, {k: (k[0], k[1]) for k in EC.all_pair_keys(elements)}, fs=True)
  funcs = EC.concrete_functions(EC.function_names(model))
  cutoff, cutoff_rho, dr, drho = EP._grid(w, nr, nrho)
  eampots, pairpots, _d, _q = EC.build_objects(model, lambda name: funcs[name], EC.conc_meta)
  tab = Excel_FinnisSinclair_EAMTabulation(pairpots, eampots, cutoff, nr, cutoff_rho, nrho)
  bad = []
  try:
    sh = xl.read_workbook(tab.workbook)["EAM-Density"]
    for k in range(nr):
      r = k * dr
      if abs(sh["x"][k] - r) > 1e-12 * max(1, abs(r)):
        bad.append("row %d r=%r expected %r" % (k, sh["x"][k], r))
      for a in elements:
        for b in elements:
          got = sh["columns"]["%s->%s" % (a, b)][k]
          want = funcs["rho_%s_%s" % (a, b)](r)
          if abs(got - want) > 1e-12 * max(1, abs(want)):
            bad.append("%s->%s row %d = %r expected %r" % (a, b, k, got, want))
  except Exception as e:
    bad.append("%s: %s" % (type(e).__name__, e))
  return (bool(bad), "; ".join(bad[:3]) or "workbook agrees", dict(kind="excel_fs", elements=list(elements), mismatches=bad[:10]))


def cases(tier, seed=0):
  cs = []
  from checks import fpgrid
  cs.append(Case("fp grid setfl_fs", fpgrid.grid_case, target="setfl_fs", nr=41))
  cs.append(Case("fp grid DL_POLY_EAM_fs", fpgrid.grid_case, target="DL_POLY_EAM_fs", nr=41))
  N = EC.NAMES
  idx = 0
  ns = (1, 2) if tier == "quick" else (1, 2, 3)
  for target in ("setfl_fs", "DL_POLY_EAM_fs"):
    for n in ns:
      for order in itertools.permutations(N[:n]):
        states = list(EC.pair_states(order))
        if n == 3:
          states = states[::9]
        elif tier == "quick" and n == 2:
          states = states[::2]
        for st in states:
          idx += 1
          nr = 2 + idx % (2 if tier == "quick" else 3)
          cs.append(Case("api %s %s %d" % (target, "/".join(order), idx), api_case, target=target, elements=order, pairs=st,
                         nr=nr, nrho=2, route="class" if idx % 2 else "func", rot=idx, extra_vcs=cluster_vcs(target)))
    if tier == "quick":
      cs.append(Case("api %s Zr/Cu/Al" % target, api_case, target=target, elements=("Zr", "Cu", "Al"),
                     pairs=EC.covering_pair_states(("Zr", "Cu", "Al"), seed=3)[1], nr=2, nrho=2, route="class",
                     extra_vcs=cluster_vcs(target)))
    else:
      for oi, order in enumerate(list(itertools.permutations(N[:4]))[::6]):
        cs.append(Case("api4 %s %s" % (target, "/".join(order)), api_case, target=target, elements=order,
                       pairs=EC.covering_pair_states(order, seed=oi)[oi], nr=2, nrho=2, route="class", extra_vcs=cluster_vcs(target)))
  for order in ([("Cu",), ("Cu", "Al"), ("Al", "Cu")] if tier == "quick" else
                [("Cu",), ("Cu", "Al"), ("Al", "Cu"), ("Zr", "Cu", "Al"), ("Al", "Zr", "Cu"), ("B", "Zr", "Al", "Cu")]):
    cs.append(Case("excel_eam_fs %s" % "/".join(order), excel_case, elements=order, nr=3, nrho=2))
  for m in ("fs_basic", "fs_three", "fs_multirange", "fs_undeclared"):
    for tgt in ("setfl_fs", "DL_POLY_EAM_fs"):
      cs.append(Case("potable %s %s" % (m, tgt), EP.potable_case, model_name=m, target=tgt, nr=(3 if m == "fs_undeclared" else 2) if tier == "quick" else 3, nrho=2))
  from checks import eam_api as _ea
  cs += _ea.surplus_cases('setfl_fs', tier)
  cs += _ea.surplus_cases('DL_POLY_EAM_fs', tier)
  cs += _ea.after_failure_cases('setfl_fs', tier)
  cs += _ea.after_failure_cases('DL_POLY_EAM_fs', tier)
  cs += _ea.shared_and_undeclared_cases('setfl_fs', tier)
  cs += _ea.shared_and_undeclared_cases('DL_POLY_EAM_fs', tier)
  cs += _ea.written_first_cases('setfl_fs', tier)
  cs += _ea.written_first_cases('DL_POLY_EAM_fs', tier)
  cs += _ea.energy_override_cases('setfl_fs', tier)
  cs += _ea.energy_override_cases('DL_POLY_EAM_fs', tier)
  cs += _ea.cutoff_arg_cases('setfl_fs', tier)
  cs += _ea.long_label_cases('setfl_fs', tier)
  cs += _ea.long_label_cases('DL_POLY_EAM_fs', tier)
  cs += _ea.pair_iterable_cases('setfl_fs', tier)
  cs += _ea.pair_iterable_cases('DL_POLY_EAM_fs', tier)
  cs += _ea.late_onset_cases('setfl_fs', tier)
  cs += _ea.late_onset_cases('DL_POLY_EAM_fs', tier)
  return cs


def replay(path):
  from checks import common
  return common.generic_replay(path)
