"""C01 LAMMPS pair table: rows, header and force column faithful to the model."""
import io
import itertools

import z3

from symx import core, shims, jets
from symx.core import sym, assume, uf, term, rv
from symx.harness import explore_and_check, Structural
from symx.run import Case, new_result
from symx.vc import VC, eq_formula
from readers import pairtables
from checks import common

ID = "C01"
META = dict(
  functions=["pair_tabulation.LAMMPS_PairTabulation.write", "pair_tabulation.PairTabulation_AbstractBase.dr",
             "_lammps_writeTABLE.writePotentials", "_lammps_writeTABLE._writeSinglePotential",
             "_potential.Potential.energy/force", "_util.gradient/_GradientWrapper/deriv/num_deriv",
             "atsim.potentials.writePotentials('LAMMPS')", "config.Configuration.read",
             "config._tabulation_factories.PairTabulationFactory.create_tabulation"],
  bounds=dict(
    quick=dict(nr=[3, 4, 5, 7], potentials="1..2", cutoff="symbolic real > 0", potable_models=4),
    thorough=dict(nr=list(range(3, 17)), potentials="1..3", cutoff="symbolic real > 0", potable_models=8)),
  stubs=["potentials are uninterpreted functions U_p (with or without offered .deriv = d_U_p)",
         "math -> exp/log/sqrt atoms for potable models"],
  outside=["last-ulp rounding of r_n (floats modelled as reals)", "nr < 3",
           "printed precision: numbers are compared as terms, not as rounded decimals"],
  assumptions=["floats are modelled as mathematical reals", "cutoff > 0",
               "divisions met on a path are assumed defined (denominator != 0) and listed"],
  explanation="symbolic execution of the real writer on uninterpreted potentials and a symbolic cutoff; "
              "every header field and table slot is a z3 term compared with the specification term",
)

LABELS = [("A", "B"), ("Xe", "O"), ("B", "A"), ("Si", "Si")]


def _expect(nr, cutoff_t, n):
  return rv(n) * cutoff_t / rv(nr - 1)


def api_case(nr, npots, derivs, route, h=None, intcore=False, after_failure=False):
  res = new_result("api nr=%d npots=%d derivs=%s route=%s%s%s" % (nr, npots, derivs, route, "" if h is None else " h=%g" % h, " int-valued core" if intcore else "") + (" after failed writes of another table" if after_failure else ""))
  import atsim.potentials as ap
  from atsim.potentials import Potential
  from atsim.potentials.pair_tabulation import LAMMPS_PairTabulation
  labels = LABELS[:npots]
  hval = 1e-6 if h is None else h

  def fn():
    cutoff = sym("cutoff")
    assume(cutoff > 0)
    pots = []
    for p in range(npots):
      u = uf("U%d" % p, deriv=derivs[p])
      a, b = labels[p]
      pots.append(Potential(a, b, u) if h is None else Potential(a, b, u, h))
    if intcore:
      # potential 0 is written `if r < thr: return 0` (a python int) and is a float elsewhere
      thr = sym("thr")
      assume(thr > 0)
      u0 = uf("U0", deriv=True)
      pots[0] = Potential(labels[0][0], labels[0][1], common.IntCore(u0, u0.deriv, thr))
    out = io.StringIO()
    if after_failure:
      # another table of the same shape whose potential fails at its second (third, ...) evaluation was attempted first
      for nfail in (1, 2, 3):
        cnt = [0]

        def doomed(r_, cnt=cnt, nfail=nfail):
          cnt[0] += 1
          if cnt[0] > nfail:
            raise ArithmeticError("injected failure")
          return 1.0
        try:
          if route == "class":
            LAMMPS_PairTabulation([Potential(labels[0][0], labels[0][1], doomed)], cutoff, nr).write(io.StringIO())
          else:
            ap.writePotentials("LAMMPS", [Potential(labels[0][0], labels[0][1], doomed)], cutoff, nr, io.StringIO())
        except ArithmeticError:
          pass
    core.INT_TAGS = intcore
    try:
      second = None
      if route == "class":
        tab = LAMMPS_PairTabulation(pots, cutoff, nr)
        tab.write(out)
        # the same tabulation object written a second time gives the same table
        out2 = io.StringIO()
        tab.write(out2)
        second = out2.getvalue()
      else:
        ap.writePotentials("LAMMPS", pots, cutoff, nr, out)
    finally:
      core.INT_TAGS = False
    return out.getvalue(), second

  def T(path, x):
    t = path.term_of_number(x)
    return t if t is not None else rv(x)

  def build(path, wrong=False):
    first, second = path.value
    vcs = build_text(path, first, wrong, "")
    if second is not None and not wrong:
      for v in build_text(path, second, False, "second-write-"):
        v.name = "second write/" + v.name
        vcs.append(v)
    return vcs

  def build_text(path, text, wrong, kp):
    try:
      blocks = pairtables.read_lammps_table(text)
    except pairtables.FormatError as e:
      raise Structural(kp + "format", "LAMMPS reader rejects the file%s: %s" % (" written second from the same object" if kp else "", e))
    cutoff_t = z3.Real("cutoff")
    if len(blocks) != npots:
      raise Structural("nblocks", "%d blocks for %d potentials" % (len(blocks), npots))
    vcs = []
    for p, blk in enumerate(blocks):
      a, b = labels[p]
      if blk["keyword"] != "%s-%s" % (a, b):
        raise Structural("keyword", "block %d keyed %r, expected %s-%s" % (p, blk["keyword"], a, b))
      if blk["N"] != nr - 1 or len(blk["rows"]) != nr - 1:
        raise Structural("N", "block %d declares N=%d with %d rows, expected %d" % (p, blk["N"], len(blk["rows"]), nr - 1))
      if blk.get("style") != "R":
        raise Structural("style", "block %d has no R lo hi" % p)
      vcs.append(VC("p%d.lo" % p, eq_formula(T(path, blk["lo"]), _expect(nr, cutoff_t, 1)), info=dict(key="lo")))
      vcs.append(VC("p%d.hi" % p, eq_formula(T(path, blk["hi"]), cutoff_t), info=dict(key="hi")))
      U = z3.Function("U%d" % p, core.R, core.R)
      dU = z3.Function("d_U%d" % p, core.R, core.R)
      for k, (idx, r, e, f) in enumerate(blk["rows"]):
        n = k + 1
        if idx != n:
          raise Structural("rowindex", "block %d row %d is numbered %d" % (p, n, idx))
        rn = _expect(nr, cutoff_t, n + (1 if wrong else 0))
        vcs.append(VC("p%d.r%d" % (p, n), eq_formula(T(path, r), rn), info=dict(key="r")))
        if intcore and p == 0:
          inside = rn < z3.Real("thr")
          vcs.append(VC("p%d.E%d" % (p, n), eq_formula(T(path, e), z3.If(inside, rv(0), U(rn))), info=dict(key="E-int-valued-core")))
          vcs.append(VC("p%d.F%d" % (p, n), eq_formula(T(path, f), z3.If(inside, rv(0), -dU(rn))), info=dict(key="F-int-valued-core")))
          continue
        vcs.append(VC("p%d.E%d" % (p, n), eq_formula(T(path, e), U(rn)), info=dict(key="E")))
        if derivs[p]:
          want = -dU(rn)
        else:
          hh = rv(hval)
          r2 = rn + hh / 2
          r1 = rn - hh / 2
          want = -((U(r2) - U(r1)) / (r2 - r1))
        vcs.append(VC("p%d.F%d" % (p, n), eq_formula(T(path, f), want), info=dict(key="F")))
    return vcs

  def replay(v, w, path, structural):
    if intcore:
      return common.replay_pair_intcore("LAMMPS", nr, npots, derivs, labels, w, route)
    return common.replay_pair_table("LAMMPS", nr, npots, derivs, labels, w, route, h, after_failure=after_failure)

  explore_and_check(res, fn, build, replay=replay, negative=lambda p: build(p, wrong=True))
  res["nontrivial"] = res["vcs"]
  return res


def potable_case(model_name, nr):
  """A potable model: parsed by the real ConfigParser; the parameters of every
  potential-form instance are then made symbolic and the real registry, builder
  and factory build the tabulation inside the exploration; its cutoff is made
  symbolic and write() is executed on proxies.  Slot terms are compared with the
  tabulation's own potential objects evaluated (in the same path) at the
  specification's r_n, the force with minus the jet-derivative of that energy."""
  res = new_result("potable model=%s nr=%d" % (model_name, nr))
  template = common.PAIR_MODELS[model_name]
  from atsim.potentials.config import Configuration, ConfigParser
  from symx.potable import SymParamParser
  cp = ConfigParser(io.StringIO(template % dict(target="LAMMPS", nr=nr)))
  shims.install()
  holder = {}

  def fn():
    scp = SymParamParser(cp)
    tab = Configuration().read_from_parser(scp)
    holder["tab"] = tab
    holder["params"] = scp.namer.values
    if tab.nr != nr or type(tab).__name__ != "LAMMPS_PairTabulation":
      raise Structural("factory", "factory returned %s nr=%r" % (type(tab).__name__, tab.nr))
    holder["cutoff"] = tab.cutoff
    cutoff = sym("cutoff")
    assume(cutoff > 0)
    tab._cutoff = cutoff
    out = io.StringIO()
    tab.write(out)
    want = []
    for pot in tab.potentials:
      rows = []
      for n in range(1, nr):
        rn = n * cutoff / (nr - 1)
        e = pot.energy(rn)
        j = pot.potentialFunction(jets.Jet(rn, 1.0, 0.0))
        d1 = j.d1 if isinstance(j, jets.Jet) else 0.0
        rows.append((rn, e, -d1))
      want.append((pot.speciesA, pot.speciesB, hasattr(pot.potentialFunction, "deriv"), rows))
    return out.getvalue(), want

  def T(path, x):
    t = path.term_of_number(x)
    return t if t is not None else rv(x)

  def build(path, wrong=False):
    if path.exc is not None:
      raise Structural("exception", "%s: %s" % (type(path.exc).__name__, path.exc))
    text, want = path.value
    try:
      blocks = pairtables.read_lammps_table(text)
    except pairtables.FormatError as e:
      raise Structural("format", "LAMMPS reader rejects the file: %s" % e)
    if len(blocks) != len(want):
      raise Structural("nblocks", "%d blocks for %d potentials" % (len(blocks), len(want)))
    vcs = []
    for p, blk in enumerate(blocks):
      A, B, has_deriv, rows = want[p]
      if blk["keyword"] != "%s-%s" % (A, B):
        raise Structural("keyword", "block %d keyed %r" % (p, blk["keyword"]))
      if blk["N"] != nr - 1 or len(blk["rows"]) != nr - 1:
        raise Structural("N", "block %d declares N=%d, has %d rows" % (p, blk["N"], len(blk["rows"])))
      for k, (idx, r, e, f) in enumerate(blk["rows"]):
        kk = k if not wrong else (k + 1) % (nr - 1)
        rn, we, wf = rows[kk]
        if idx != k + 1:
          raise Structural("rowindex", "row numbered %d at position %d" % (idx, k + 1))
        vcs.append(VC("%s.p%d.r%d" % (model_name, p, k + 1), eq_formula(T(path, r), term(rn)), info=dict(key="r")))
        vcs.append(VC("%s.p%d.E%d" % (model_name, p, k + 1), eq_formula(T(path, e), term(we)), info=dict(key="E")))
        if has_deriv:
          vcs.append(VC("%s.p%d.F%d" % (model_name, p, k + 1), eq_formula(T(path, f), term(wf)), info=dict(key="F")))
    return vcs

  def replay(v, w, path, structural):
    return common.replay_potable_pair("LAMMPS", template, nr, w, 6.0)

  try:
    explore_and_check(res, fn, build, replay=replay, negative=lambda p: build(p, wrong=True),
                      use_exp_axioms=False, explorer_kw=dict(max_paths=400, query_timeout_ms=3000), max_seconds=150, catch=(Exception,))
  finally:
    shims.uninstall()
  res["nontrivial"] = res["vcs"]
  return res


def custom_table_case(name, nr):
  """A potable model whose pair potential uses custom [Potential-Form] formulas (forms shared with other
  arguments inside one definition): the LAMMPS table written through the real factory/writer on proxies (cexprtk
  replaced by the validated stub) must hold, row by row, the formulas evaluated with explicitly bound parameters
  and minus their jet derivative (central difference where no analytic derivative is offered)."""
  from checks import c09
  from symx import exprstub
  from atsim.potentials.config import Configuration, ConfigParser
  import re
  res = new_result("potable custom forms %s nr=%d" % (name, nr))
  bad = exprstub.validate()
  if bad:
    res["harness_errors"].append("cexprtk stub disagrees with the real cexprtk: %s" % "; ".join(bad[:3]))
    return res
  forms, pair = c09.CUSTOM[name]
  tags = sorted(set(float(x) for x in re.findall(r"10\d\.0", pair)))
  text = c09.custom_text(name).replace("target : LAMMPS\n", "target : LAMMPS\ncutoff : 6.0\nnr : %d\n" % nr)
  cp = ConfigParser(io.StringIO(text))
  shims.install(extra_globals={"atsim.potentials.config._cexprtk_potential_function": dict(cexprtk=exprstub)})
  H = 0.1e-5

  def fn():
    tab_ = {t: sym("p%d" % int(t - 100)) for t in tags}
    for t in tab_.values():
      assume(t > 0)
    scp = c09._SubstParser(cp, tab_)
    tab = Configuration().read_from_parser(scp)
    cutoff = sym("cutoff")
    assume(cutoff > 0)
    tab._cutoff = cutoff
    out = io.StringIO()
    tab.write(out)
    spec = c09.spec_definition(cp.pair[0].potential_form_instance, c09.spec_functions(forms), tab_)
    rows = []
    for n in range(1, nr):
      rn = n * cutoff / (nr - 1)
      x1, x2 = rn - H / 2.0, rn + H / 2.0
      rows.append((term(rn), term(spec(rn)), term(-((spec(x2) - spec(x1)) / (x2 - x1)))))
    return out.getvalue(), rows, hasattr(tab.potentials[0].potentialFunction, "deriv")

  def T(path, x):
    t = path.term_of_number(x)
    return t if t is not None else rv(x)

  def build(path, wrong=False):
    if path.exc is not None:
      raise Structural("exception", "%s: %s" % (type(path.exc).__name__, str(path.exc)[:300]))
    text_, rows, has_deriv = path.value
    try:
      blocks = pairtables.read_lammps_table(text_)
    except pairtables.FormatError as e:
      raise Structural("format", "LAMMPS reader rejects the file: %s" % e)
    if len(blocks) != 1 or blocks[0]["N"] != nr - 1 or len(blocks[0]["rows"]) != nr - 1:
      raise Structural("N", "table layout: %d blocks" % len(blocks))
    vcs = []
    for k, (idx, r, e, f) in enumerate(blocks[0]["rows"]):
      rn, we, wf = rows[k if not wrong else (k + 1) % (nr - 1)]
      vcs.append(VC("r%d" % (k + 1), eq_formula(T(path, r), rn), info=dict(key="custom-r")))
      vcs.append(VC("E%d" % (k + 1), eq_formula(T(path, e), we), info=dict(key="custom-E")))
      if not has_deriv:
        vcs.append(VC("F%d" % (k + 1), eq_formula(T(path, f), wf), info=dict(key="custom-F")))
    return vcs

  def replay(v, w, path, structural):
    c, d, rec = common.in_fresh_process("checks.c01", "replay_custom_table", name, nr, {k: v_ for k, v_ in w.items() if isinstance(v_, float) and not k.endswith("#exact")})
    return bool(c), d, rec

  try:
    explore_and_check(res, fn, build, replay=replay, negative=lambda p: build(p, wrong=True), use_exp_axioms=True, vc_timeout_ms=30000,
                      explorer_kw=dict(max_paths=600, query_timeout_ms=3000), max_seconds=150, catch=(Exception,))
  finally:
    shims.uninstall()
  return res


def replay_custom_table(name, nr, w):
  """Concrete, real cexprtk: the LAMMPS table of the custom-form model versus the formulas with explicitly bound parameters."""
  import math
  import re
  from checks import c09
  from symx import exprstub
  from specs import potential_forms as spec_
  from atsim.potentials.config import Configuration, ConfigParser
  forms, pair = c09.CUSTOM[name]
  tags = sorted(set(float(x) for x in re.findall(r"10\d\.0", pair)))
  vals = {t: (w.get("p%d" % int(t - 100)) if isinstance(w.get("p%d" % int(t - 100)), float) and 1e-3 < w.get("p%d" % int(t - 100)) < 50 else 0.8 + 0.45 * i) for i, t in enumerate(tags)}
  ptxt = pair
  for t, v in vals.items():
    ptxt = ptxt.replace(repr(t), repr(v))
  cutoff = w.get("cutoff") if isinstance(w.get("cutoff"), float) and 0.5 < w.get("cutoff") < 50 else 6.0
  text = "[Tabulation]\ntarget : LAMMPS\ncutoff : %r\nnr : %d\n\n[Pair]\nA-B : %s\n\n[Potential-Form]\n%s\n" % (cutoff, nr, ptxt, "\n".join("%s = %s" % f for f in forms))
  tab = Configuration().read(io.StringIO(text))
  out = io.StringIO()
  tab.write(out)
  ref = spec_.make(math.exp, math.sqrt)
  funcs = {"as." + k: v for k, v in ref.items()}
  funcs.update({"pymath.exp": math.exp, "pymath.sqrt": math.sqrt, "pymath.log": math.log, "pymath.pow": math.pow})
  for sigtext, formula in forms:
    label, params = c09._sig(sigtext)
    funcs[label] = (lambda *args, params=params, formula=formula: exprstub.evaluate(formula, dict(zip(params, args)), funcs))
  f_spec = c09.spec_definition(ConfigParser(io.StringIO(text)).pair[0].potential_form_instance, funcs, {})
  bad = common.compare_lammps(out.getvalue(), [("A", "B", f_spec, lambda r: common.num_deriv(f_spec, r))], cutoff, nr, tol=1e-6)
  return (bool(bad), "; ".join(bad[:3]) or "table agrees with the formulas", dict(kind="custom_table", model=text))


def cases(tier, seed=0):
  cs = []
  if tier == "quick":
    nrs, maxp = [3, 4, 5, 7], 2
    models = ["buck_morse", "multirange", "sum_modifier", "product_trans"]
    mnr = [4]
  else:
    nrs, maxp = list(range(3, 17)), 3
    models = [m for m in common.PAIR_MODELS if m not in ("spline", "buck4")]
    mnr = [3, 5, 6]
  for nr in nrs:
    for npots in range(1, maxp + 1):
      for derivs in itertools.product([True, False], repeat=npots):
        for route in (("class", "writePotentials") if nr in (3, 5) or tier == "thorough" else ("class",)):
          cs.append(Case("api nr=%d n=%d d=%s %s" % (nr, npots, "".join("ad"[not d] for d in derivs), route),
                         api_case, nr=nr, npots=npots, derivs=derivs, route=route))
  cs.append(Case("api custom h", api_case, nr=4, npots=1, derivs=(False,), route="class", h=1e-5))
  for route in ("class", "writePotentials"):
    cs.append(Case("api nr=5 n=2 after failed writes %s" % route, api_case, nr=5, npots=2, derivs=(True, False), route=route, after_failure=True))
  # potentials that return python ints over part of their range (`return 0` inside a cut-off core)
  for nr, npots, route in ([(5, 1, "class"), (4, 2, "writePotentials")] if tier == "quick" else
                           [(nr_, n_, r_) for nr_ in (3, 5, 8) for n_ in (1, 2) for r_ in ("class", "writePotentials")]):
    cs.append(Case("api int-valued core nr=%d n=%d %s" % (nr, npots, route), api_case, nr=nr, npots=npots, derivs=(True,) * npots, route=route, intcore=True))
  for m in models:
    for nr in mnr:
      cs.append(Case("potable %s nr=%d" % (m, nr), potable_case, model_name=m, nr=nr))
  from checks import fpgrid
  cs.append(Case("fp grid LAMMPS", fpgrid.grid_case, target="LAMMPS", nr=41))
  for name in (("in-modifier", "calls-other-forms") if tier == "quick" else ("in-modifier", "calls-other-forms", "three-level", "positional", "if-and-compare")):
    cs.append(Case("potable custom %s" % name, custom_table_case, name=name, nr=4))
  return cs


def replay(path):
  return common.generic_replay(path)
