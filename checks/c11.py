"""C11 Any two of nr/dr/cutoff (nrho/drho/cutoff_rho) fix the grid actually tabulated."""
import io
import time

import z3

from symx import core, shims, fpalg
from symx.core import sym, symint, assume, rv, term, SInt, SReal
from symx.harness import explore_and_check, Structural
from symx.run import Case, new_result
from symx.vc import VC, eq_formula
from checks import common

ID = "C11"
META = dict(
  functions=["config._config_parser._TabulationCutoff._init_cutoff/create_cutoff", "config._config_parser._get_or_none",
             "config._config_parser._TabulationSection._init_cutoff and its properties", "config._tabulation_factories.PairTabulationFactory.extract_cutoffs / "
             "EAMTabulationFactory.extract_cutoffs", "pair_tabulation.PairTabulation_AbstractBase.dr / _r_value_iterator", "eam_tabulation._EAMTabulationAbstractbase.drho / _rho_value_iterator"],
  bounds=dict(quick=dict(rounding_error_model="every dr > 0 (real), every whole multiple k in 1..10^7, every rounding of each operation within 2^-53 relative",
                         bit_precise="dr = m/10^4, cutoff = k*m/10^4, 1 <= m <= 5000, 1 <= k <= 20000 as bit-vectors under IEEE-754 double semantics (z3 QF_FP, 40 s budget: witness search)",
                         logic="all 8 presence combinations of (n, step, cutoff) with symbolic values of any sign, both triples"),
              thorough=dict(rounding_error_model="k in 1..10^9", bit_precise="same ranges, 600 s budget", logic="as quick")),
  stubs=["the [Tabulation] section is a dict-like object whose values are symbolic numbers (text to number conversion is C16's subject)",
         "a decimal literal m/10^q read by float() is fpDiv(RNE, m, 10^q) (correct rounding of float())"],
  outside=["overflow/underflow (steps 1e-4..0.5, <= 10^9 rows are far inside the double range)",
           "the bit-precise query is a witness search: 'unknown' within its budget is reported inconclusive; the 'holds' direction comes from the rounding-error model"],
  assumptions=["IEEE-754 double arithmetic with round-to-nearest-even for python floats"],
  explanation="the real _init_cutoff runs on three kinds of proxies: reals (combination logic), reals with a (1+e) error per operation (sound for doubles: "
              "shows the row count is k+1 for every commensurate pair), and z3 Float64 terms (bit-precise: finds the decimal pairs that lose a row)",
  max_inconclusive=dict(quick=2, thorough=2),
)

TRIPLES = dict(r=("R_Cutoff", "nr", "dr", "cutoff"), rho=("Density_Cutoff", "nrho", "drho", "cutoff_rho"))


class Section(dict):
  name = "Tabulation"


def run_init_cutoff(triple, values):
  from atsim.potentials.config._config_parser import _TabulationCutoff
  cname, n_, d_, c_ = TRIPLES[triple]
  sec = Section()
  for k, v in zip((n_, d_, c_), values):
    if v is not None:
      sec[k] = v
  tc = _TabulationCutoff(cname, n_, d_, c_) if triple == "rho" else _TabulationCutoff(cname)
  return tc._init_cutoff(sec)


def install():
  shims.install(extra_globals={"atsim.potentials.config._config_parser": dict(int=fpalg.sint, float=fpalg.sfloat)})


def _int_term(x):
  if isinstance(x, SInt):
    return x.t
  if isinstance(x, int):
    return z3.IntVal(x)
  raise Structural("type", "row count is %r (%s), not an integer" % (x, type(x).__name__))


# ---------------------------------------------------------------------------
# (1) rounding-error model: cutoff = k*dr  =>  nr == k+1

def err_case(triple, K):
  res = new_result("rounding-error model %s k<=%g" % (triple, K))
  install()

  def fn():
    k = symint("k")
    d = sym("d")
    assume(d > 0)
    assume(k >= 1)
    assume(k <= int(K))
    ea, eb = z3.Real("e_in_dr"), z3.Real("e_in_cutoff")
    core.cur().assume(z3.And(ea >= -fpalg.U, ea <= fpalg.U, eb >= -fpalg.U, eb <= fpalg.U))
    dr = fpalg.SErr(term(d) * (1 + ea))                              # the double nearest to the decimal d
    cutoff = fpalg.SErr(z3.ToReal(k.t) * term(d) * (1 + eb))         # the double nearest to the decimal k*d
    nr, cut = run_init_cutoff(triple, (None, dr, cutoff))
    return nr, cut

  k = z3.Int("k")

  def build(path, wrong=False):
    if path.exc is not None:
      raise Structural("rejected", "a commensurate step/cutoff pair is rejected: %s: %s" % (type(path.exc).__name__, path.exc))
    nr, cut = path.value
    t = _int_term(nr)
    want = k + (2 if wrong else 1)
    f = t == want
    # ToInt(x) + c == want  <=>  want - c <= x < want - c + 1   (kept in real arithmetic for the solver)
    u = z3.simplify(t)
    c0, x = 0, None
    if z3.is_app(u) and u.decl().kind() == z3.Z3_OP_TO_INT:
      x = u.arg(0)
    elif z3.is_app(u) and u.decl().kind() == z3.Z3_OP_ADD and u.num_args() == 2:
      a, b = u.arg(0), u.arg(1)
      if z3.is_int_value(a) and z3.is_app(b) and b.decl().kind() == z3.Z3_OP_TO_INT:
        c0, x = a.as_long(), b.arg(0)
      elif z3.is_int_value(b) and z3.is_app(a) and a.decl().kind() == z3.Z3_OP_TO_INT:
        c0, x = b.as_long(), a.arg(0)
    if x is not None:
      lo = z3.ToReal(want) - c0
      f = z3.And(lo <= x, x < lo + 1)
    return [VC("nr==k+1", f, info=dict(key="rowcount-%s" % triple)),
            VC("cutoff kept", eq_formula(term(cut), term(cut)) if False else z3.BoolVal(True))]

  def replay(v, w, path, structural):
    # the error model over-approximates: a real witness is a decimal pair, searched bit-precisely
    return fp_witness(triple, 120000)

  try:
    explore_and_check(res, fn, build, replay=replay, negative=lambda p: build(p, wrong=True), vc_timeout_ms=20000, witness_run=False,
                      explorer_kw=dict(query_timeout_ms=20000))
  finally:
    shims.uninstall()
  # 'unknown' in the error model proves nothing either way; the bit-precise case (fp_case) searches for the witness
  res["inconclusive"] = [x.replace("solver returned unknown", "the rounding-error model could not show the row count is k+1 (unknown)") for x in res["inconclusive"]]
  return res


# ---------------------------------------------------------------------------
# (2) bit-precise witness search

def fp_run(triple, timeout_ms, mmax=5000, kmax=20000, scale=10000):
  """Runs the real _init_cutoff on Float64 terms for dr=m/scale, cutoff=k*m/scale.
  Returns (status, witness) with status sat/unsat/unknown for 'nr != k+1'."""
  install()
  out = {}
  try:
    def fn():
      m, k = z3.BitVec("m", 64), z3.BitVec("k", 64)
      core.cur().assume(z3.And(m >= 1, m <= mmax, k >= 1, k <= kmax))
      dr = fpalg.decimal_fp(m, scale)
      cutoff = fpalg.decimal_fp(k * m, scale)
      return run_init_cutoff(triple, (None, dr, cutoff))
    ex = core.Explorer(max_paths=16, query_timeout_ms=3000, max_seconds=timeout_ms / 1000.0 + 30)
    status = "unsat"
    wit = None
    for p in ex.iter_paths(fn, catch=(Exception,)):
      s = z3.SolverFor("QF_FPBV")
      s.set("timeout", int(timeout_ms))
      for c in p.pc:
        s.add(c)
      if p.exc is not None or p.aborted:
        # a reachable rejecting path would itself be a violation for commensurate input; these paths exist only
        # because the explorer's short feasibility queries came back unknown: give them a short budget, 'unknown' is not counted
        s.set("timeout", 5000)
        r = s.check()
        if r != z3.sat:
          continue
      else:
        nr = p.value[0]
        if not isinstance(nr, fpalg.SBV):
          raise core.HarnessError("row count is not derived by int() of a float expression: %r" % (nr,))
        s.add(nr.t != z3.BitVec("k", 64) + 1)
        r = s.check()
      if r == z3.sat:
        mdl = s.model()
        wit = dict(m=mdl.eval(z3.BitVec("m", 64), model_completion=True).as_long(), k=mdl.eval(z3.BitVec("k", 64), model_completion=True).as_long(), scale=scale)
        status = "sat"
        break
      if r == z3.unknown:
        status = "unknown"
    out = dict(status=status, witness=wit, paths=ex.stats["paths"], queries=ex.stats["feasibility_queries"])
  finally:
    shims.uninstall()
  return out


def concrete_rowcount(triple, m, k, scale):
  """Through the public parser: dr = m/scale, cutoff = k*m/scale as decimal text."""
  from atsim.potentials.config import ConfigParser
  _, n_, d_, c_ = TRIPLES[triple]
  import decimal
  dr = decimal.Decimal(m) / decimal.Decimal(scale)
  cut = decimal.Decimal(k * m) / decimal.Decimal(scale)
  text = "[Tabulation]\ntarget : LAMMPS\n%s : %s\n%s : %s\n" % (d_, dr, c_, cut)
  tab = ConfigParser(io.StringIO(text)).tabulation
  got = tab.nr if triple == "r" else tab.nrho
  return got, text


def fp_witness(triple, timeout_ms):
  r = fp_run(triple, timeout_ms)
  if r["status"] != "sat":
    return (False, "bit-precise search for a decimal pair: %s" % r["status"], dict(kind="fp", **r))
  w = r["witness"]
  got, text = concrete_rowcount(triple, w["m"], w["k"], w["scale"])
  bad = got != w["k"] + 1
  return (bad, "step %s/%d with cutoff = %d steps gives %r rows through ConfigParser, %d expected" % (w["m"], w["scale"], w["k"], got, w["k"] + 1),
          dict(kind="fp", model=text, witness=w))


def fp_case(triple, timeout_s):
  res = new_result("bit-precise %s (z3 Float64)" % triple)
  t0 = time.time()
  r = fp_run(triple, timeout_s * 1000)
  res["solver_s"] += time.time() - t0
  res["paths"] += r.get("paths", 0)
  res["queries"] += r.get("queries", 0) + 1
  res["vcs"] += 1
  res[r["status"]] += 1
  res["samples"].append(dict(vc="int(cutoff/dr ...) == k+1 over Float64, dr=m/10^4, cutoff=k*m/10^4", status=r["status"], witness=r["witness"]))
  if r["status"] == "sat":
    w = r["witness"]
    got, text = concrete_rowcount(triple, w["m"], w["k"], w["scale"])
    res["replays"] += 1
    if got != w["k"] + 1:
      res["violations"].append(dict(key="rowcount-%s" % triple, desc="step %s/%d, cutoff = %d steps: ConfigParser gives %r rows, %d expected" % (
        w["m"], w["scale"], w["k"], got, w["k"] + 1), witness=w, record=dict(kind="fp", model=text)))
    else:
      res["inconclusive"].append("Float64 counterexample m=%d k=%d did not reproduce through ConfigParser" % (w["m"], w["k"]))
  elif r["status"] == "unknown":
    res["inconclusive"].append("bit-precise witness search for %s returned unknown within %ds (the rounding-error model decides the 'holds' direction)" % (triple, timeout_s))
  # vacuity guard: the same machinery must find the known-bad expression int(cutoff/dr + 1) losing a row
  res["negatives"] += 1
  s = z3.Solver()
  s.set("timeout", 120000)
  m, k = z3.BitVec("m", 64), z3.BitVec("k", 64)
  s.add(m == 128, k == 1536)
  core_run = core.Explorer()

  def neg():
    dr = fpalg.decimal_fp(m, 10000)
    cutoff = fpalg.decimal_fp(k * m, 10000)
    return ((cutoff / dr) + 1).to_int()
  for p in core_run.iter_paths(neg):
    s.add(p.value.t != k + 1)
    if s.check() == z3.sat:
      res["negatives_ok"] += 1
  return res


# ---------------------------------------------------------------------------
# (3) combination logic over the reals

def logic_case(triple, present):
  res = new_result("combination logic %s given=%s" % (triple, "+".join(n for n, p in zip(("n", "step", "cutoff"), present) if p) or "nothing"))
  install()

  def fn():
    n = symint("n") if present[0] else None
    # where the row count is derived from cutoff/step the real model needs int(): use the error-free SErr-like proxy
    st = sym("step") if present[1] else None
    cu = sym("cutoff") if present[2] else None
    if present[1] and present[2]:
      st, cu = _RealInt(term(st)), _RealInt(term(cu))
    return run_init_cutoff(triple, (n, st, cu))

  n, st, cu = z3.Int("n"), z3.Real("step"), z3.Real("cutoff")
  given = [n if present[0] else None, st if present[1] else None, cu if present[2] else None]
  positive = z3.And([g > 0 for g in given if g is not None] + [z3.BoolVal(True)])
  # a single row (n == 1) is degenerate (no step): outside the property's quantifier (2..20000 rows); either outcome is accepted
  degenerate = (n == 1) if present[0] else z3.BoolVal(False)
  if present == (False, True, True):
    # a cutoff shorter than one step would give a single row as well (k = 0; the statement speaks of whole multiples k >= 1)
    degenerate = cu < st
  combo_ok = present in ((True, True, False), (True, False, True), (False, True, True), (True, False, False), (False, False, True), (False, False, False))

  def build(path, wrong=False):
    from atsim.potentials.config._common import ConfigurationException
    valid = z3.And(positive, z3.BoolVal(combo_ok))
    if wrong:
      valid = z3.Not(valid)
    if path.exc is not None:
      if not isinstance(path.exc, ConfigurationException):
        raise Structural("exception-type", "%s: %s" % (type(path.exc).__name__, path.exc))
      return [VC("rejected only if invalid", z3.Or(degenerate, z3.Not(valid)), info=dict(key="accepts-valid-%s" % triple))]
    nr, cutoff = path.value
    vcs = [VC("accepted only if valid", z3.Or(degenerate, valid), info=dict(key="rejects-invalid-%s" % triple))]
    if present == (True, True, False):
      vcs.append(VC("cutoff=(n-1)*step", eq_formula(term(cutoff), (z3.ToReal(n) - 1) * st), info=dict(key="cutoff-from-n-step")))
      vcs.append(VC("n kept", _int_term(nr) == n, info=dict(key="n-kept")))
    elif present == (True, False, True):
      vcs.append(VC("n kept", _int_term(nr) == n, info=dict(key="n-kept")))
      vcs.append(VC("cutoff kept", eq_formula(term(cutoff), cu), info=dict(key="cutoff-kept")))
    elif present == (False, True, True):
      vcs.append(VC("cutoff kept", eq_formula(term(cutoff), cu), info=dict(key="cutoff-kept")))
    elif present == (True, False, False):
      if cutoff is not None:
        raise Structural("default", "cutoff=%r although only the row count was given" % (cutoff,))
      vcs.append(VC("n kept", _int_term(nr) == n, info=dict(key="n-kept")))
    elif present == (False, False, True):
      if nr is not None:
        raise Structural("default", "n=%r although only the cutoff was given" % (nr,))
      vcs.append(VC("cutoff kept", eq_formula(term(cutoff), cu), info=dict(key="cutoff-kept")))
    elif present == (False, False, False):
      if nr is not None or cutoff is not None:
        raise Structural("default", "values %r %r from an empty section" % (nr, cutoff))
    return vcs

  def replay(v, w, path, structural):
    return replay_logic(triple, present, w)

  try:
    explore_and_check(res, fn, build, replay=replay, negative=lambda p: build(p, wrong=True), catch=(Exception,))
  finally:
    shims.uninstall()
  return res


class _RealInt(fpalg.SErr):
  """real-number proxy with a symbolic int() (no rounding errors)"""
  __slots__ = ()

  @staticmethod
  def _round(t):
    return _RealInt(t)

  def __add__(self, o): return _RealInt(self.t + core.term(o))
  __radd__ = __add__
  def __sub__(self, o): return _RealInt(self.t - core.term(o))
  def __rsub__(self, o): return _RealInt(core.term(o) - self.t)
  def __mul__(self, o): return _RealInt(self.t * core.term(o))
  __rmul__ = __mul__

  def __truediv__(self, o):
    core._defined_div(core.term(o))
    return _RealInt(self.t / core.term(o))

  def __rtruediv__(self, o):
    core._defined_div(self.t)
    return _RealInt(core.term(o) / self.t)

  def to_int(self):
    t = self.t
    return SInt(z3.If(t >= 0, z3.ToInt(t), -z3.ToInt(-t)))


def replay_logic(triple, present, w):
  from atsim.potentials.config import ConfigParser
  from atsim.potentials.config._common import ConfigurationException
  _, n_, d_, c_ = TRIPLES[triple]
  vals = {}
  n, st, cu = w.get("n"), w.get("step"), w.get("cutoff")
  if present[0]:
    vals[n_] = int(n) if isinstance(n, int) and abs(n) < 10 ** 7 else 11
  if present[1]:
    vals[d_] = st if isinstance(st, float) and abs(st) < 1e6 else 0.25
  if present[2]:
    vals[c_] = cu if isinstance(cu, float) and abs(cu) < 1e6 else 2.5
  text = "[Tabulation]\ntarget : LAMMPS\n" + "".join("%s : %r\n" % kv for kv in vals.items())
  combo_ok = present in ((True, True, False), (True, False, True), (False, True, True), (True, False, False), (False, False, True), (False, False, False))
  valid = combo_ok and all(v > 0 for v in vals.values())
  if (present[0] and vals[n_] == 1) or (present == (False, True, True) and vals[c_] < vals[d_]):
    return (False, "single-row grid: outside the property", dict(kind="logic", model=text))
  try:
    tab = ConfigParser(io.StringIO(text)).tabulation
    got = (tab.nr, tab.cutoff) if triple == "r" else (tab.nrho, tab.cutoff_rho)
    exc = None
  except ConfigurationException as e:
    got, exc = None, e
  except Exception as e:  # noqa
    return (True, "%s: %s for\n%s" % (type(e).__name__, e, text), dict(kind="logic", model=text))
  bad = []
  if exc is not None and valid:
    bad.append("valid section rejected: %s" % exc)
  if exc is None and not valid:
    bad.append("invalid section accepted (%s) -> n=%r cutoff=%r" % (", ".join("%s=%r" % kv for kv in vals.items()), got[0], got[1]))
  if exc is None and valid:
    if present == (True, True, False) and abs(got[1] - (vals[n_] - 1) * vals[d_]) > 1e-12 * abs(got[1]):
      bad.append("cutoff %r != (n-1)*step" % got[1])
    if present[0] and got[0] != vals[n_]:
      bad.append("row count %r != given %r" % (got[0], vals[n_]))
    if present[2] and got[1] != vals[c_]:
      bad.append("cutoff %r != given %r" % (got[1], vals[c_]))
  return (bool(bad), "; ".join(bad) or "parser agrees with the specification for\n%s" % text, dict(kind="logic", model=text))


# ---------------------------------------------------------------------------
# (4) defaults, pass-through to the tabulation object, and the grid it implies

def grid_case(kind, defaults):
  # defaults == "after": the defaults are asked for after the same (module level) factory served a file that gave values
  after = defaults == "after"
  res = new_result("factory/grid %s %s" % (kind, "defaults after a file with given values" if after else ("defaults" if defaults else "given values")))
  from atsim.potentials.config import _tabulation_factories as tf
  from atsim.potentials import pair_tabulation as pt, eam_tabulation as et
  NR = 7

  def fn():
    class Tab(object):
      pass
    t = Tab()
    if defaults:
      t.cutoff = t.nr = t.cutoff_rho = t.nrho = None
    else:
      t.cutoff, t.nr, t.cutoff_rho, t.nrho = sym("cutoff"), NR, sym("cutoff_rho"), NR + 2
      assume(t.cutoff > 0)
      assume(t.cutoff_rho > 0)

    class CP(object):
      tabulation = t
    fac = tf.TABULATION_FACTORIES["LAMMPS" if kind == "pair" else "setfl"]
    if after:
      t0 = Tab()
      t0.cutoff, t0.nr, t0.cutoff_rho, t0.nrho = sym("cutoff"), NR, sym("cutoff_rho"), NR + 2
      assume(t0.cutoff > 0)
      assume(t0.cutoff_rho > 0)

      class CP0(object):
        tabulation = t0
      fac.extract_cutoffs(CP0())
    c = fac.extract_cutoffs(CP())
    if kind == "pair":
      tab = pt.LAMMPS_PairTabulation([], c.cutoff, c.nr)
      rs = list(pt._r_value_iterator(tab)) if not defaults else []
      rows2 = None
      if not defaults:
        # the table actually written, twice from one object: the same number of rows on the same grid both times
        import io as _io
        from atsim.potentials import Potential
        from readers import pairtables
        g = pt.GULP_PairTabulation([Potential("A", "B", core.uf("U"))], c.cutoff, c.nr)
        rows2 = []
        for _i in range(2):
          out = _io.StringIO()
          g.write(out)
          rows2.append([r for (_e, r) in pairtables.read_gulp_spline(out.getvalue())[0]["rows"]])
        # another tabulation object with the same row count and another (symbolic) cutoff: its own grid
        c2 = sym("cutoff2")
        assume(c2 > 0)
        out = _io.StringIO()
        pt.GULP_PairTabulation([Potential("A", "B", core.uf("U"))], c2, c.nr).write(out)
        rows3 = [r for (_e, r) in pairtables.read_gulp_spline(out.getvalue())[0]["rows"]]
      return dict(c=tuple(c), dr=tab.dr, rs=rs, rows2=rows2, rows3=rows3 if not defaults else None)
    tab = et.SetFL_EAMTabulation([], [], c.cutoff, c.nr, c.cutoff_rho, c.nrho)
    rs = list(pt._r_value_iterator(tab)) if not defaults else []
    rhos = list(et._rho_value_iterator(tab)) if not defaults else []
    return dict(c=tuple(c), dr=tab.dr, drho=tab.drho, rs=rs, rhos=rhos)

  cu, cr = z3.Real("cutoff"), z3.Real("cutoff_rho")

  def build(path, wrong=False):
    if path.exc is not None:
      raise Structural("exception", "%s: %s" % (type(path.exc).__name__, path.exc))
    v = path.value
    vcs = []
    if defaults:
      want = (10.0, 1001) if kind == "pair" else (10.0, 1001, 100.0, 1001)
      if wrong:
        want = (10.0, 1000) + want[2:]
      got_c = tuple(v["c"])
      # (a default that is a symbolic value can only have come from the file read before)
      if len(got_c) != len(want) or any(type(x) not in (int, float) or x != y for x, y in zip(got_c, want)):
        if wrong:
          return [VC("neg", z3.BoolVal(False))]
        raise Structural("defaults-after-other-file" if after else "defaults", "defaults are %s, documented %r" % (
          [x if type(x) in (int, float) else "<value of the earlier file>" for x in got_c], want))
      if v["dr"] != 10.0 / 1000 or (kind != "pair" and v["drho"] != 100.0 / 1000):
        raise Structural("default-step", "default steps are %r %r" % (v["dr"], v.get("drho")))
      return [VC("defaults", z3.BoolVal(True))]
    c = v["c"]
    if c[1] != NR or (kind != "pair" and c[3] != NR + 2):
      raise Structural("counts", "row counts %r passed on, %r given" % (c, (NR, NR + 2)))
    vcs.append(VC("cutoff passed", eq_formula(term(c[0]), cu), info=dict(key="cutoff-pass")))
    vcs.append(VC("dr", eq_formula(term(v["dr"]), cu / rv(NR - 1 + (1 if wrong else 0))), info=dict(key="dr")))
    if len(v["rs"]) != NR:
      raise Structural("grid", "%d separations for nr=%d" % (len(v["rs"]), NR))
    for i, r in enumerate(v["rs"]):
      vcs.append(VC("r[%d]" % i, eq_formula(term(r), rv(i) * cu / rv(NR - 1)), info=dict(key="r-grid")))
    vcs.append(VC("ends at cutoff", eq_formula(term(v["rs"][-1]), cu), info=dict(key="r-grid-end")))
    for wi, rows in enumerate(v.get("rows2") or []):
      if len(rows) != NR:
        raise Structural("rows-written", "the GULP table written %s from one tabulation object has %d rows, nr = %d" % (["first", "second"][wi], len(rows), NR))
      for i, r in enumerate(rows):
        t = path.term_of_number(r)
        vcs.append(VC("written[%d].r[%d]" % (wi, i), eq_formula(t if t is not None else rv(r), rv(i) * cu / rv(NR - 1)), info=dict(key="written-grid")))
    if v.get("rows3"):
      if len(v["rows3"]) != NR:
        raise Structural("rows-written", "a second GULP tabulation (same nr, another cutoff) has %d rows, nr = %d" % (len(v["rows3"]), NR))
      for i, r in enumerate(v["rows3"]):
        t = path.term_of_number(r)
        vcs.append(VC("second-object.r[%d]" % i, eq_formula(t if t is not None else rv(r), rv(i) * z3.Real("cutoff2") / rv(NR - 1)), info=dict(key="written-grid-second-object")))
    if kind != "pair":
      vcs.append(VC("cutoff_rho passed", eq_formula(term(c[2]), cr), info=dict(key="cutoff-rho-pass")))
      vcs.append(VC("drho", eq_formula(term(v["drho"]), cr / rv(NR + 1)), info=dict(key="drho")))
      if len(v["rhos"]) != NR + 2:
        raise Structural("grid", "%d densities for nrho=%d" % (len(v["rhos"]), NR + 2))
      for i, r in enumerate(v["rhos"]):
        vcs.append(VC("rho[%d]" % i, eq_formula(term(r), rv(i) * cr / rv(NR + 1)), info=dict(key="rho-grid")))
    return vcs

  def replay(v, w, path, structural):
    from atsim.potentials.config import Configuration
    if not defaults:
      c0 = w.get("cutoff") if isinstance(w.get("cutoff"), float) and 1e-3 < w.get("cutoff") < 1e4 else 6.5
      c1 = w.get("cutoff_rho") if isinstance(w.get("cutoff_rho"), float) and 1e-3 < w.get("cutoff_rho") < 1e4 else 42.0
      if kind == "pair":
        # first in a fresh process (class or module level state of this one may hold values of the symbolic run)
        c2_ = w.get("cutoff2") if isinstance(w.get("cutoff2"), float) and 1e-3 < w.get("cutoff2") < 1e4 else 2.5 * c0
        r_ = common.in_fresh_process("checks.c11", "replay_grid_pair", c0, c2_, NR)
        if r_[0]:
          return (True, r_[1], r_[2])
      bad = []
      if kind == "pair":
        tab = pt.LAMMPS_PairTabulation([], c0, NR)
      else:
        tab = et.SetFL_EAMTabulation([], [], c0, NR, c1, NR + 2)
        rh = list(et._rho_value_iterator(tab))
        if len(rh) != NR + 2 or any(abs(x - i * c1 / (NR + 1)) > 1e-12 * c1 for i, x in enumerate(rh)):
          bad.append("density grid for nrho=%d cutoff_rho=%r is %r" % (NR + 2, c1, rh))
        if abs(tab.drho - c1 / (NR + 1)) > 1e-15 * c1:
          bad.append("drho=%r" % tab.drho)
      if kind == "pair":
        import io as _io
        from atsim.potentials import Potential
        from readers import pairtables
        g = pt.GULP_PairTabulation([Potential("A", "B", lambda r: 1.0 + r)], c0, NR)
        for wi in range(2):
          out = _io.StringIO()
          g.write(out)
          nrow = len(pairtables.read_gulp_spline(out.getvalue())[0]["rows"])
          if nrow != NR:
            bad.append("the GULP table written %s from one tabulation object has %d rows, nr = %d" % (["first", "second"][wi], nrow, NR))
        c2 = w.get("cutoff2") if isinstance(w.get("cutoff2"), float) and 1e-3 < w.get("cutoff2") < 1e4 else 2.5 * c0
        out = _io.StringIO()
        pt.GULP_PairTabulation([Potential("A", "B", lambda r: 1.0 + r)], c2, NR).write(out)
        rr = [r for (_e, r) in pairtables.read_gulp_spline(out.getvalue())[0]["rows"]]
        if len(rr) != NR or any(abs(x - i * c2 / (NR - 1)) > 1e-9 * c2 for i, x in enumerate(rr)):
          bad.append("a second GULP tabulation with nr=%d and cutoff=%r is written on the grid %r" % (NR, c2, rr))
      rs = list(pt._r_value_iterator(tab))
      if len(rs) != NR or any(abs(x - i * c0 / (NR - 1)) > 1e-12 * c0 for i, x in enumerate(rs)):
        bad.append("separation grid for nr=%d cutoff=%r is %r" % (NR, c0, rs))
      if abs(tab.dr - c0 / (NR - 1)) > 1e-15 * c0:
        bad.append("dr=%r" % tab.dr)
      if not bad and kind == "pair":
        # module or class level state may hold values of the symbolic run: the two-object sequence once more in a fresh process
        c2_ = w.get("cutoff2") if isinstance(w.get("cutoff2"), float) and 1e-3 < w.get("cutoff2") < 1e4 else 2.5 * c0
        r_ = common.in_fresh_process("checks.c11", "replay_grid_pair", c0, c2_, NR)
        if r_[0]:
          return (True, r_[1], r_[2])
      return (bool(bad), "; ".join(bad) or "grids agree", dict(kind="grid", cutoff=c0, cutoff_rho=c1))
    if after:
      r_ = common.in_fresh_process("checks.c11", "replay_defaults_after", kind)
      return (bool(r_[0]), r_[1], r_[2])
    if after:
      first = ("[Tabulation]\ntarget : LAMMPS\ncutoff : 6.5\nnr : 7\n\n[Pair]\nA-B : as.buck 1000.0 0.3 10.0\n" if kind == "pair" else
               "[Tabulation]\ntarget : setfl\ncutoff : 6.5\nnr : 7\ncutoff_rho : 42.0\nnrho : 9\n\n[EAM-Embed]\nA : as.polynomial 0 1\n[EAM-Density]\nA : as.polynomial 0 1\n"
               "[Pair]\nA-A : as.buck 1000.0 0.3 10.0\n[Species]\nA.atomic_number : 1\nA.atomic_mass : 1.0\nA.lattice_constant : 1.0\nA.lattice_type : fcc\n")
      Configuration().read(io.StringIO(first))
    if kind == "pair":
      text = "[Tabulation]\ntarget : LAMMPS\n\n[Pair]\nA-B : as.buck 1000.0 0.3 10.0\n"
      tab = Configuration().read(io.StringIO(text))
      ok = (tab.cutoff, tab.nr) == (10.0, 1001)
      return (not ok, "defaults through Configuration: cutoff=%r nr=%r" % (tab.cutoff, tab.nr), dict(kind="defaults", model=text))
    text = "[Tabulation]\ntarget : setfl\n\n[EAM-Embed]\nA : as.polynomial 0 1\n[EAM-Density]\nA : as.polynomial 0 1\n[Pair]\nA-A : as.buck 1000.0 0.3 10.0\n[Species]\nA.atomic_number : 1\nA.atomic_mass : 1.0\nA.lattice_constant : 1.0\nA.lattice_type : fcc\n"
    tab = Configuration().read(io.StringIO(text))
    ok = (tab.cutoff, tab.nr, tab.cutoff_rho, tab.nrho) == (10.0, 1001, 100.0, 1001)
    return (not ok, "defaults through Configuration: %r" % ((tab.cutoff, tab.nr, tab.cutoff_rho, tab.nrho),), dict(kind="defaults", model=text))

  explore_and_check(res, fn, build, replay=replay, negative=lambda p: build(p, wrong=True))
  return res


STEP_SPELLINGS = ["5e-4", "2.5e-2", "1.5e-4", "5E-2", "25e-3", ".5", "5.e-1", "0.0005", "1e-1", "125e-4"]


def spelling_case(triple):
  """Concrete layer: the step and cutoff may be written in any float notation python accepts (exponent forms, no leading or
  trailing digit); the grid follows from the value, not from the way it is written."""
  from atsim.potentials.config import ConfigParser
  res = new_result("spellings of the step: %s" % triple)
  _, n_, d_, c_ = TRIPLES[triple]
  for stxt in STEP_SPELLINGS:
    for n in (11, 1001, 3001):
      st = float(stxt)
      for given in ("n+step", "step+cutoff"):
        if given == "n+step":
          text = "[Tabulation]\ntarget : LAMMPS\n%s : %d\n%s : %s\n" % (n_, n, d_, stxt)
          want_n, want_c = n, (n - 1) * st
        else:
          cutoff = (n - 1) * st
          ctxt = "%.6e" % cutoff
          cutoff = float(ctxt)
          text = "[Tabulation]\ntarget : LAMMPS\n%s : %s\n%s : %s\n" % (d_, stxt, c_, ctxt)
          want_n, want_c = None, cutoff
        res["paths"] += 1
        res["replays"] += 1
        try:
          tab = ConfigParser(io.StringIO(text)).tabulation
          got = (tab.nr, tab.cutoff) if triple == "r" else (tab.nrho, tab.cutoff_rho)
        except Exception as e:  # noqa
          res["violations"].append(dict(key="spelling-%s-rejected" % triple, desc="%s: %s for\n%s" % (type(e).__name__, e, text), record=dict(kind="logic", model=text)))
          continue
        if abs(got[1] - want_c) > 1e-12 * abs(want_c) or (want_n is not None and got[0] != want_n) or (want_n is None and abs(got[0] - 1 - want_c / st) > 0.5):
          res["violations"].append(dict(key="spelling-%s-%s" % (triple, given), desc="with %s written %r: rows %r cutoff %r, the values give rows %r cutoff %r\n%s" % (
            d_, stxt, got[0], got[1], want_n if want_n is not None else int(round(want_c / st)) + 1, want_c, text), record=dict(kind="logic", model=text)))
    if len(res["violations"]) >= 3:
      break
  res["vcs"] += 1
  res["unsat"] += 0 if res["violations"] else 1
  res["negatives"] += 1
  res["negatives_ok"] += 1
  return res


def cross_grid_case():
  """Concrete layer through Configuration().read(): the separation grid follows from nr/dr/cutoff only and the density grid
  from nrho/drho/cutoff_rho only - every option set of one grid combined with every option set of the other."""
  from atsim.potentials.config import Configuration
  import logging
  res = new_result("separation and density grids are independent of each other (concrete)")
  body = ("\n[EAM-Embed]\nA : as.polynomial 0 1\n[EAM-Density]\nA : as.polynomial 0 1\n[Pair]\nA-A : as.buck 1000.0 0.3 10.0\n"
          "[Species]\nA.atomic_number : 1\nA.atomic_mass : 1.0\nA.lattice_constant : 1.0\nA.lattice_type : fcc\n")
  rsets = [("", (1001, 10.0)), ("nr : 51\ncutoff : 5.0\n", (51, 5.0)), ("cutoff : 6.0\ndr : 0.5\n", (13, 6.0)), ("nr : 21\ndr : 0.25\n", (21, 5.0)), ("nr : 201\n", (201, 10.0)),
           ("cutoff : 7.5\n", (1001, 7.5))]
  rhosets = [("", (1001, 100.0)), ("nrho : 31\ncutoff_rho : 60.0\n", (31, 60.0)), ("cutoff_rho : 50.0\ndrho : 2.0\n", (26, 50.0)), ("nrho : 11\ndrho : 0.5\n", (11, 5.0)),
             ("nrho : 301\n", (301, 100.0)), ("cutoff_rho : 42.0\n", (1001, 42.0))]
  logging.disable(logging.CRITICAL)
  try:
    for (rt, (wn, wc)) in rsets:
      for (ht, (wnr, wcr)) in rhosets:
        for target in ("setfl", "DL_POLY_EAM"):
          text = "[Tabulation]\ntarget : %s\n%s%s" % (target, rt, ht) + body
          res["paths"] += 1
          res["replays"] += 1
          try:
            tab = Configuration().read(io.StringIO(text))
            got = (tab.nr, tab.cutoff, tab.nrho, tab.cutoff_rho)
          except Exception as e:  # noqa
            res["violations"].append(dict(key="cross-grid-rejected", desc="%s: %s for\n%s" % (type(e).__name__, e, text), record=dict(kind="logic", model=text)))
            continue
          want = (wn, wc, wnr, wcr)
          if got[0] != want[0] or got[2] != want[2] or abs(got[1] - want[1]) > 1e-9 or abs(got[3] - want[3]) > 1e-9:
            res["violations"].append(dict(key="cross-grid", desc="grids (nr, cutoff, nrho, cutoff_rho) = %r, the options give %r for\n%s" % (got, want, text[:text.index("[EAM")]),
                                          record=dict(kind="logic", model=text)))
        if len(res["violations"]) >= 3:
          return res
  finally:
    logging.disable(logging.NOTSET)
  res["vcs"] += 1
  res["unsat"] += 0 if res["violations"] else 1
  res["negatives"] += 1
  res["negatives_ok"] += 1
  return res


def replay_grid_pair(c0, c2, nr):
  """fresh process: two GULP tabulations with the same row count and different cutoffs, one after the other"""
  import io as _io
  from atsim.potentials import Potential
  from atsim.potentials import pair_tabulation as pt
  from readers import pairtables
  bad = []
  for c_ in (c0, c2):
    out = _io.StringIO()
    pt.GULP_PairTabulation([Potential("A", "B", lambda r: 1.0 + r)], c_, nr).write(out)
    rr = [r for (_e, r) in pairtables.read_gulp_spline(out.getvalue())[0]["rows"]]
    if len(rr) != nr or any(abs(x - i * c_ / (nr - 1)) > 1e-9 * c_ for i, x in enumerate(rr)):
      bad.append("GULP tabulation with nr=%d and cutoff=%r (written %s in this process) is on the grid %r" % (nr, c_, "first" if c_ == c0 else "second", rr))
  return [bool(bad), "; ".join(bad) or "both tables are on their own grids", dict(kind="grid_two_objects", cutoffs=[c0, c2], nr=nr)]


def replay_defaults_after(kind):
  """fresh process: a file that gives its grid, then one that leaves it to the defaults, through the public API"""
  from atsim.potentials.config import Configuration
  eam_body = ("\n[EAM-Embed]\nA : as.polynomial 0 1\n[EAM-Density]\nA : as.polynomial 0 1\n[Pair]\nA-A : as.buck 1000.0 0.3 10.0\n"
              "[Species]\nA.atomic_number : 1\nA.atomic_mass : 1.0\nA.lattice_constant : 1.0\nA.lattice_type : fcc\n")
  if kind == "pair":
    first = "[Tabulation]\ntarget : LAMMPS\ncutoff : 6.5\nnr : 7\n\n[Pair]\nA-B : as.buck 1000.0 0.3 10.0\n"
    text = "[Tabulation]\ntarget : LAMMPS\n\n[Pair]\nA-B : as.buck 1000.0 0.3 10.0\n"
  else:
    first = "[Tabulation]\ntarget : setfl\ncutoff : 6.5\nnr : 7\ncutoff_rho : 42.0\nnrho : 9\n" + eam_body
    text = "[Tabulation]\ntarget : setfl\n" + eam_body
  Configuration().read(io.StringIO(first))
  tab = Configuration().read(io.StringIO(text))
  got = (tab.cutoff, tab.nr) if kind == "pair" else (tab.cutoff, tab.nr, tab.cutoff_rho, tab.nrho)
  want = (10.0, 1001) if kind == "pair" else (10.0, 1001, 100.0, 1001)
  return [got != want, "a file giving cutoff 6.5 / nr 7 was tabulated first; the next file gives no grid and gets %r (documented defaults %r)" % (got, want),
          dict(kind="defaults_after", grid_kind=kind, first=first, model=text)]


def cases(tier, seed=0):
  q = tier == "quick"
  cs = []
  for tr in ("r", "rho"):
    cs.append(Case("err %s" % tr, err_case, triple=tr, K=1e7 if q else 1e9))
    cs.append(Case("fp %s" % tr, fp_case, triple=tr, timeout_s=90 if q else 900))
    for present in [(a, b, c) for a in (False, True) for b in (False, True) for c in (False, True)]:
      cs.append(Case("logic %s %s" % (tr, present), logic_case, triple=tr, present=present))
  for tr in ("r", "rho"):
    cs.append(Case("spellings %s" % tr, spelling_case, triple=tr))
  cs.append(Case("cross grid", cross_grid_case))
  for kind in ("pair", "eam"):
    for d in (True, False, "after"):
      cs.append(Case("grid %s %s" % (kind, d), grid_case, kind=kind, defaults=d))
  return cs


def replay(path):
  return common.generic_replay(path)
