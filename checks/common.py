"""Shared pieces of the checks: test models, concrete replay of counterexamples
against the real code (no proxies, no shims), replay-file handling."""
import io
import json
import math
import os
import subprocess
import sys

from readers import pairtables

HERE = os.path.dirname(os.path.dirname(os.path.abspath(__file__)))

# ---------------------------------------------------------------------------
# potable pair models (templates: %(target)s %(nr)d)

_TAB = "[Tabulation]\ntarget : %(target)s\ncutoff : 6.0\nnr : %(nr)d\n\n"

PAIR_MODELS = {
  "buck_morse": _TAB + "[Pair]\nO-U : as.buck 1761.775 0.35642 0.0\nO-O : as.morse 1.5 2.1 0.4\n",
  "multirange": _TAB + "[Pair]\nA-B : >=0 as.constant 2.5 >1.5 as.polynomial 1.0 -2.0 0.5 >=3.0 as.buck 1000.0 0.3 12.0\n",
  "sum_modifier": _TAB + "[Pair]\nSi-O : sum(as.buck 1000.0 0.3 32.0, as.polynomial 0.5 2.0, >2.0 as.constant 1.0)\n",
  "product_trans": _TAB + "[Pair]\nA-A : product(as.polynomial 1.0 0.5, trans(as.morse 1.2 2.0 0.3, as.constant 0.25))\n",
  "lj_hbnd": _TAB + "[Pair]\nH-O : as.hbnd 120.0 30.0\nAr-Ar : as.lj 0.0104 3.4\n",
  "nested": _TAB + "[Pair]\nA-B : sum(product(as.constant 2.0, as.exponential 3.0 2), >1.0 sum(as.lj 0.01 3.0, as.constant -0.5))\n",
  "spline": _TAB + "[Pair]\nA-B : spline(>0 as.polynomial 5.0 -1.0 >=1.0 exp_spline >=2.5 as.buck 1000.0 0.3 10.0)\n",
  "buck4": _TAB + "[Pair]\nO-O : as.buck4 11272.6 0.1363 134.0 1.2 2.1 2.6\n",
}


def gen_functions(npots):
  """Generic, pairwise different concrete potentials with true derivatives."""
  fs = []
  for p in range(npots):
    a, b, c = 3.5 + 1.25 * p, 0.31 + 0.07 * p, 0.2 + 0.3 * p

    def f(r, a=a, b=b, c=c):
      return a * math.exp(-b * r) + c * r * r - 0.5 * r

    def d(r, a=a, b=b, c=c):
      return -a * b * math.exp(-b * r) + 2 * c * r - 0.5
    fs.append((f, d))
  return fs


class _WithDeriv(object):
  def __init__(self, f, d):
    self._f, self._d = f, d

  def __call__(self, r):
    return self._f(r)

  def deriv(self, r):
    return self._d(r)


def _cutoff_from(w, default=7.3):
  c = w.get("cutoff")
  try:
    c = float(c)
  except Exception:
    c = None
  if c is None or not (1e-3 < c < 1e4):
    c = default
  return c


def compare_lammps(text, pots_spec, cutoff, nr, tol=2e-8, check_force=True):
  """pots_spec: list of (A, B, f, dfdr).  Returns list of mismatch strings."""
  bad = []
  try:
    blocks = pairtables.read_lammps_table(text)
  except pairtables.FormatError as e:
    return ["reader: %s" % e]
  if len(blocks) != len(pots_spec):
    return ["%d blocks for %d potentials" % (len(blocks), len(pots_spec))]
  dr = cutoff / (nr - 1)

  def close(x, y, scale=1.0):
    return abs(x - y) <= tol * max(1.0, abs(y)) * scale + 6e-9
  for blk, (A, B, f, d) in zip(blocks, pots_spec):
    if blk["keyword"] != "%s-%s" % (A, B):
      bad.append("keyword %s != %s-%s" % (blk["keyword"], A, B))
    if blk["N"] != nr - 1 or len(blk["rows"]) != nr - 1:
      bad.append("N=%d rows=%d expected %d" % (blk["N"], len(blk["rows"]), nr - 1))
      continue
    if not close(blk.get("lo", -1), dr) or not close(blk.get("hi", -1), cutoff):
      bad.append("R %r %r expected %r %r" % (blk.get("lo"), blk.get("hi"), dr, cutoff))
    for k, (idx, r, e, fo) in enumerate(blk["rows"]):
      n = k + 1
      rn = n * dr
      if idx != n:
        bad.append("row %d numbered %d" % (n, idx))
      if not close(r, rn):
        bad.append("row %d r=%r expected %r" % (n, r, rn))
      if not close(e, f(rn)):
        bad.append("row %d E=%r expected %r" % (n, e, f(rn)))
      if check_force and d is not None:
        dv = d(rn)
        if dv is not None and not (close(fo, -dv, 50.0) or abs(fo + dv) <= deriv_noise(f, rn)):
          bad.append("row %d F=%r expected %r" % (n, fo, -dv))
  return bad


def compare_dlpoly(text, pots_spec, cutoff, nr, tol=3e-7):
  bad = []
  try:
    t = pairtables.read_dlpoly_table(text)
  except pairtables.FormatError as e:
    return ["reader: %s" % e]

  def close(x, y, scale=1.0):
    return abs(x - y) <= tol * max(abs(y), 1e-30) * scale + 1e-12
  delpot = cutoff / (nr - 4)
  if t["ngrid"] != nr:
    bad.append("ngrid %d != %d" % (t["ngrid"], nr))
  if not close(t["delpot"], delpot) or not close(t["cutpot"], cutoff):
    bad.append("header delpot=%r cutpot=%r expected %r %r" % (t["delpot"], t["cutpot"], delpot, cutoff))
  if len(t["blocks"]) != len(pots_spec):
    return bad + ["%d blocks for %d potentials" % (len(t["blocks"]), len(pots_spec))]
  for blk, (A, B, f, d) in zip(t["blocks"], pots_spec):
    if blk["a"] != "%8s" % A or blk["b"] != "%8s" % B:
      bad.append("labels %r %r" % (blk["a"], blk["b"]))
    for k in range(nr):
      r = (k + 1) * delpot
      if not close(blk["energies"][k], f(r)):
        bad.append("E[%d]=%r expected %r" % (k, blk["energies"][k], f(r)))
      if d is not None:
        dv = d(r)
        if dv is not None and not (close(blk["forces"][k], -r * dv, 50.0) or
                                   abs(blk["forces"][k] + r * dv) <= abs(r) * deriv_noise(f, r)):
          bad.append("G[%d]=%r expected %r" % (k, blk["forces"][k], -r * dv))
  return bad


def _stencil(f, h):
  def d(r):
    r1, r2 = r - h / 2.0, r + h / 2.0
    return (f(r2) - f(r1)) / (r2 - r1)
  return d


def replay_pair_table(target, nr, npots, derivs, labels, w, route="class", h=None, after_failure=False):
  """Concrete replay of an API-route counterexample against the real writer and
  the independent reader: first with the functions of the solver's model (its
  argument/value tables, so that e.g. 'energy exactly 0 at a grid point' is
  reproduced), then with generic smooth functions; the cutoff is the model's."""
  import atsim.potentials as ap
  from atsim.potentials import Potential
  from atsim.potentials import pair_tabulation as pt
  cutoff = _cutoff_from(w)
  hv = 1e-6 if h is None else h
  mf = w.get("#functions", {}) if isinstance(w, dict) else {}
  attempts = []
  if all(("U%d" % p) in mf for p in range(npots)):
    fs = []
    for p in range(npots):
      f = mf["U%d" % p]
      d = mf.get("d_U%d" % p) if derivs[p] else _stencil(f, hv)
      if d is None:
        d = _stencil(f, hv)
      fs.append((f, d))
    attempts.append(("model functions", fs))
  attempts.append(("generic functions", gen_functions(npots)))
  last = None
  for (what, fs) in attempts:
    pots, spec = [], []
    for p in range(npots):
      f, d = fs[p]
      fn = _WithDeriv(f, d) if derivs[p] else f
      a, b = labels[p]
      pots.append(Potential(a, b, fn) if h is None else Potential(a, b, fn, h))
      spec.append((a, b, f, d))
    out = io.StringIO()
    cls = dict(LAMMPS=pt.LAMMPS_PairTabulation, DL_POLY=pt.DLPoly_PairTabulation, GULP=pt.GULP_PairTabulation)[target]
    cmp = dict(LAMMPS=compare_lammps, DL_POLY=compare_dlpoly, GULP=compare_gulp)[target]
    if after_failure:
      for nfail in (1, 2, 3):
        cnt = [0]

        def doomed(r_, cnt=cnt, nfail=nfail):
          cnt[0] += 1
          if cnt[0] > nfail:
            raise ArithmeticError("injected failure")
          return 1.0
        try:
          if route == "class":
            cls([Potential(labels[0][0], labels[0][1], doomed)], cutoff, nr).write(io.StringIO())
          else:
            ap.writePotentials(target, [Potential(labels[0][0], labels[0][1], doomed)], cutoff, nr, io.StringIO())
        except ArithmeticError:
          pass
    try:
      tab = None
      if route == "class":
        tab = cls(pots, cutoff, nr)
        tab.write(out)
      else:
        ap.writePotentials(target, pots, cutoff, nr, out)
    except Exception as e:
      bad = ["writer raised %s: %s" % (type(e).__name__, e)]
      text = ""
    else:
      text = out.getvalue()
      bad = cmp(text, spec, cutoff, nr)
      if not bad and tab is not None:
        # the same object written again
        out2 = io.StringIO()
        try:
          tab.write(out2)
          bad = ["[second write of the same object] " + b for b in cmp(out2.getvalue(), spec, cutoff, nr)]
        except Exception as e:  # noqa
          bad = ["[second write of the same object] writer raised %s: %s" % (type(e).__name__, e)]
      if not bad and tab is not None:
        # the same Potential objects in another tabulation object, on another grid
        out3 = io.StringIO()
        nr3, cut3 = nr + 4, cutoff * 1.5
        try:
          cls(pots, cut3, nr3).write(out3)
          bad = ["[same Potential objects tabulated again with cutoff %r, nr %d] %s" % (cut3, nr3, b) for b in cmp(out3.getvalue(), spec, cut3, nr3)]
        except Exception as e:  # noqa
          bad = ["[same Potential objects tabulated again with cutoff %r, nr %d] writer raised %s: %s" % (cut3, nr3, type(e).__name__, e)]
    rec = dict(kind="pair_api", target=target, nr=nr, npots=npots, derivs=list(derivs), labels=labels,
               cutoff=cutoff, route=route, h=h, functions=what, mismatches=bad[:10])
    last = (bool(bad), ("[%s] " % what) + ("; ".join(bad[:4]) or "output agrees with the specification at cutoff=%r" % cutoff), rec)
    if bad:
      return last
  return last


class IntCore(object):
  """a potential written by a user as `if r < thr: return 0` (a python int, not a float) and a float elsewhere"""

  def __init__(self, u, du, thr):
    self.u, self.du, self.thr = u, du, thr

  def __call__(self, r):
    if r < self.thr:
      return 0
    return self.u(r)

  def deriv(self, r):
    if r < self.thr:
      return 0
    return self.du(r)


def replay_pair_intcore(target, nr, npots, derivs, labels, w, route):
  """concrete: potential 0 returns the int 0 below the witness threshold"""
  import atsim.potentials as ap
  from atsim.potentials import Potential
  from atsim.potentials import pair_tabulation as pt
  cls = dict(LAMMPS=pt.LAMMPS_PairTabulation, DL_POLY=pt.DLPoly_PairTabulation, GULP=pt.GULP_PairTabulation)[target]
  cutoff = _cutoff_from(w)
  try:
    thr = float(w.get("thr"))
  except Exception:  # noqa
    thr = 1.5 * cutoff / max(nr - 4, 1)
  gen = gen_functions(npots)
  mf = w.get("#functions", {}) if isinstance(w, dict) else {}
  last = None
  for what in ("model functions", "generic functions"):
    fs = []
    for p in range(npots):
      f, d = gen[p]
      if what == "model functions":
        if ("U%d" % p) not in mf:
          fs = None
          break
        f = mf["U%d" % p]
        d = mf.get("d_U%d" % p) or _stencil(f, 1e-6)
      fs.append((f, d))
    if fs is None:
      continue
    pots, spec = [], []
    for p in range(npots):
      f, d = fs[p]
      a, b = labels[p]
      if p == 0:
        pots.append(Potential(a, b, IntCore(f, d, thr)))
        spec.append((a, b, (lambda r, f=f: 0.0 if r < thr else f(r)), (lambda r, d=d: 0.0 if r < thr else d(r))))
      else:
        pots.append(Potential(a, b, _WithDeriv(f, d) if derivs[p] else f))
        spec.append((a, b, f, d if derivs[p] else _stencil(f, 1e-6)))
    out = io.StringIO()
    try:
      if route == "class":
        cls(pots, cutoff, nr).write(out)
      else:
        ap.writePotentials(target, pots, cutoff, nr, out)
      cmp = dict(LAMMPS=compare_lammps, DL_POLY=compare_dlpoly, GULP=compare_gulp)[target]
      bad = cmp(out.getvalue(), spec, cutoff, nr)
    except Exception as e:  # noqa
      bad = ["writer raised %s: %s" % (type(e).__name__, e)]
    rec = dict(kind="pair_api_intcore", target=target, nr=nr, npots=npots, derivs=list(derivs), labels=labels, cutoff=cutoff, thr=thr, route=route,
               functions=what, mismatches=bad[:10])
    last = (bool(bad), ("[%s; potential 0 returns the int 0 for r < %r] " % (what, thr)) + ("; ".join(bad[:4]) or "output agrees with the specification at cutoff=%r" % cutoff), rec)
    if bad:
      return last
  return last


def compare_gulp(text, pots_spec, cutoff, nr, tol=2e-10):
  bad = []
  try:
    blocks = pairtables.read_gulp_spline(text)
  except pairtables.FormatError as e:
    return ["reader: %s" % e]
  if len(blocks) != len(pots_spec):
    return ["%d blocks for %d potentials" % (len(blocks), len(pots_spec))]

  def close(x, y):
    return abs(x - y) <= tol * max(1.0, abs(y)) + 6e-11
  for blk, (A, B, f, d) in zip(blocks, pots_spec):
    if (blk["a"], blk["b"]) != (A, B):
      bad.append("labels %s %s" % (blk["a"], blk["b"]))
    if not close(blk["cutoff"], cutoff):
      bad.append("cutoff %r" % blk["cutoff"])
    if len(blk["rows"]) != nr:
      bad.append("%d rows expected %d" % (len(blk["rows"]), nr))
      continue
    for i, (e, r) in enumerate(blk["rows"]):
      ri = i * cutoff / (nr - 1)
      if not close(r, ri) or not close(e, f(ri)):
        bad.append("row %d (%r,%r) expected (%r,%r)" % (i, e, r, f(ri), ri))
  return bad


def deriv_noise(f, r, h=1e-6):
  """Absolute round-off noise of a central difference of f at r with step h
  (the replay oracle must not mistake it for a violation)."""
  try:
    m = max(abs(f(r)), abs(f(r + h)), abs(f(r - h)), 1e-300)
  except Exception:
    return 0.0
  return 64 * 2.2e-16 * m / h


def num_deriv(f, r, h=1e-6):
  """Derivative of f at r by central difference.  At a point where the
  one-sided slopes disagree (a range boundary) the slope of the side that is
  continuous with f(r) is returned (the range that contains r is the one the
  property takes derivatives from); None if that cannot be decided."""
  try:
    fl, f0, fr = f(r - h), f(r), f(r + h)
  except (ZeroDivisionError, ValueError, OverflowError):
    return None
  left, right = (f0 - fl) / h, (fr - f0) / h
  if abs(left - right) <= 1e-3 * max(1.0, abs(left), abs(right)):
    return (f(r + h / 2) - f(r - h / 2)) / h
  try:
    # second one-sided estimates further out decide which side is smooth
    fll, frr = f(r - 2 * h), f(r + 2 * h)
  except (ZeroDivisionError, ValueError, OverflowError):
    return None
  left2, right2 = (fl - fll) / h, (frr - fr) / h
  jump_l = abs(left - left2) > 1e-3 * max(1.0, abs(left2))
  jump_r = abs(right - right2) > 1e-3 * max(1.0, abs(right2))
  if jump_l and not jump_r:
    return right     # f(r) belongs to the upper range
  if jump_r and not jump_l:
    return left      # f(r) belongs to the lower range
  return None


def replay_potable_pair(target, template, nr, w, default_cutoff):
  """Concrete replay of a potable-route counterexample through
  Configuration().read(): the model file is re-rendered with the solver's
  parameter values and cutoff, tabulated by the real code and compared, row by
  row, with the potential objects evaluated directly (energy) and their
  numerical derivative (force).  Tried with the witness parameters first, then
  with the file's own parameters."""
  from atsim.potentials.config import Configuration, ConfigParser
  from symx import potable as sp
  cutoff = _cutoff_from(w, default_cutoff)
  base = template % dict(target=target, nr=nr)
  cp = ConfigParser(io.StringIO(base))
  head = base[:base.index("[Pair]")].replace("cutoff : 6.0", "cutoff : %r" % cutoff)
  vals = {k: v for k, v in w.items() if isinstance(k, str) and "|" in k and not k.endswith("#exact") and isinstance(v, float)}
  last = None
  for what, values in (("witness parameters", vals), ("file parameters", {})):
    if what == "witness parameters" and not vals:
      continue
    text = head + sp.render_pairs(cp, values)
    try:
      tab = Configuration().read(io.StringIO(text))
      out = io.StringIO()
      tab.write(out)
    except Exception as e:
      last = (False, "[%s] replay model could not be tabulated: %s: %s" % (what, type(e).__name__, e), dict(model=text))
      continue
    spec = []
    for pot in tab.potentials:
      spec.append((pot.speciesA, pot.speciesB, pot.energy, lambda r, pot=pot: num_deriv(pot.energy, r)))
    if target == "LAMMPS":
      bad = compare_lammps(out.getvalue(), spec, cutoff, nr, tol=1e-5)
    elif target in ("DL_POLY", "DLPOLY"):
      bad = compare_dlpoly(out.getvalue(), spec, cutoff, nr, tol=1e-5)
    else:
      bad = compare_gulp(out.getvalue(), spec, cutoff, nr)
    rec = dict(kind="pair_potable", target=target, nr=nr, cutoff=cutoff, model=text, parameters=what, mismatches=bad[:10])
    last = (bool(bad), ("[%s] " % what) + ("; ".join(bad[:4]) or "output agrees with direct evaluation"), rec)
    if bad:
      return last
  return last


def generic_replay(path):
  """./check <ID> --replay <file>: print the stored counterexample record."""
  with open(path) as f:
    rec = json.load(f)
  print(json.dumps(rec, indent=1)[:4000])
  return 1


def in_fresh_process(modname, funcname, *args, **kw):
  """Run checks.<modname>.<funcname>(*args) in a fresh interpreter (same repo
  under test) and return its JSON-able result.  Used for concrete replays that
  must not see state left behind in this process by the symbolic run."""
  code = ("import sys, json; sys.path.insert(0, %r); from symx import shims; shims.import_repo(); "
          "import importlib; m = importlib.import_module(%r); "
          "r = getattr(m, %r)(*json.loads(sys.argv[1])); print('\\n@@RESULT@@' + json.dumps(r, default=str))") % (HERE, modname, funcname)
  env = dict(os.environ)
  env["PYTHONDONTWRITEBYTECODE"] = "1"
  if "hashseed" in kw:
    env["PYTHONHASHSEED"] = str(kw["hashseed"])
  p = subprocess.run([sys.executable, "-W", "ignore", "-c", code, json.dumps(list(args))], stdout=subprocess.PIPE, stderr=subprocess.PIPE,
                     env=env, timeout=kw.get("timeout", 300), cwd=HERE)
  out = p.stdout.decode("utf-8", "replace")
  if "@@RESULT@@" not in out:
    raise RuntimeError("fresh-process replay failed: %s" % (p.stderr.decode("utf-8", "replace")[-600:]))
  return json.loads(out.split("@@RESULT@@")[-1])
