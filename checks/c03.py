"""C03 setfl (eam/alloy): element blocks, grids, r*phi blocks, metadata."""
import io
import itertools

import z3

from symx import core, shims
from symx.core import sym, assume, uf, rv
from symx.harness import explore_and_check, Structural, T, Sink
from symx.run import Case, new_result
from readers import eamtables
from checks import eam_common as EC
from checks import eam_potable as EP

ID = "C03"
META = dict(
  functions=["eam_tabulation.SetFL_EAMTabulation.write / drho / dr", "_lammpsWriteEAM.writeSetFL/_writeSetFL/_writeSetFLHeader/"
             "_writeSetFLElementHeader/_writeSetFLEmbeddingFunction/_writeSetFLDensityFunction/_writeSetFLPairPots",
             "config._eam_potential_builder.EAM_Potential_Builder", "config._tabulation_factories.EAMTabulationFactory",
             "referencedata.Reference_Data.get", "config._config_parser.ConfigParser.species"],
  bounds=dict(
    quick=dict(elements="1..2 (all orders)", pair_states="all 3^k declaration states", grids="nr,nrho in {2,3}",
               cutoffs="symbolic reals > 0", potable_models=3),
    thorough=dict(elements="1..3 exhaustive over orders and declaration states; 4 elements on a pairwise-covering set",
                  grids="nr,nrho in {2..6}", cutoffs="symbolic reals > 0", potable_models=6)),
  stubs=["embedding, density and pair functions are uninterpreted functions", "mass and lattice constant are symbolic reals"],
  outside=["the header's printed cutoff field (nr*dr by the writer's default; not part of the statement)",
           "two declarations of the same unordered pair (C20)", "last-ulp rounding"],
  assumptions=["floats are modelled as mathematical reals", "cutoff > 0, cutoff_rho > 0"],
  explanation="symbolic execution of the real setfl writer; every header field, metadata value and array slot is a z3 "
              "term compared with the specification term; LAMMPS' reading rules in readers/eamtables.py",
)


def api_case(elements, pairs, nr, nrho, route, rot=0):
  """the generic EAM API case (first write, functions changed in place, second write of the same object)"""
  from checks import eam_api
  return eam_api.api_case("setfl", elements, pairs, nr, nrho, route=route, rot=rot)


def cases(tier, seed=0):
  cs = []
  from checks import fpgrid
  cs.append(Case("fp grid setfl", fpgrid.grid_case, target="setfl", nr=41))
  N = EC.NAMES
  if tier == "quick":
    combos = []
    for n in (1, 2):
      for order in itertools.permutations(N[:n]):
        for st in EC.pair_states(order):
          combos.append((order, st))
    grids = [(2, 3), (3, 2)]
    for idx, (order, st) in enumerate(combos):
      nr, nrho = grids[idx % 2]
      cs.append(Case("api %s %s nr=%d" % ("/".join(order), idx, nr), api_case, elements=order, pairs=st, nr=nr, nrho=nrho,
                     route="class" if idx % 3 else "writeSetFL", rot=idx))
    # a few 3-element spot layouts in quick as well
    for idx, st in enumerate(EC.covering_pair_states(("Zr", "Cu", "Al"), seed=1)[:6]):
      cs.append(Case("api Zr/Cu/Al cover%d" % idx, api_case, elements=("Zr", "Cu", "Al"), pairs=st, nr=2, nrho=2, route="class", rot=idx))
    for m in ("eam_basic", "eam_species", "eam_decorated", "eam_undeclared", "eam_multirange"):
      # (grids of different size: a block written with the other grid's length shifts everything after it)
      cs.append(Case("potable %s" % m, EP.potable_case, model_name=m, target="setfl", nr=3, nrho=4 if m == "eam_undeclared" else 3))
    cs.append(Case("potable eam_basic after eam_species", EP.potable_case, model_name="eam_basic", target="setfl", nr=2, nrho=2,
                   history=("eam_species", "eam_species2")))
  else:
    idx = 0
    for n in (1, 2, 3):
      for order in itertools.permutations(N[:n]):
        for st in EC.pair_states(order):
          idx += 1
          nr, nrho = [(2, 2), (3, 4), (4, 3), (5, 6), (6, 5)][idx % 5] if n < 3 else [(2, 2), (2, 3), (3, 2)][idx % 3]
          cs.append(Case("api %s %d" % ("/".join(order), idx), api_case, elements=order, pairs=st, nr=nr, nrho=nrho,
                         route="class" if idx % 3 else "writeSetFL", rot=idx))
    for oi, order in enumerate(list(itertools.permutations(N[:4]))[::3]):
      for si, st in enumerate(EC.covering_pair_states(order, seed=oi)):
        cs.append(Case("api4 %s cover%d" % ("/".join(order), si), api_case, elements=order, pairs=st, nr=2, nrho=2,
                       route="class", rot=si))
    for m in EP.EAM_MODELS:
      if not EP.EAM_MODELS[m].get("fs"):
        for tgt in ("setfl", "lammps_eam_alloy"):
          cs.append(Case("potable %s %s" % (m, tgt), EP.potable_case, model_name=m, target=tgt, nr=4, nrho=3))
          cs.append(Case("potable %s %s with history" % (m, tgt), EP.potable_case, model_name=m, target=tgt, nr=2, nrho=2,
                         history=("eam_species", "eam_species2", "fs_basic")))
  from checks import eam_api as _ea
  cs += _ea.surplus_cases('setfl', tier)
  cs += _ea.after_failure_cases('setfl', tier)
  cs += _ea.shared_and_undeclared_cases('setfl', tier)
  cs += _ea.written_first_cases('setfl', tier)
  cs += _ea.energy_override_cases('setfl', tier)
  cs += _ea.cutoff_arg_cases('setfl', tier)
  cs += _ea.long_label_cases('setfl', tier)
  cs += _ea.pair_iterable_cases('setfl', tier)
  cs += _ea.late_onset_cases('setfl', tier)
  return cs


def replay(path):
  from checks import common
  return common.generic_replay(path)
