"""C13 Species filtering equals deleting the unwanted interactions from the file."""
import io
import itertools
import os
import shutil
import sys
import tempfile

from symx import xhrun
from symx.run import Case, new_result
from checks import common

ID = "C13"
META = dict(
  functions=["config._filtered_config_parser.FilteredConfigParser.__init__/_check_tuple/pair/eam_embed/eam_density/eam_density_fs",
             "tools.potable._parse_command_line/_make_config_parser/_do_tabulation (include/exclude handling)", "config._eam_potential_builder (zero filling after filtering)"],
  bounds=dict(quick=dict(single_view="include/exclude lists of <= 3 labels (with repeats, any order, unknown label, empty) over pair, EAM and Finnis-Sinclair models - confirmed over all paths",
                         histories="two views of one parsed file with independent settings (<= 1 label each, include/exclude each), read in either order - confirmed over all paths",
                         differential="potable --include-species/--exclude-species S versus the hand-edited file for every subset S of the model's species plus an unknown label, text targets"),
              thorough=dict(single_view="as quick", histories="two views with <= 2 labels each (12 further conditions)", differential="all targets incl. spreadsheets (cell level)")),
  stubs=["the parsed file is a real ConfigParser built once outside the traced region; the symbolic inputs are integer indices into the label universe"],
  outside=["labels outside the stated universes (the filter only tests membership, labels are opaque)", ".xlsx container bytes (cells are compared)"],
  assumptions=[],
  explanation="CrossHair explores every path of the real filter code over symbolic index lists and flags; 'Confirmed over all paths' is required; "
              "the differential layer replays each subset through the real potable entry point against a hand-edited file",
  max_inconclusive=dict(quick=0, thorough=0),
)

QUICK = ["one_view_containers", "one_view_charged", "one_view_pair", "one_view_eam", "one_view_fs", "two_views_pair", "two_views_eam", "two_views_fs",
         "two_tabs_eam", "two_tabs_fs", "two_tabs_pair", "two_tabs_eam_after_plain", "two_tabs_fs_after_plain", "two_tabs_pair_after_plain"]


def xh_case(name, timeout):
  return xhrun.run_condition("xh.c13_filter", name, timeout)


# ---------------------------------------------------------------------------
# differential replay through potable

MODELS = {
  "charged": dict(species=["Ce4+", "Ce3+", "O"], sections=[
    ("Pair", [("Ce4+-O", "as.buck 1986.83 0.35107 20.40"), ("O-Ce3+", "as.buck 1731.62 0.36372 14.43"), ("O-O", "as.buck 22764.3 0.149 27.89"), ("Ce3+-Ce4+", "as.polynomial 0.1 0.2")])],
    targets=["LAMMPS", "GULP"]),
  "pair": dict(species=["Mg", "Al", "O"], sections=[
    ("Pair", [("Mg-O", "as.buck 1279.69 0.29969 0.0"), ("O-Al", "as.buck 1361.29 0.3013 0.0"), ("O-O", "as.buck 9547.96 0.21916 32.0"), ("Al-Mg", "as.polynomial 0.1 0.2")])],
    targets=["LAMMPS", "GULP", "DL_POLY", "excel"]),
  "eam": dict(species=["Al", "Cu", "Ni"], sections=[
    ("Pair", [("Al-Al", "as.buck 1000.0 0.3 10.0"), ("Cu-Al", "as.buck 800.0 0.31 5.0"), ("Cu-Cu", "as.polynomial 0 0.3")]),
    ("EAM-Embed", [("Al", "as.polynomial 0 1"), ("Cu", "as.polynomial 0 2"), ("Ni", "as.polynomial 0 3")]),
    ("EAM-Density", [("Cu", "as.polynomial 0 0.25"), ("Ni", "as.polynomial 0 0.125"), ("Al", "as.polynomial 0 0.5")])],
    targets=["setfl", "DL_POLY_EAM", "excel_eam"]),
  "fs": dict(species=["Al", "Fe", "Ni"], sections=[
    ("Pair", [("Al-Al", "as.buck 1000.0 0.3 10.0"), ("Fe-Al", "as.buck 800.0 0.31 5.0")]),
    ("EAM-Embed", [("Al", "as.polynomial 0 1"), ("Fe", "as.polynomial 0 2")]),
    ("EAM-Density", [("Al->Al", "as.polynomial 0 0.5"), ("Fe->Al", "as.polynomial 0 0.25"), ("Al->Fe", "as.polynomial 0 0.125"), ("Fe->Fe", "as.polynomial 0 0.75"), ("Ni->Fe", "as.polynomial 0 0.1")])],
    targets=["setfl_fs", "DL_POLY_EAM_fs", "excel_eam_fs"]),
}


def species_of(section, key):
  if section == "Pair":
    return [k.strip() for k in key.split("-")]
  if "->" in key:
    return [k.strip() for k in key.split("->")]
  return [key.strip()]


def model_text(model, target, keep=None):
  m = MODELS[model]
  t = "[Tabulation]\ntarget : %s\ncutoff : 6.0\nnr : %d\ncutoff_rho : 5.0\nnrho : 5\n\n" % (target, 8 if target == "DL_POLY" else 5)
  for sec, entries in m["sections"]:
    # hand editing deletes entries; the section headers stay
    kept = [(k, v) for (k, v) in entries if keep is None or keep(sec, k)]
    t += "[%s]\n%s\n\n" % (sec, "\n".join("%s : %s" % kv for kv in kept))
  return t


def run_potable(text, args):
  from atsim.potentials.tools import potable
  import logging
  d = tempfile.mkdtemp(prefix="c13_")
  try:
    excel = "target : excel" in text
    inp, outp = os.path.join(d, "m.aspot"), os.path.join(d, "out.xlsx" if excel else "out.tab")
    with open(inp, "w") as f:
      f.write(text)
    argv, err, out = sys.argv, sys.stderr, sys.stdout
    sys.argv = ["potable", inp, outp] + list(args)
    sys.stderr, sys.stdout = io.StringIO(), io.StringIO()
    logging.disable(logging.CRITICAL)
    try:
      try:
        potable.main()
        status = "exit 0"
      except SystemExit as e:
        status = "exit %s" % e.code
      except Exception as e:  # noqa
        status = "%s" % type(e).__name__
    finally:
      logging.disable(logging.NOTSET)
      sys.argv, sys.stderr, sys.stdout = argv, err, out
    data = None
    if os.path.exists(outp) and os.path.getsize(outp):
      if excel:
        import openpyxl
        wb = openpyxl.load_workbook(outp)
        data = repr([(ws.title, [[c.value for c in row] for row in ws.iter_rows()]) for ws in wb.worksheets])
      else:
        with open(outp) as f:
          data = f.read()
    return status, data
  finally:
    shutil.rmtree(d, ignore_errors=True)


def differential_case(model, target):
  res = new_result("potable filter vs hand-edited file: %s -> %s" % (model, target))
  m = MODELS[model]
  labels = m["species"] + ["Zz"]
  n = 0
  for r in range(0, len(labels) + 1):
    for S in itertools.combinations(labels, r):
      for mode in ("include", "exclude"):
        S = list(S)
        if mode == "include":
          keep = lambda sec, k: sec in ("Pair", "EAM-Embed", "EAM-Density") and all(s in S for s in species_of(sec, k))
        else:
          keep = lambda sec, k: not any(s in S for s in species_of(sec, k))
        full = model_text(model, target)
        edited = model_text(model, target, keep)
        got = run_potable(full, ["--%s-species" % mode] + S)
        want = run_potable(edited, [])
        n += 1
        if got != want:
          # a model left without any [Pair]/[EAM-*] section fails at different places in the two runs; both must fail
          if got[1] is None and want[1] is None and got[0] != "exit 0" and want[0] != "exit 0":
            continue
          res["violations"].append(dict(key="differential-%s-%s" % (mode, "empty" if not S else "nonempty"),
                                        desc="potable --%s-species %s on the %s %s model: %s, %s; the hand-edited file: %s, %s" % (
                                          mode, " ".join(S) or "(none)", model, target, got[0], "no output" if got[1] is None else "%d bytes" % len(got[1]),
                                          want[0], "no output" if want[1] is None else ("identical" if want[1] == got[1] else "different %d bytes" % len(want[1]))),
                                        record=dict(kind="differential", model=full, edited=edited, args=["--%s-species" % mode] + S)))
          if len(res["violations"]) >= 3:
            res["paths"] += n
            res["replays"] += 2 * n
            return res
  res["paths"] += n
  res["replays"] += 2 * n
  return res


def cases(tier, seed=0):
  q = tier == "quick"
  cs = [Case("xh %s" % n, xh_case, name=n, timeout=(240 if n.startswith("two_tabs") else 90) if q else 400) for n in QUICK]
  if not q:
    import xh.c13_filter as xf
    cs += [Case("xh %s" % n, xh_case, name=n, timeout=600) for n in xf.THOROUGH]
  for model, m in MODELS.items():
    for t in m["targets"]:
      if q and t.startswith("excel"):
        continue
      cs.append(Case("differential %s %s" % (model, t), differential_case, model=model, target=t))
  return cs


def replay(path):
  return common.generic_replay(path)
