"""C20 Each interaction/form is defined at most once; duplicates are rejected."""
from symx import xhrun
from symx.run import Case, new_result
from checks import common, c13

ID = "C20"
CONDS = ["pair_keys3", "form_signatures3", "pair_keys", "density_keys_fs", "embed_keys", "form_signatures", "table_form_headers", "form_kinds", "added_duplicates", "form_kinds_crowded", "added_twice", "table_form_headers_contexts", "form_signatures_contexts"]
META = dict(
  functions=["config._config_parser.ConfigParser._init_config_parser (strict INI duplicate detection) / _check_for_duplicate_pairs / _RawConfigParser.optionxform / _ConfigParserDict",
             "config._config_parser._TableFormSection.check_for_duplicate_table_forms/_parse_name", "config._potential_form_registry.Potential_Form_Registry._build_potential_forms/_build_table_forms/"
             "_register_from_potentialforms", "config._eam_potential_builder.EAM_Potential_Builder_FS._density_to_potential_form_dict", "config.Configuration.read"],
  bounds=dict(quick=dict(pairs="two [Pair] entries with keys from 10 spellings (same, reversed, inner/trailing blanks and tabs, other pairs)",
                         densities="two A->B entries from 8 spellings; two [EAM-Embed]/[EAM-Density] entries from 5 spellings",
                         forms="two [Potential-Form] signatures from 6 spellings; two [Table-Form:..] headers from 5 spellings; a table form called like a custom form "
                               "(either order in the file) or like a built-in form (as.buck, as.zero, as.buck4, as.exp_spline); the header and signature spellings again in three "
                               "EAM model shapes (empty [Pair] section, form used by a density entry, form used by pair and embedding entries)"),
              thorough=dict(pairs="as quick", densities="as quick", forms="as quick")),
  stubs=["symbolic inputs are indices into the candidate spelling lists; the model text is generated from them and read by the real Configuration().read() outside the tracer"],
  outside=["keys beginning with white space (INI continuation lines)", "spellings outside the candidate lists"],
  assumptions=[],
  explanation="for every pair of spellings: equal normal forms (or a reversed pair) must end in a ConfigurationException, distinct ones must both be kept and the tabulated "
              "function must follow its own definition; CrossHair must confirm each condition over all paths",
  max_inconclusive=dict(quick=0, thorough=0),
)


def xh_case(name, timeout):
  return xhrun.run_condition("xh.c20_duplicates", name, timeout)


DUPLICATES = [
  ("reversed pair", "[Pair]\nA-B : as.constant 1.0\nB-A : as.constant 2.0\n"),
  ("whitespace pair", "[Pair]\nA-B : as.constant 1.0\nA - B : as.constant 2.0\n"),
  ("whitespace signature", "[Pair]\nA-B : f 1.0\n\n[Potential-Form]\nf(r,A) = A\nf(r, A) = 2*A\n"),
  ("table headers", "[Pair]\nA-B : tab\n\n[Table-Form:tab]\nx : 0 1 2 3 4\ny : 1 1 1 1 1\n\n[Table-Form: tab]\nx : 0 1 2 3 4\ny : 2 2 2 2 2\n"),
  ("table vs formula", "[Pair]\nA-B : tab\n\n[Table-Form:tab]\nx : 0 1 2 3 4\ny : 1 1 1 1 1\n\n[Potential-Form]\ntab(r) = 2.0\n"),
  ("table named as.buck4", "[Pair]\nA-B : as.buck4\n\n[Table-Form:as.buck4]\nx : 0 1 2 3 4\ny : 1 1 1 1 1\n"),
]


def potable_case(target):
  """Concrete replay layer: potable must print a configuration error and write nothing."""
  res = new_result("potable on duplicated definitions: %s" % target)
  head = "[Tabulation]\ntarget : %s\ncutoff : 5.0\nnr : %d\n\n" % (target, 8 if target == "DL_POLY" else 6)
  for what, body in DUPLICATES:
    st, data = c13.run_potable(head + body, [])
    res["replays"] += 1
    res["paths"] += 1
    if st != "exit 2" or data is not None:
      res["violations"].append(dict(key="potable-duplicate-%s" % what.replace(" ", "-"), desc="potable on a file with a duplicated definition (%s): %s, %s" % (
        what, st, "a table was written" if data else "no output"), record=dict(kind="potable", model=head + body)))
  return res


def cases(tier, seed=0):
  q = tier == "quick"
  cs = [Case("xh %s" % n, xh_case, name=n, timeout=120 if q else 400) for n in CONDS]
  for t in (("LAMMPS",) if q else ("LAMMPS", "GULP", "DL_POLY")):
    cs.append(Case("potable %s" % t, potable_case, target=t))
  return cs


def replay(path):
  return common.generic_replay(path)
