"""C19 GULP, ADP, funcfl and Excel targets carry the same functions on the same grids."""
import io
import itertools

import z3

from symx import core, shims
from symx.core import sym, assume, uf, rv, term
from symx.harness import explore_and_check, Structural, T, Sink
from symx.run import Case, new_result
from symx.vc import VC, eq_formula
from readers import pairtables, eamtables, excel as xl
from checks import common
from checks import eam_common as EC
from checks import eam_potable as EP
from checks.eam_api import api_case

ID = "C19"
META = dict(
  functions=["pair_tabulation.GULP_PairTabulation.write/_write_pot", "pair_tabulation._r_value_iterator",
             "eam_tabulation.ADP_EAMTabulation.write/_write_dipole/_write_quadrupole", "_lammpsWriteEAM._writeSetFLPairPots(scale_r=False)",
             "config._tabulation_factories.ADP_EAMTabulationFactory", "_lammpsWriteEAM.writeFuncFL/_writeHeader/_writeValueBlock",
             "pair_tabulation.Excel_PairTabulation._populate_worksheet/_add_pair_worksheet",
             "eam_tabulation.Excel_EAMTabulation._add_eam_density/_add_eam_embed", "eam_tabulation._rho_value_iterator",
             "atsim.potentials.writePotentials('GULP')"],
  bounds=dict(
    quick=dict(gulp="nr in {2,3,5}, 1..2 potentials", adp="1..2 elements all declaration layouts of pair/dipole/quadrupole sampled, 3 elements covering",
               funcfl="nr,nrho in {2..6}", excel="nr != nrho, 1..3 elements", cutoffs="symbolic"),
    thorough=dict(gulp="nr in 2..12, 1..3 potentials", adp="1..3 elements, 4 on a covering set", funcfl="nr,nrho in {2..11}",
                  excel="nr != nrho, 1..4 elements", cutoffs="symbolic")),
  stubs=["all functions uninterpreted", "sqrt in writeFuncFL is a root atom: Z_k >= 0 and Z_k^2 = its argument"],
  outside=[".xlsx byte container (cells read from the workbook object)", "last-ulp rounding", "funcfl: r*phi(r) < 0 (sqrt undefined; the writer raises)"],
  assumptions=["floats as reals", "cutoff > 0, cutoff_rho > 0"],
  explanation="same tag/reader technique as C01-C05 for the secondary targets",
)

LABELS = [("A", "B"), ("Xe", "O"), ("Si", "Si")]


def gulp_case(nr, npots, route):
  res = new_result("gulp nr=%d npots=%d %s" % (nr, npots, route))
  import atsim.potentials as ap
  from atsim.potentials import Potential
  from atsim.potentials.pair_tabulation import GULP_PairTabulation
  labels = LABELS[:npots]

  def fn():
    cutoff = sym("cutoff")
    assume(cutoff > 0)
    pots = [Potential(labels[p][0], labels[p][1], uf("U%d" % p, deriv=bool(p % 2))) for p in range(npots)]
    out = Sink()
    if route == "class":
      GULP_PairTabulation(pots, cutoff, nr).write(out)
    else:
      ap.writePotentials("GULP", pots, cutoff, nr, out)
    return out.getvalue()

  c = z3.Real("cutoff")

  def build(path, wrong=False):
    if path.exc is not None:
      raise Structural("exception", "%s: %s" % (type(path.exc).__name__, path.exc))
    try:
      blocks = pairtables.read_gulp_spline(path.value)
    except pairtables.FormatError as e:
      raise Structural("format", "GULP reader rejects the file: %s" % e)
    if len(blocks) != npots:
      raise Structural("nblocks", "%d blocks for %d potentials" % (len(blocks), npots))
    vcs = []
    for p, blk in enumerate(blocks):
      if (blk["a"], blk["b"]) != labels[p]:
        raise Structural("labels", "block %d headed %s %s" % (p, blk["a"], blk["b"]))
      if len(blk["rows"]) != nr:
        raise Structural("rows", "block %d has %d rows, expected %d" % (p, len(blk["rows"]), nr))
      vcs.append(VC("p%d.cutoff" % p, eq_formula(T(path, blk["cutoff"]), c), info=dict(key="cutoff")))
      U = z3.Function("U%d" % p, core.R, core.R)
      for i, (e, r) in enumerate(blk["rows"]):
        ri = rv(i + (1 if wrong else 0)) * c / rv(nr - 1)
        vcs.append(VC("p%d.r%d" % (p, i), eq_formula(T(path, r), ri), info=dict(key="r")))
        vcs.append(VC("p%d.E%d" % (p, i), eq_formula(T(path, e), U(ri)), info=dict(key="E")))
    return vcs

  def replay(v, w, path, structural):
    return common.replay_pair_table("GULP", nr, npots, [bool(p % 2) for p in range(npots)], labels, w, route)

  shims.install()
  try:
    explore_and_check(res, fn, build, replay=replay, negative=lambda p: build(p, wrong=True))
  finally:
    shims.uninstall()
  return res


def funcfl_case(nr, nrho):
  res = new_result("funcfl nr=%d nrho=%d" % (nr, nrho))
  from atsim.potentials import writeFuncFL, EAMPotential, Potential

  def fn():
    dr, drho = sym("dr"), sym("drho")
    assume(dr > 0)
    assume(drho > 0)
    mass, a = sym("mass"), sym("a")
    ep = EAMPotential("Ag", 47, mass, uf("F"), uf("rho"), a, "fcc")
    pp = Potential("Ag", "Ag", uf("phi"))
    out = Sink()
    writeFuncFL(nrho, drho, nr, dr, [ep], [pp], out, "title line")
    return out.getvalue()

  drt, drhot = z3.Real("dr"), z3.Real("drho")

  def build(path, wrong=False):
    if path.exc is not None:
      raise Structural("exception", "%s: %s" % (type(path.exc).__name__, path.exc))
    try:
      t = eamtables.read_funcfl(path.value)
    except eamtables.FormatError as e:
      raise Structural("format", "funcfl reader rejects the file: %s" % e)
    if t["nrho"] != nrho or t["nr"] != nr or t["Z0"] != 47 or t["lattice"] != "fcc" or t["title"] != "title line":
      raise Structural("header", "header %r" % {k: t[k] for k in ("nrho", "nr", "Z0", "lattice", "title")})
    if t["max_per_line"] > 5:
      raise Structural("layout", "%d values on one line" % t["max_per_line"])
    F, rho, phi = (z3.Function(n, core.R, core.R) for n in ("F", "rho", "phi"))
    vcs = [VC("drho", eq_formula(T(path, t["drho"]), drhot), info=dict(key="hdr")),
           VC("dr", eq_formula(T(path, t["dr"]), drt), info=dict(key="hdr")),
           VC("cutoff", eq_formula(T(path, t["cutoff"]), rv(nr - 1) * drt), info=dict(key="hdr")),
           VC("mass", eq_formula(T(path, t["mass"]), z3.Real("mass")), info=dict(key="meta")),
           VC("a", eq_formula(T(path, t["a"]), z3.Real("a")), info=dict(key="meta"))]
    for k in range(nrho):
      vcs.append(VC("F%d" % k, eq_formula(T(path, t["F"][k]), F(rv(k) * drhot)), info=dict(key="F")))
    for k in range(nr):
      r = rv(k + (1 if wrong else 0)) * drt
      z = T(path, t["Z"][k])
      vcs.append(VC("Z%d" % k, z3.And(z >= 0, z * z * rv(27.2) * rv(0.529) == r * phi(r)), info=dict(key="Z")))
      vcs.append(VC("rho%d" % k, eq_formula(T(path, t["rho"][k]), rho(r)), info=dict(key="rho")))
    return vcs

  def replay(v, w, path, structural):
    return replay_funcfl(nr, nrho, w)

  shims.install()
  try:
    explore_and_check(res, fn, build, replay=replay, negative=lambda p: build(p, wrong=True))
  finally:
    shims.uninstall()
  return res


def replay_funcfl(nr, nrho, w):
  import math
  from atsim.potentials import writeFuncFL, EAMPotential, Potential
  dr = w.get("dr") if isinstance(w.get("dr"), float) and 1e-4 < w.get("dr") < 100 else 0.37
  drho = w.get("drho") if isinstance(w.get("drho"), float) and 1e-4 < w.get("drho") < 100 else 0.21
  F = lambda x: -math.sqrt(x + 0.5) + 0.1 * x
  rho = lambda r: 3.0 * math.exp(-0.7 * r)
  phi = lambda r: 5.0 * math.exp(-0.9 * r) + 0.25
  out = io.StringIO()
  bad = []
  try:
    writeFuncFL(nrho, drho, nr, dr, [EAMPotential("Ag", 47, 107.8682, F, rho, 4.09, "fcc")], [Potential("Ag", "Ag", phi)], out, "title line")
    t = eamtables.read_funcfl(out.getvalue())
    def close(x, y, tol=2e-6):
      return abs(x - y) <= tol * max(1.0, abs(y))
    if (t["nrho"], t["nr"]) != (nrho, nr) or not close(t["drho"], drho) or not close(t["dr"], dr) or not close(t["cutoff"], (nr - 1) * dr):
      bad.append("header %r" % {k: t[k] for k in ("nrho", "drho", "nr", "dr", "cutoff")})
    for k in range(nrho):
      if not close(t["F"][k], F(k * drho), 1e-12):
        bad.append("F[%d]=%r expected %r" % (k, t["F"][k], F(k * drho)))
    for k in range(nr):
      r = k * dr
      if not close(t["Z"][k] ** 2 * 27.2 * 0.529, r * phi(r), 1e-10):
        bad.append("Z[%d]^2*27.2*0.529=%r expected %r" % (k, t["Z"][k] ** 2 * 27.2 * 0.529, r * phi(r)))
      if not close(t["rho"][k], rho(r), 1e-12):
        bad.append("rho[%d]=%r expected %r" % (k, t["rho"][k], rho(r)))
  except Exception as e:
    bad.append("%s: %s" % (type(e).__name__, e))
  return (bool(bad), "; ".join(bad[:3]) or "funcfl agrees", dict(kind="funcfl", nr=nr, nrho=nrho, dr=dr, drho=drho, mismatches=bad[:10]))


def excel_case(kind, elements, nr, nrho, declared=None, shared=None):
  """kind: pair | eam | eam_fs.  First column r (rho on EAM-Embed), labelled
  columns hold the labelled function at that row."""
  fs = kind == "eam_fs"
  pairs = {k: (k[1], k[0]) if (i % 2 and k[0] != k[1]) else (k[0], k[1]) for i, k in enumerate(EC.all_pair_keys(elements))}
  if declared is not None:
    pairs = {k: (v if k in declared else None) for k, v in pairs.items()}
  # shared: groups of function names served by one python object (e.g. an embedding function that is also a density)
  model = EC.Model(elements, pairs, fs=fs, shared=shared)
  res = new_result("excel %s %s nr=%d nrho=%d" % (kind, model.describe(), nr, nrho))
  from atsim.potentials.pair_tabulation import Excel_PairTabulation
  from atsim.potentials.eam_tabulation import Excel_EAMTabulation, Excel_FinnisSinclair_EAMTabulation

  def fn():
    cutoff, cutoff_rho = sym("cutoff"), sym("cutoff_rho")
    assume(cutoff > 0)
    assume(cutoff_rho > 0)
    eampots, pairpots, _d, _q = EC.build_objects(model, lambda name: uf(name), EC.sym_meta)
    if kind == "pair":
      tab = Excel_PairTabulation(pairpots, cutoff, nr)
    elif kind == "eam":
      tab = Excel_EAMTabulation(pairpots, eampots, cutoff, nr, cutoff_rho, nrho)
    else:
      tab = Excel_FinnisSinclair_EAMTabulation(pairpots, eampots, cutoff, nr, cutoff_rho, nrho)
    first = xl.read_workbook(tab.workbook)
    # the files actually written: twice from the same object, read back with openpyxl
    import openpyxl
    files = []
    for _i in range(2):
      buf = io.BytesIO()
      tab.write(buf)
      buf.seek(0)
      files.append(xl.read_workbook(openpyxl.load_workbook(buf)))
    core.cur().__dict__["excel_files"] = files
    first["#files"] = files
    return first

  c, cr = z3.Real("cutoff"), z3.Real("cutoff_rho")

  def expected_sheets(wrong):
    sheets = {}
    cols = {}
    for k, st in pairs.items():
      if st is not None:
        cols["%s-%s" % k] = "phi_%s_%s" % k
    sheets["Pair"] = ("r", nr, c / rv(nr - 1), cols)
    if kind != "pair":
      if fs:
        dcols = {"%s->%s" % (a, b): "rho_%s_%s" % (a, b) for a in elements for b in elements}
      else:
        dcols = {e: "rho_%s" % e for e in elements}
      sheets["EAM-Density"] = ("r", nr, c / rv(nr - 1), dcols)
      sheets["EAM-Embed"] = ("rho", nrho, cr / rv(nrho - 1) * (2 if wrong else 1), {e: "F_%s" % e for e in elements})
    return sheets

  def build(path, wrong=False):
    if path.exc is not None:
      raise Structural("exception", "%s: %s" % (type(path.exc).__name__, path.exc))
    got = dict(path.value)
    files = got.pop("#files", [])
    exp = expected_sheets(wrong)
    for i, f in enumerate(files):
      # every written file holds the sheets, labels and numbers of the workbook object (numbers are the proxies' tags)
      if sorted(f) != sorted(got):
        raise Structural("file-sheets", "file written %s holds the sheets %r, the workbook %r" % (["first", "second"][i], sorted(f), sorted(got)))
      for name in got:
        a, b = f[name], got[name]
        if a["first"] != b["first"] or sorted(a["columns"]) != sorted(b["columns"]) or len(a["x"]) != len(b["x"]):
          raise Structural("file-layout", "sheet %s of the file written %s differs in layout from the workbook" % (name, ["first", "second"][i]))
    if sorted(got) != sorted(exp):
      raise Structural("sheets", "sheets %r, expected %r" % (sorted(got), sorted(exp)))
    vcs = []
    for name, (first, n, step, cols) in exp.items():
      sh = got[name]
      if sh["first"] != first:
        raise Structural("first-column", "sheet %s first column labelled %r, expected %r" % (name, sh["first"], first))
      if sorted(sh["columns"]) != sorted(cols):
        raise Structural("columns", "sheet %s columns %r, expected %r" % (name, sorted(sh["columns"]), sorted(cols)))
      if len(sh["x"]) != n:
        raise Structural("rows", "sheet %s has %d rows, expected %d" % (name, len(sh["x"]), n))
      for k in range(n):
        x = rv(k) * step
        vcs.append(VC("%s/x%d" % (name, k), eq_formula(T(path, sh["x"][k]), x), info=dict(key="grid")))
        for label, fname in cols.items():
          f = z3.Function(model.alias.get(fname, fname), core.R, core.R)
          vcs.append(VC("%s/%s/%d" % (name, label, k), eq_formula(T(path, sh["columns"][label][k]), f(x)), info=dict(key="column")))
    return vcs

  def replay(v, w, path, structural):
    return replay_excel(kind, model, nr, nrho, w)

  shims.install()
  try:
    explore_and_check(res, fn, build, replay=replay, negative=lambda p: build(p, wrong=True) if kind != "pair" else None)
  finally:
    shims.uninstall()
  return res


def replay_excel(kind, model, nr, nrho, w):
  from atsim.potentials.pair_tabulation import Excel_PairTabulation
  from atsim.potentials.eam_tabulation import Excel_EAMTabulation, Excel_FinnisSinclair_EAMTabulation
  funcs = EC.concrete_functions(EC.function_names(model))
  cutoff, cutoff_rho, dr, drho = EP._grid(w, nr, nrho)
  eampots, pairpots, _d, _q = EC.build_objects(model, lambda name: funcs[name], EC.conc_meta)
  bad = []
  try:
    if kind == "pair":
      tab = Excel_PairTabulation(pairpots, cutoff, nr)
    elif kind == "eam":
      tab = Excel_EAMTabulation(pairpots, eampots, cutoff, nr, cutoff_rho, nrho)
    else:
      tab = Excel_FinnisSinclair_EAMTabulation(pairpots, eampots, cutoff, nr, cutoff_rho, nrho)
    got = xl.read_workbook(tab.workbook)
    exp = {"Pair": (nr, dr, {"%s-%s" % k: "phi_%s_%s" % k for k, st in model.pairs.items() if st is not None})}
    if kind != "pair":
      exp["EAM-Density"] = (nr, dr, {"%s->%s" % (a, b): "rho_%s_%s" % (a, b) for a in model.elements for b in model.elements} if model.fs
                            else {e: "rho_%s" % e for e in model.elements})
      exp["EAM-Embed"] = (nrho, drho, {e: "F_%s" % e for e in model.elements})
    for name, (n, step, cols) in exp.items():
      sh = got[name]
      if len(sh["x"]) != n:
        bad.append("sheet %s has %d rows, expected %d" % (name, len(sh["x"]), n))
        continue
      for k in range(n):
        x = k * step
        if abs(sh["x"][k] - x) > 1e-12 * max(1.0, abs(x)):
          bad.append("sheet %s row %d first column %r expected %r" % (name, k, sh["x"][k], x))
        for label, fname in cols.items():
          fname = model.alias.get(fname, fname)
          if abs(sh["columns"][label][k] - funcs[fname](x)) > 1e-12 * max(1.0, abs(funcs[fname](x))):
            bad.append("sheet %s %s row %d = %r expected %r" % (name, label, k, sh["columns"][label][k], funcs[fname](x)))
    # the files actually written (twice from the same object)
    import openpyxl
    for i in range(2):
      buf = io.BytesIO()
      tab.write(buf)
      buf.seek(0)
      f = xl.read_workbook(openpyxl.load_workbook(buf))
      if sorted(f) != sorted(exp):
        bad.append("the file written %s from the same tabulation object holds the sheets %r, expected %r" % (["first", "second"][i], sorted(f), sorted(exp)))
        continue
      for name, (n, step, cols) in exp.items():
        if len(f[name]["x"]) != n or sorted(f[name]["columns"]) != sorted(cols):
          bad.append("sheet %s of the file written %s: %d rows, columns %r" % (name, ["first", "second"][i], len(f[name]["x"]), sorted(f[name]["columns"])))
        else:
          for label in cols:
            if any(abs(a - b) > 1e-12 * max(1.0, abs(b)) for a, b in zip(f[name]["columns"][label], got[name]["columns"][label])):
              bad.append("sheet %s column %s of the file written %s differs from the workbook" % (name, label, ["first", "second"][i]))
  except Exception as e:
    bad.append("%s: %s" % (type(e).__name__, e))
  return (bool(bad), "; ".join(bad[:3]) or "workbook agrees", dict(kind="excel_" + kind, model=model.describe(), nr=nr, nrho=nrho, mismatches=bad[:10]))


def adp_cases(tier):
  cs = []
  N = EC.NAMES
  idx = 0
  ns = (1, 2) if tier == "quick" else (1, 2, 3)
  for n in ns:
    for order in itertools.permutations(N[:n]):
      states = list(EC.pair_states(order))
      for si, st in enumerate(states):
        idx += 1
        if n == 2 and tier == "quick" and idx % 2:
          continue
        if n == 3 and idx % 7:
          continue
        dip = states[(si * 5 + 3) % len(states)]
        quad = states[(si * 7 + 1) % len(states)]
        nr = 2 + idx % (2 if tier == "quick" else 4)
        cs.append(Case("adp %s %d" % ("/".join(order), idx), api_case, target="eam_adp", elements=order, pairs=st, dip=dip, quad=quad,
                       nr=nr, nrho=2 + idx % 2, route="class", rot=idx))
  orders3 = [("Zr", "Cu", "Al"), ("Al", "Zr", "Cu")] if tier == "quick" else list(itertools.permutations(N[:3]))
  for oi, order in enumerate(orders3):
    cov = EC.covering_pair_states(order, seed=oi)
    for si in range(0, len(cov), 4 if tier == "quick" else 2):
      cs.append(Case("adp3 %s cover%d" % ("/".join(order), si), api_case, target="eam_adp", elements=order, pairs=cov[si],
                     dip=cov[(si + 3) % len(cov)], quad=cov[(si + 5) % len(cov)], nr=2, nrho=2, route="class", rot=si))
  if tier == "thorough":
    for oi, order in enumerate(list(itertools.permutations(N[:4]))[::6]):
      cov = EC.covering_pair_states(order, seed=oi)
      for si in range(0, len(cov), 5):
        cs.append(Case("adp4 %s cover%d" % ("/".join(order), si), api_case, target="eam_adp", elements=order, pairs=cov[si],
                       dip=cov[(si + 3) % len(cov)], quad=cov[(si + 5) % len(cov)], nr=2, nrho=2, route="class", rot=si))
  from checks import eam_api as _ea
  cs += _ea.surplus_cases("eam_adp", tier)
  cs += _ea.after_failure_cases("eam_adp", tier)
  cs += _ea.written_first_cases("eam_adp", tier)
  cs += _ea.energy_override_cases("eam_adp", tier)
  return cs


def cases(tier, seed=0):
  cs = []
  from checks import fpgrid
  cs.append(Case("fp grid GULP", fpgrid.grid_case, target="GULP", nr=41, exact_points=True))
  if tier == "quick":
    for nr in (2, 3, 5):
      for npots in (1, 2):
        cs.append(Case("gulp nr=%d n=%d" % (nr, npots), gulp_case, nr=nr, npots=npots, route="class" if nr != 3 else "writePotentials"))
    for nr, nrho in ((2, 6), (5, 3), (6, 5)):
      cs.append(Case("funcfl %d %d" % (nr, nrho), funcfl_case, nr=nr, nrho=nrho))
    ex = [("pair", ("Cu",), 3, 2, None), ("pair", ("Cu", "Al"), 2, 2, None), ("pair", ("Zr", "Cu", "Al"), 2, 2, {("Al", "Zr"), ("Cu", "Cu")}),
          ("eam", ("Cu",), 3, 2, None), ("eam", ("Cu", "Al"), 2, 4, None), ("eam", ("Zr", "Cu", "Al"), 3, 2, {("Al", "Cu")}),
          ("eam_fs", ("Cu", "Al"), 4, 2, None), ("eam_fs", ("Al", "Zr", "Cu"), 2, 3, None)]
    pm = [("adp_basic", "eam_adp", 3, 2)]
  else:
    for nr in range(2, 13):
      for npots in (1, 2, 3):
        cs.append(Case("gulp nr=%d n=%d" % (nr, npots), gulp_case, nr=nr, npots=npots, route="class" if nr % 2 else "writePotentials"))
    for nr, nrho in ((2, 6), (5, 3), (6, 5), (10, 11), (11, 4), (7, 7), (3, 10)):
      cs.append(Case("funcfl %d %d" % (nr, nrho), funcfl_case, nr=nr, nrho=nrho))
    ex = []
    for kind in ("pair", "eam", "eam_fs"):
      for n in (1, 2, 3, 4):
        for oi, order in enumerate(list(itertools.permutations(EC.NAMES[:n]))[::(1 if n < 3 else (2 if n == 3 else 8))]):
          ex.append((kind, order, 2 + (oi + n) % 4, 2 + (oi + 2 * n + 1) % 3, None))
    pm = [("adp_basic", "eam_adp", 4, 3), ("adp_basic", "eam_adp", 2, 5)]
  for (kind, order, nr, nrho, decl) in ex:
    if nr == nrho and kind != "pair":
      nrho += 1
    cs.append(Case("excel %s %s nr=%d nrho=%d" % (kind, "/".join(order), nr, nrho), excel_case, kind=kind, elements=order, nr=nr, nrho=nrho, declared=decl))
  # labels of which one continues another with a character that sorts before '-' (an atom and its ion): orderings of the
  # "A-B" heading strings and of the (A, B) pairs differ there
  for kind in ("pair", "eam", "eam_fs"):
    for order in ((("Ag", "Ag+", "O"),) if tier == "quick" else (("Ag", "Ag+", "O"), ("O", "Ag+", "Ag"), ("Ag+", "Ag"))):
      cs.append(Case("excel %s %s ion labels" % (kind, "/".join(order)), excel_case, kind=kind, elements=order, nr=3, nrho=2))
  # one python object serving as embedding function and as density / pair function (grids of different size)
  for kind, order, sh in (("eam", ("Cu", "Al"), [("F_Cu", "rho_Cu")]), ("eam", ("Al",), [("F_Al", "rho_Al", "phi_Al_Al")]),
                          ("eam_fs", ("Cu", "Al"), [("F_Al", "rho_Al_Cu")]), ("eam_fs", ("Zr", "Cu"), [("F_Zr", "rho_Cu_Zr", "phi_Cu_Zr")])):
    cs.append(Case("excel %s %s one object for %s" % (kind, "/".join(order), "=".join(sh[0])), excel_case, kind=kind, elements=order, nr=4, nrho=3, shared=sh))
  cs.extend(adp_cases(tier))
  for (m, tgt, nr, nrho) in pm:
    cs.append(Case("potable %s %s nr=%d" % (m, tgt, nr), EP.potable_case, model_name=m, target=tgt, nr=nr, nrho=nrho))
  return cs


def replay(path):
  return common.generic_replay(path)
