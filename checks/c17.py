"""C17 A failed tabulation never leaves a partial table behind."""
import io
import math
import os
import shutil
import sys
import tempfile

import z3

from symx import core
from symx.core import symint
from symx.run import Case, new_result
from checks import common
from checks import eam_common as EC

ID = "C17"
META = dict(
  functions=["pair_tabulation.LAMMPS_PairTabulation/DLPoly_PairTabulation/GULP_PairTabulation/Excel_PairTabulation.write",
             "eam_tabulation.SetFL_EAMTabulation/SetFL_FS_EAMTabulation/TABEAM_EAMTabulation/TABEAM_FinnisSinclair_EAMTabulation/"
             "Excel_EAMTabulation/Excel_FinnisSinclair_EAMTabulation/ADP_EAMTabulation.write",
             "_lammps_writeTABLE.writePotentials", "_dlpoly_writeTABLE.writePotentials", "_lammpsWriteEAM.writeSetFL/writeSetFLFinnisSinclair/_writeSetFLPairPots",
             "_dlpoly_writeTABEAM.writeTABEAM/writeTABEAMFinnisSinclair", "tools.potable._actions.action_tabulate", "Potential.energy/force", "_util.gradient"],
  bounds=dict(quick=dict(targets="all 11 tabulation targets", grids="nr in {4 (8 for DL_POLY)}, nrho = 3", elements="2 (EAM), 2 pair potentials",
                         k="failing evaluation ordinal k is a symbolic integer: every solver-feasible class of k is explored (each evaluation index, and 'no failure')",
                         routes="tabulation.write(sink) and action_tabulate(file on disk)"),
              thorough=dict(targets="all 11", grids="nr in {3,4,5} (8,12 for DL_POLY), nrho in {2,3}", elements="1 and 2", k="as quick", routes="both")),
  stubs=["functions are concrete callables wrapped in an evaluation counter that raises at evaluation k",
         "action_tabulate's Configuration is replaced by one returning the prepared tabulation object (the file handling is the real code)"],
  outside=["failures that are not exceptions raised by a function evaluation (disk full, signals)", "grids larger than the stated sizes (the loops' bodies do not depend on the trip count)"],
  assumptions=["a failing evaluation shows as an exception leaving the callable (classes tried: a plain Exception subclass, StopIteration, KeyError, ZeroDivisionError)"],
  explanation="the failing ordinal k is one symbolic integer; every evaluation compares its index with k, so the explorer splits on the solver-feasible "
              "classes of k (N+1 of them, N discovered); on each failing path the sink must have received nothing and the exception must propagate; the "
              "union of the path conditions is shown to cover every integer k (completeness VC)",
  max_inconclusive=dict(quick=0, thorough=0),
)

PAIR_TARGETS = ("LAMMPS", "DLPOLY", "GULP", "excel")
EAM_TARGETS = ("setfl", "setfl_fs", "DL_POLY_EAM", "DL_POLY_EAM_fs", "excel_eam", "excel_eam_fs", "eam_adp")


class Boom(Exception):
  pass


class BSink(object):
  def __init__(self):
    self.writes = []

  def write(self, s):
    self.writes.append(s)
    return len(s)

  def nonempty(self):
    return [w for w in self.writes if len(w)]


def fclass(name):
  return {"F": "embedding", "rho": "density", "phi": "pair", "u": "dipole", "w": "quadrupole", "U": "pair"}[name.split("_")[0]]


def base_fn(name):
  h = sum(ord(c) for c in name) % 7

  def f(x):
    return 0.25 + 0.1 * h + 0.5 * math.exp(-0.3 * float(x)) + 0.01 * float(x)
  return f


def make_tabulation(target, nr, nrho, nelem, mk):
  from atsim.potentials import Potential
  from atsim.potentials import pair_tabulation as pt, eam_tabulation as et
  cutoff, cutoff_rho = 6.0, 50.0
  if target in PAIR_TARGETS:
    pots = [Potential("A", "B", mk("U_A_B")), Potential("B", "B", mk("U_B_B"))][:max(1, nelem)]
    cls = dict(LAMMPS=pt.LAMMPS_PairTabulation, DLPOLY=pt.DLPoly_PairTabulation, GULP=pt.GULP_PairTabulation, excel=pt.Excel_PairTabulation)[target]
    return cls(pots, cutoff, nr)
  elements = EC.NAMES[:nelem]
  keys = EC.all_pair_keys(elements)
  pairs = {k: k for k in keys}
  adp = target == "eam_adp"
  model = EC.Model(elements, pairs, fs=target.endswith("_fs"), dip=dict(pairs) if adp else None, quad=dict(pairs) if adp else None)
  eampots, pairpots, dip, quad = EC.build_objects(model, mk, EC.conc_meta)
  cls = dict(setfl=et.SetFL_EAMTabulation, setfl_fs=et.SetFL_FS_EAMTabulation, DL_POLY_EAM=et.TABEAM_EAMTabulation,
             DL_POLY_EAM_fs=et.TABEAM_FinnisSinclair_EAMTabulation, excel_eam=et.Excel_EAMTabulation,
             excel_eam_fs=et.Excel_FinnisSinclair_EAMTabulation, eam_adp=et.ADP_EAMTabulation)[target]
  if adp:
    return cls(pairpots, eampots, dip, quad, cutoff, nr, cutoff_rho, nrho)
  return cls(pairpots, eampots, cutoff, nr, cutoff_rho, nrho)


def run_once(target, nr, nrho, nelem, route, k, candidates=None, exc_cls=None):
  """One execution with failing ordinal k (an int, None or a symbolic SInt).
  Returns dict(n=evaluations made, failed=(name, index) or None, exc=..., out=list of non-empty writes / file bytes)."""
  counter = [0]
  failed = [None]

  def mk(name):
    g = base_fn(name)

    def f(x):
      i = counter[0]
      counter[0] += 1
      if k is not None and (candidates is None or i in candidates) and (k == i):
        failed[0] = (name, i)
        raise (exc_cls or Boom)("evaluation %d (%s)" % (i, name))
      return g(x)
    return f
  tab = make_tabulation(target, nr, nrho, nelem, mk)
  exc = None
  if route == "write":
    sink = BSink()
    try:
      tab.write(sink)
    except (exc_cls or Boom) as e:
      exc = repr(e)      # (only its text is kept: the exception, its traceback and the frames it holds are released ...)
    import gc
    gc.collect()         # (... and what the writer's abandoned buffers do when they are collected counts as written)
    out = sink.nonempty()
    size = sum(len(w) for w in out)
    nwrites = len(out)
  elif route == "write_gzip":
    # a caller-supplied compressed text stream: it reports seekable() but cannot rewind while writing
    import gzip
    d = tempfile.mkdtemp(prefix="c17_")
    path = os.path.join(d, "out.table.gz")
    try:
      fp = gzip.open(path, "wt")
      try:
        try:
          tab.write(fp)
        except (exc_cls or Boom) as e:
          exc = e
        except OSError as e:
          # a failed attempt to roll the stream back: the write still failed, what counts is what the file holds
          exc = e
      finally:
        try:
          fp.close()
        except Exception:  # noqa
          pass
      with gzip.open(path, "rt") as f:
        size = len(f.read())
      nwrites = 1 if size else 0
    finally:
      shutil.rmtree(d, ignore_errors=True)
  else:
    from atsim.potentials.tools.potable import _actions
    d = tempfile.mkdtemp(prefix="c17_")
    path = os.path.join(d, "out.table")

    class Cfg(object):
      def read_from_parser(self, cp):
        return tab
    saved = _actions.Configuration
    _actions.Configuration = Cfg
    try:
      try:
        _actions.action_tabulate(None, path)
      except (exc_cls or Boom) as e:
        exc = e
      size = os.path.getsize(path) if os.path.exists(path) else 0
      nwrites = 1 if size else 0
    finally:
      _actions.Configuration = saved
      shutil.rmtree(d, ignore_errors=True)
  retry = None
  if exc is not None and route == "write":
    # the same object written again after the failure (the failing ordinal has passed): whole table or an error, never a partial one
    try:
      retry = ("ok", _dump(tab))
    except Exception as e:  # noqa
      retry = ("raised", type(e).__name__)
  return dict(n=counter[0], failed=failed[0], exc=exc, size=size, nwrites=nwrites, retry=retry, dump=_dump(tab) if (exc is None and route == "write" and k is None) else None)


def _dump(tab):
  if tab.target.startswith("excel"):
    wb = tab.workbook
    return repr([(ws.title, [[c.value for c in row] for row in ws.iter_rows()]) for ws in wb.worksheets])
  s = io.StringIO()
  tab.write(s)
  return s.getvalue()


EXC = dict(Boom=None, StopIteration=StopIteration, KeyError=KeyError, ArithmeticError=ZeroDivisionError)


def fault_case(target, nr, nrho, nelem, route, large=False, exc="Boom"):
  exc_cls = EXC[exc]
  res = new_result("fault %s nr=%d nrho=%d elements=%d route=%s%s%s" % (target, nr, nrho, nelem, route, " (large grid, k in a candidate set)" if large else "",
                                                                   "" if exc == "Boom" else " failing with %s" % exc))
  base = run_once(target, nr, nrho, nelem, route, None)
  if base["exc"] is not None or base["size"] == 0:
    res["harness_errors"].append("reference run without fault produced no output")
    return res
  N = base["n"]
  res["replays"] += 1
  cand = None
  if large:
    # large tables (size-dependent buffering): the failing ordinal is confined to a
    # candidate set spread over the evaluations; only those indices are compared with k
    cand = sorted(set([0, 1, N // 7, N // 3, N // 2, (2 * N) // 3, (6 * N) // 7, N - 2, N - 1]))
    res["bounds"] = dict(large_grid=dict(evaluations=N, reference_bytes=base["size"], candidate_k=cand))

  def fn():
    k = symint("k")
    if cand is not None:
      core.assume(z3.Or([z3.Int("k") == c for c in cand] + [z3.Int("k") == -1]))
    return run_once(target, nr, nrho, nelem, route, k, cand, exc_cls)

  ex = core.Explorer(max_paths=5000, max_seconds=240)
  pcs = []
  seen = {}
  classes_failed = {}
  complete_paths = 0
  for p in ex.iter_paths(fn, catch=(Exception,)):
    if p.aborted or p.exc is not None:
      res["harness_errors"].append("path ended unexpectedly: %s" % (p.aborted or repr(p.exc)))
      continue
    v = p.value
    pcs.append(z3.And(p.pc) if p.pc else z3.BoolVal(True))
    if v["failed"] is None:
      complete_paths += 1
      # no failure on this path: the whole table must be there
      differs = v["size"] != base["size"]
      if target.startswith("excel"):
        differs = not v["size"] or abs(v["size"] - base["size"]) > 64     # .xlsx containers vary by a few bytes with the clock
      if differs or v["exc"] is not None:
        key = "complete-%s" % target
        if key not in seen:
          seen[key] = 1
          res["violations"].append(dict(key=key, desc="without a failing evaluation the output differs from the reference run (%d vs %d bytes)" % (v["size"], base["size"])))
      continue
    name, idx = v["failed"]
    cls = fclass(name)
    classes_failed[cls] = classes_failed.get(cls, 0) + 1
    problem = None
    if v["exc"] is None:
      problem = "the failure of evaluation %d (%s) did not propagate out of %s" % (idx, name, route)
    elif v["size"] > 0:
      problem = "evaluation %d of %d (%s function %s) failed and %d bytes (%d write calls) of a partial table were left behind (a complete table has %d bytes)" % (
        idx, N, cls, name, v["size"], v["nwrites"], base["size"])
    if not problem and v.get("retry") is not None and v["retry"][0] == "ok" and base.get("dump") is not None and v["retry"][1] != base["dump"]:
      problem = "after evaluation %d (%s function %s) failed, writing the same tabulation object again emits a table that differs from the complete one (%d vs %d characters)" % (
        idx, cls, name, len(v["retry"][1]), len(base["dump"]))
      cls = cls + "-retry"
    if problem:
      key = "partial-%s-%s-%s%s" % (target, route, cls, "" if exc == "Boom" else "-" + exc)
      if key in seen:
        seen[key]["count"] += 1
        continue
      # replay concretely (no symbolic values) with the model's k
      s = z3.Solver()
      s.add(*p.pc)
      kk = idx
      if s.check() == z3.sat:
        kk = s.model().eval(z3.Int("k"), model_completion=True).as_long()
      r2 = run_once(target, nr, nrho, nelem, route, kk, None, exc_cls)  # concrete k: no candidate filter needed
      res["replays"] += 1
      confirmed = (r2["exc"] is None) or r2["size"] > 0 or (r2.get("retry") is not None and r2["retry"][0] == "ok" and r2["retry"][1] != base.get("dump"))
      entry = dict(key=key, desc=problem, count=1, witness=dict(k=kk, target=target, nr=nr, nrho=nrho, elements=nelem, route=route),
                   record=dict(kind="fault", replay_size=r2["size"], replay_exception=repr(r2["exc"])))
      if confirmed:
        res["violations"].append(entry)
        seen[key] = entry
      else:
        res["inconclusive"].append("partial output on the symbolic path did not reproduce with k=%d" % kk)
  res["paths"] += ex.stats["paths"]
  res["decisions"] += ex.stats["decisions"]
  res["queries"] += ex.stats["feasibility_queries"]
  res["solver_s"] += ex.stats["solver_s"]
  if ex.stats["truncated"]:
    res["inconclusive"].append("exploration budget exhausted after %d paths" % ex.stats["paths"])
  # completeness: the explored classes cover every integer k, and there are N failing classes + 1
  s = z3.Solver()
  s.set("timeout", 20000)
  if cand is not None:
    s.add(z3.Or([z3.Int("k") == c for c in cand] + [z3.Int("k") == -1]))
  s.add(z3.Not(z3.Or(pcs)) if pcs else z3.BoolVal(True))
  r = s.check()
  res["vcs"] += 1
  res["queries"] += 1
  res[str(r)] = res.get(str(r), 0) + 1
  if r != z3.unsat:
    res["inconclusive"].append("the explored classes of k do not cover all integers (%s)" % r)
  res["vcs"] += 1
  nfail = sum(classes_failed.values())
  if nfail == (N if cand is None else len(cand)) and complete_paths == 1:
    res["unsat"] += 1
  elif not res["violations"]:
    res["inconclusive"].append("%d failing classes explored for %d evaluations (%d complete paths)" % (nfail, N, complete_paths))
  else:
    res["unsat"] += 1
  # vacuity guard (negative twin): a sink-level oracle that demands *some* output on failing paths must be refuted, i.e.
  # at least one failing path was really reached
  res["negatives"] += 1
  if nfail > 0:
    res["negatives_ok"] += 1
  res["samples"].append(dict(vc="classes of k", evaluations=N, failing_classes=nfail, by_function_kind=classes_failed, complete_paths=complete_paths,
                             reference_bytes=base["size"]))
  return res


# ---------------------------------------------------------------------------
# end-to-end witness: potable on real files, a formula that leaves its domain at an interior row

FAIL = "bad 1.0"     # bad(r, A) = A*pymath.sqrt(2.5-r): ValueError('math domain error') from r = 3 on (an interior row)
FORMS = "\n[Potential-Form]\nbad(r, A) = A*pymath.sqrt(2.5-r)\n"
OKF = "as.buck 1000.0 0.3 10.0"


def potable_model(target, where):
  t = "[Tabulation]\ntarget : %s\ncutoff : 6.0\nnr : %d\n" % (target, 8 if target == "DLPOLY" else 7)
  if target in PAIR_TARGETS:
    return t + "\n[Pair]\nA-B : %s\nB-B : %s\n" % (OKF, FAIL if where == "pair" else OKF) + FORMS
  t += "cutoff_rho : 6.0\nnrho : 7\n\n"
  fs = target.endswith("_fs")
  dens = ("A->A : %s\nA->B : %s\nB->A : %s\nB->B : %s\n" % (OKF, FAIL if where == "density" else OKF, OKF, OKF)) if fs else \
         ("A : %s\nB : %s\n" % (OKF, FAIL if where == "density" else OKF))
  t += "[EAM-Embed]\nA : as.polynomial 0 1\nB : %s\n\n[EAM-Density]\n%s\n[Pair]\nA-A : %s\nA-B : %s\nB-B : %s\n" % (
    FAIL if where == "embedding" else "as.polynomial 0 2", dens, OKF, FAIL if where == "pair" else OKF, OKF)
  t += "\n[Species]\nA.atomic_number : 1\nA.atomic_mass : 1.0\nA.lattice_constant : 1.0\nA.lattice_type : fcc\n" \
       "B.atomic_number : 2\nB.atomic_mass : 2.0\nB.lattice_constant : 2.0\nB.lattice_type : bcc\n"
  if target == "eam_adp":
    t += "\n[EAM-ADP-Dipole]\nA-A : %s\nA-B : %s\nB-B : %s\n\n[EAM-ADP-Quadrupole]\nA-A : %s\nA-B : %s\nB-B : %s\n" % (
      OKF, FAIL if where == "dipole" else OKF, OKF, OKF, OKF, FAIL if where == "quadrupole" else OKF)
  return t + FORMS


def run_potable(text, extra_args=()):
  """potable.main() in-process on real files.  Returns (exit status or exception, stderr text, size of output file or None)."""
  from atsim.potentials.tools import potable
  d = tempfile.mkdtemp(prefix="c17p_")
  try:
    inp, outp = os.path.join(d, "model.aspot"), os.path.join(d, "out.table")
    with open(inp, "w") as f:
      f.write(text)
    argv, err, out = sys.argv, sys.stderr, sys.stdout
    sys.argv = ["potable", inp, outp] + list(extra_args)
    sys.stderr, sys.stdout = io.StringIO(), io.StringIO()
    import logging
    logging.disable(logging.CRITICAL)
    status = None
    try:
      try:
        potable.main()
        status = 0
      except SystemExit as e:
        status = e.code
      except Exception as e:  # noqa
        status = e
      errtext = sys.stderr.getvalue()
    finally:
      logging.disable(logging.NOTSET)
      sys.argv, sys.stderr, sys.stdout = argv, err, out
    size = os.path.getsize(outp) if os.path.exists(outp) else None
    return status, errtext, size
  finally:
    shutil.rmtree(d, ignore_errors=True)


def potable_case(target):
  """Concrete end-to-end layer (replay of the fault classes through the CLI)."""
  res = new_result("potable end-to-end %s" % target)
  wheres = ["pair"] if target in PAIR_TARGETS else ["pair", "density", "embedding"] + (["dipole", "quadrupole"] if target == "eam_adp" else [])
  for where in wheres:
    st, err, size = run_potable(potable_model(target, where))
    res["replays"] += 1
    ok_fail = (st not in (0, None))
    if not ok_fail:
      res["harness_errors"].append("the failing model for %s/%s tabulated without error" % (target, where))
      continue
    if size:
      res["violations"].append(dict(key="partial-%s-potable-%s" % (target, where),
                                    desc="potable left a %d byte partial %s table behind after a %s function failed at an interior row (exit: %r)" % (size, target, where, st),
                                    record=dict(kind="potable", model=potable_model(target, where))))
  # the intact model tabulates
  st, err, size = run_potable(potable_model(target, "nowhere"))
  res["replays"] += 1
  if st != 0 or not size:
    res["harness_errors"].append("the intact model for %s did not tabulate: %r %s" % (target, st, err[-300:]))
  res["paths"] += len(wheres) + 1
  return res


def cases(tier, seed=0):
  cs = []
  for t in PAIR_TARGETS + EAM_TARGETS:
    grids = [(8 if t == "DLPOLY" else 4, 3, 2)]
    if tier == "thorough":
      grids = [(nr if t != "DLPOLY" else 4 * nr - 4, nrho, ne) for nr in (3, 4, 5) for nrho in (2, 3) for ne in (1, 2)]
      if t in PAIR_TARGETS:
        grids = sorted(set((a, 2, c) for (a, b, c) in grids))
    for (nr, nrho, ne) in grids:
      for route in ("write", "action_tabulate"):
        cs.append(Case("fault %s %d %d %d %s" % (t, nr, nrho, ne, route), fault_case, target=t, nr=nr, nrho=nrho, nelem=ne, route=route))
    if not t.startswith("excel"):
      cs.append(Case("fault %s gzip stream" % t, fault_case, target=t, nr=8 if t == "DLPOLY" else 4, nrho=3, nelem=2, route="write_gzip"))
    for kind in ("StopIteration", "KeyError", "ArithmeticError"):
      # the kind of exception must not matter (StopIteration in particular is swallowed by iterator protocols)
      cs.append(Case("fault %s %s" % (t, kind), fault_case, target=t, nr=8 if t == "DLPOLY" else 4, nrho=3, nelem=2, route="write", exc=kind))
    if not t.startswith("excel"):
      big = 24000 if t in PAIR_TARGETS else 12000
      cs.append(Case("fault %s large" % t, fault_case, target=t, nr=big, nrho=big, nelem=2, route="write", large=True))
    cs.append(Case("potable %s" % t, potable_case, target=t))
  return cs


def replay(path):
  import json
  with open(path) as f:
    rec = json.load(f)
  w = rec.get("witness")
  if w:
    r = run_once(w["target"], w["nr"], w["nrho"], w["elements"], w["route"], w["k"])
    print("replay: evaluation %d fails -> exception=%r, %d bytes left in the sink/file" % (w["k"], r["exc"], r["size"]))
    return 1 if (r["size"] > 0 or r["exc"] is None) else 0
  return common.generic_replay(path)
