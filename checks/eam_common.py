"""Shared EAM machinery for C03/C04/C05/C19: model description, construction of
the real EAMPotential/Potential objects (over uninterpreted functions in the
symbolic run, over generic concrete functions in the replay), per-format
'observed' dictionaries from the independent readers and 'expected'
dictionaries from the specification, written once over an abstract algebra
(z3 terms or floats)."""
import io
import itertools
import math

import z3

from symx import core
from symx.core import sym, assume, uf, rv
from symx.harness import explore_and_check, Structural, T, Sink
from symx.vc import VC, eq_formula
from readers import eamtables

NAMES = ["Cu", "Al", "Zr", "B"]          # deliberately not in sorted order
ZNUM = {"Cu": 29, "Al": 13, "Zr": 40, "B": 5, "Fe_gamma": 26, "Fe_alpha": 27, "O2-": 8, "F-": 9, "Ag": 47, "Ag+": 48, "O": 10}      # (8-character labels: the longest DL_POLY accepts)
LATT = {"Cu": "fcc", "Al": "bcc", "Zr": "hcp", "B": "dia", "Fe_gamma": "fcc", "Fe_alpha": "bcc", "O2-": "fcc", "F-": "bcc", "Ag": "fcc", "Ag+": "bcc", "O": "hcp"}


class Model(object):
  """elements: header order.  pairs: {(a,b) sorted tuple: None | (x,y) declared
  species order}.  fs: Finnis-Sinclair densities.  fs_declared: set of (A,B)
  ordered pairs present in the density dictionaries (API route: all).  dip/quad:
  like pairs, for ADP."""

  def __init__(self, elements, pairs, fs=False, dip=None, quad=None, pair_list_rotation=0, surplus=None, shared=None, fs_undeclared=None):
    # shared: groups of function names served by ONE callable object (e.g. ("F_Cu", "rho_Cu"): the embedding function and
    # the density of Cu are the same python object); the first name of a group stands for the function
    self.alias = {}
    for grp in (shared or []):
      for nm in grp[1:]:
        self.alias[nm] = grp[0]
    # fs_undeclared: ordered (A, B) pairs missing from A's density mapping (a defaultdict giving a zero function)
    self.fs_undeclared = set(fs_undeclared or [])
    # energy_override: pair keys whose potential is a Potential subclass overriding energy() (its table is that method's
    # value, function phiE_a_b, not the wrapped potentialFunction phi_a_b)
    self.energy_override = set()
    # fs_on_demand: the density mappings hold nothing to begin with and build each A->B function when first subscripted (__missing__)
    self.fs_on_demand = False
    # surplus: pair potentials handed to the writer that mention a species the model does not tabulate
    # ((a, b) species as declared); the file must be the same as without them
    self.surplus = list(surplus or [])
    self.elements = list(elements)
    self.pairs = dict(pairs)
    self.fs = fs
    self.dip = dip
    self.quad = quad
    self.rot = pair_list_rotation

  def describe(self):
    def ps(d):
      return ",".join("%s-%s" % v if v else "(%s%s:none)" % k for k, v in sorted(d.items()))
    s = "elems=%s pairs=%s%s" % ("/".join(self.elements), ps(self.pairs), " fs" if self.fs else "")
    if self.surplus:
      s += " surplus-pairs=%s" % ",".join("%s-%s" % p for p in self.surplus)
    if self.alias:
      s += " one-object-for=%s" % ",".join("%s=%s" % kv for kv in sorted(self.alias.items()))
    if self.fs_undeclared:
      s += " undeclared-densities=%s" % ",".join("%s->%s" % p for p in sorted(self.fs_undeclared))
    if self.fs_on_demand:
      s += " densities-built-on-demand"
    if self.energy_override:
      s += " energy()-overridden-for=%s" % ",".join("%s-%s" % p for p in sorted(self.energy_override))
    if self.dip is not None:
      s += " dip=%s quad=%s" % (ps(self.dip), ps(self.quad))
    return s


def all_pair_keys(elements):
  return sorted(set(tuple(sorted((a, b))) for a in elements for b in elements))


def pair_states(elements):
  """Every declaration state of every unordered pair: undeclared, declared as
  written (a,b), declared reversed (b,a) (unlike pairs only)."""
  keys = all_pair_keys(elements)
  opts = []
  for (a, b) in keys:
    o = [None, (a, b)]
    if a != b:
      o.append((b, a))
    opts.append(o)
  for combo in itertools.product(*opts):
    yield dict(zip(keys, combo))


def covering_pair_states(elements, seed=0):
  """A small set of declaration states in which every pair takes every one of
  its states at least once and every two pairs take every combination of
  'declared/undeclared' (pairwise covering; NOT exhaustive)."""
  import random
  rnd = random.Random(seed)
  keys = all_pair_keys(elements)
  out = []
  # each single pair in each state, others alternating
  for i, k in enumerate(keys):
    for st in ([None, (k[0], k[1])] + ([(k[1], k[0])] if k[0] != k[1] else [])):
      d = {}
      for j, kk in enumerate(keys):
        if kk == k:
          d[kk] = st
        else:
          c = rnd.randrange(3)
          d[kk] = None if c == 0 else ((kk[0], kk[1]) if c == 1 or kk[0] == kk[1] else (kk[1], kk[0]))
      out.append(d)
  out.append({k: None for k in keys})
  out.append({k: (k[0], k[1]) for k in keys})
  out.append({k: (k[1], k[0]) for k in keys})
  return out


# ---------------------------------------------------------------------------
# building the real objects

def build_objects(model, mk, meta):
  """mk(name) -> callable.  meta(e) -> (Z, mass, a, lattice).  Returns
  (eampots, pairpots, dipoles, quadrupoles)."""
  from atsim.potentials import EAMPotential, Potential
  import collections
  mk0, made = mk, {}

  def mk(name):
    name = model.alias.get(name, name)
    if name not in made:
      made[name] = mk0(name)
    return made[name]
  eampots = []
  for e in model.elements:
    if model.fs and model.fs_on_demand:
      class _OnDemand(dict):
        def __init__(self, e_):
          dict.__init__(self)
          self.e_ = e_

        def __missing__(self, b):
          if b not in model.elements:
            raise KeyError(b)
          f = mk("rho_%s_%s" % (self.e_, b))
          self[b] = f
          return f
      dens = _OnDemand(e)
    elif model.fs:
      if model.fs_undeclared:
        zero = _Zero()
        dens = collections.defaultdict(lambda zero=zero: zero)
        dens.update({b: mk("rho_%s_%s" % (e, b)) for b in model.elements if (e, b) not in model.fs_undeclared})
      else:
        dens = {b: mk("rho_%s_%s" % (e, b)) for b in model.elements}
    else:
      dens = mk("rho_%s" % e)
    z, mass, a, lat = meta(e)
    eampots.append(EAMPotential(e, z, mass, mk("F_%s" % e), dens, a, lat))

  class _EnergyOverride(Potential):
    """a user's subclass: the energy is not the wrapped function"""

    def __init__(self, a, b, f, e):
      Potential.__init__(self, a, b, f)
      self._e = e

    def energy(self, r):
      return self._e(r)

  def plist(states, prefix):
    out = []
    for k, st in sorted(states.items()):
      if st is not None:
        if prefix == "phi" and k in model.energy_override:
          out.append(_EnergyOverride(st[0], st[1], mk("phi_%s_%s" % k), mk("phiE_%s_%s" % k)))
          continue
        out.append(Potential(st[0], st[1], mk("%s_%s_%s" % (prefix, k[0], k[1]))))
    for (a, b) in model.surplus:
      out.append(Potential(a, b, mk("%sx_%s_%s" % (prefix, a, b))))
    r = model.rot % len(out) if out else 0
    return out[r:] + out[:r]
  pairpots = plist(model.pairs, "phi")
  dip = plist(model.dip, "u") if model.dip is not None else None
  quad = plist(model.quad, "w") if model.quad is not None else None
  return eampots, pairpots, dip, quad


class _Zero(object):
  def __call__(self, x):
    return 0.0


def aliased(alg, model):
  """the algebra seen through the model's sharing of callables and its undeclared densities"""
  if not model.alias and not model.fs_undeclared:
    return alg
  und = set("rho_%s_%s" % p for p in model.fs_undeclared)

  def fn(name):
    if name in und:
      return lambda x: alg.num(0)
    return alg.fn(model.alias.get(name, name))
  return Alg(fn, alg.num, alg.sqrt)


class Alg(object):
  """Abstract algebra for the expected dictionaries: fn(name) gives a callable
  on numbers of the algebra; num(x) lifts a python number; zero is 0."""

  def __init__(self, fn, num, sqrt=None):
    self.fn, self.num, self.sqrt = fn, num, sqrt


def z3_alg():
  return Alg(lambda name: z3.Function(name, core.R, core.R), rv)


def float_alg(funcs):
  return Alg(lambda name: funcs[name], float, math.sqrt)


# ---------------------------------------------------------------------------
# expected / observed

def expected_setfl(model, nr, nrho, dr, drho, alg, meta, style):
  alg = aliased(alg, model)
  E = {}
  n = len(model.elements)
  E[("hdr", "drho")] = drho
  E[("hdr", "dr")] = dr
  for i, e in enumerate(model.elements):
    z, mass, a, lat = meta(e)
    E[("meta", i, "mass")] = mass
    E[("meta", i, "a")] = a
    F = alg.fn("F_%s" % e)
    for k in range(nrho):
      E[("F", i, k)] = F(alg.num(k) * drho)
    if style == "fs":
      # block of element X (=e): the j-th array is the density an X atom
      # contributes at a site of element j: declared 'central j, neighbour X'
      for j, c in enumerate(model.elements):
        f = alg.fn("rho_%s_%s" % (c, e))
        for k in range(nr):
          E[("rho", i, j, k)] = f(alg.num(k) * dr)
    else:
      f = alg.fn("rho_%s" % e)
      for k in range(nr):
        E[("rho", i, k)] = f(alg.num(k) * dr)

  def tri(states, prefix, tag, scale):
    for i in range(n):
      for j in range(i + 1):
        key = tuple(sorted((model.elements[i], model.elements[j])))
        st = states.get(key)
        for k in range(nr):
          r = alg.num(k) * dr
          if st is None:
            E[(tag, i, j, k)] = alg.num(0)
          else:
            v = alg.fn("%s_%s_%s" % (("phiE" if (prefix == "phi" and key in model.energy_override) else prefix), key[0], key[1]))(r)
            E[(tag, i, j, k)] = r * v if scale else v
  tri(model.pairs, "phi", "pair", True)
  if style == "adp":
    tri(model.dip, "u", "u", False)
    tri(model.quad, "w", "w", False)
  return E


def observed_setfl(parsed, model, nr, nrho, meta, style):
  """Concrete structure checks (raise Structural) and the numeric slots."""
  n = len(model.elements)
  if parsed["elements"] != model.elements:
    raise Structural("elements", "header names %r, expected %r" % (parsed["elements"], model.elements))
  if parsed["nrho"] != nrho or parsed["nr"] != nr:
    raise Structural("grid-count", "header Nrho=%d Nr=%d, expected %d %d" % (parsed["nrho"], parsed["nr"], nrho, nr))
  O = {("hdr", "drho"): parsed["drho"], ("hdr", "dr"): parsed["dr"]}
  for i, (e, blk) in enumerate(zip(model.elements, parsed["blocks"])):
    z, mass, a, lat = meta(e)
    if blk["Z"] != z or blk["lattice"] != lat:
      raise Structural("metadata", "element %s block has Z=%r lattice=%r, expected %r %r" % (e, blk["Z"], blk["lattice"], z, lat))
    O[("meta", i, "mass")] = blk["mass"]
    O[("meta", i, "a")] = blk["a"]
    for k in range(nrho):
      O[("F", i, k)] = blk["F"][k]
    if style == "fs":
      for j in range(n):
        for k in range(nr):
          O[("rho", i, j, k)] = blk["rho"][j][k]
    else:
      for k in range(nr):
        O[("rho", i, k)] = blk["rho"][k]
  for tag in ("pairs", "u", "w"):
    if tag in parsed:
      t2 = "pair" if tag == "pairs" else tag
      for (i, j), vals in parsed[tag].items():
        for k in range(nr):
          O[(t2, i, j, k)] = vals[k]
  return O


def tabeam_layout(model):
  """The set of function blocks a TABEAM file must contain."""
  want = []
  for k in all_pair_keys(model.elements):
    want.append(("pair", k))
  for e in model.elements:
    want.append(("embe", (e,)))
  if model.fs:
    for a in model.elements:
      for b in model.elements:
        want.append(("dens", (a, b)))
  else:
    for e in model.elements:
      want.append(("dens", (e,)))
  return want


def observed_tabeam(parsed, model, nr, nrho):
  funcs = parsed["functions"]
  if parsed["declared"] != len(funcs):
    raise Structural("numpots", "declares %d functions, file holds %d" % (parsed["declared"], len(funcs)))
  seen = {}
  for f in funcs:
    sp = f["species"]
    key = (f["kind"], tuple(sorted(sp)) if f["kind"] == "pair" else tuple(sp))
    if key in seen:
      raise Structural("duplicate-block", "two %s blocks for %s" % (f["kind"], "-".join(sp)))
    seen[key] = f
  want = tabeam_layout(model)
  if sorted(seen) != sorted(want):
    missing = sorted(set(want) - set(seen))
    extra = sorted(set(seen) - set(want))
    raise Structural("blocks", "missing blocks %r, unexpected blocks %r" % (missing, extra))
  O = {}
  for key, f in seen.items():
    n = nrho if key[0] == "embe" else nr
    if f["n"] != n or len(f["values"]) != n:
      raise Structural("block-count", "%s %s has n=%d (%d values), expected %d" % (key[0], key[1], f["n"], len(f["values"]), n))
    O[("start",) + key] = f["start"]
    O[("end",) + key] = f["end"]
    for k in range(n):
      O[("v",) + key + (k,)] = f["values"][k]
  return O


def expected_tabeam(model, nr, nrho, dr, drho, alg):
  alg = aliased(alg, model)
  E = {}
  for key in tabeam_layout(model):
    kind, sp = key
    if kind == "embe":
      n, step, f = nrho, drho, alg.fn("F_%s" % sp[0])
    elif kind == "dens":
      n, step = nr, dr
      f = alg.fn("rho_%s_%s" % sp) if model.fs else alg.fn("rho_%s" % sp[0])
    else:
      n, step = nr, dr
      st = model.pairs.get(sp)
      f = alg.fn(("phiE_%s_%s" if tuple(sp) in model.energy_override else "phi_%s_%s") % sp) if st is not None else None
    E[("start",) + key] = alg.num(0)
    E[("end",) + key] = alg.num(n - 1) * step
    for k in range(n):
      x = alg.num(k) * step
      E[("v",) + key + (k,)] = f(x) if f is not None else alg.num(0)
  return E


# ---------------------------------------------------------------------------
# concrete functions for replay

def concrete_functions(names, model_functions=None):
  out = {}
  mf = model_functions or {}
  for i, nm in enumerate(sorted(names)):
    if nm in mf:
      out[nm] = mf[nm]
      continue
    a, b, c = 1.25 + 0.37 * i, 0.21 + 0.013 * i, 0.11 * (i + 1)

    def f(x, a=a, b=b, c=c):
      return a * math.exp(-b * x) + c * x + 0.01 * x * x
    out[nm] = f
  return out


def function_names(model):
  names = []
  for e in model.elements:
    names.append("F_%s" % e)
    if model.fs:
      names.extend("rho_%s_%s" % (e, b) for b in model.elements)
    else:
      names.append("rho_%s" % e)
  for k in all_pair_keys(model.elements):
    names.append("phi_%s_%s" % k)
    names.append("phiE_%s_%s" % k)
    names.append("u_%s_%s" % k)
    names.append("w_%s_%s" % k)
  for (a, b) in model.surplus:
    names.extend("%sx_%s_%s" % (pre, a, b) for pre in ("phi", "u", "w"))
  return names


def compare_dicts(O, E, rel, absol):
  bad = []
  for k in sorted(E, key=repr):
    if k not in O:
      bad.append("%r missing" % (k,))
      continue
    x, y = O[k], E[k]
    if abs(x - y) > rel * abs(y) + absol:
      bad.append("%r = %r expected %r" % (k, x, y))
  return bad


def sym_meta(e):
  return (ZNUM[e], sym("mass_%s" % e), sym("a_%s" % e), LATT[e])


def z3_meta(e):
  return (ZNUM[e], z3.Real("mass_%s" % e), z3.Real("a_%s" % e), LATT[e])


def conc_meta(e):
  return (ZNUM[e], 20.0 + ZNUM[e] * 1.5 + 0.125, 3.0 + 0.03125 * ZNUM[e], LATT[e])


def vcs_from(path, O, E, wrong_key=None):
  """One VC per slot.  For the negative twin the expectation of one key family
  is shifted to its neighbour (must be refuted)."""
  vcs = []
  for k in sorted(E, key=repr):
    if k not in O:
      raise Structural("slot-missing", "slot %r not present in the file" % (k,))
    want = E[k]
    vcs.append(VC("/".join(str(x) for x in k), eq_formula(T(path, O[k]), want), info=dict(key=str(k[0]))))
  return vcs
