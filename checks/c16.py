"""C16 Malformed models give configuration errors; valid models are never rejected."""
import io
import os

import z3

from symx import core, shims, npstub, xhrun
from symx.core import sym, assume, uf, term
from symx.harness import explore_and_check, Structural
from symx.run import Case, new_result
from symx.vc import VC
from checks import common, c10, c16_catalogue as cat

ID = "C16"
GROUPS = ["tabulation", "pair", "modifier", "spline", "potential-form", "table-form", "eam", "species", "file"]
CONDS = ["malformed_" + g.replace("-", "_") for g in GROUPS] + ["valid_models", "pair_key_symbolic", "signature_symbolic"]
META = dict(
  functions=["config._config_parser: ConfigParser.__init__/_init_config_parser/_pair_species_func/_parse_eam_fs_density_line/_parse_potential_form_signature/_parse_multi_range/species/"
             "_convert_species_type, _get_or_none, _TabulationCutoff._init_cutoff, _TabulationSection, _TableFormSection._parse_data/_parse_x_y/_parse_xy/_parse_section, _RawConfigParser.get",
             "config._configuration.Configuration.read/read_from_parser", "config._tabulation_factories (target look-up, DL_POLY row checks, EAM/ADP factories)",
             "config._pair_potential_builder / _eam_potential_builder / _potential_form_builder / _potential_form_registry / _potential_form._Check_Call / _table_form_builder",
             "_modifiers.sum/product/pow/trans/spline and the two spline factories", "tools.potable.main"],
  bounds=dict(quick=dict(catalogue="every well-formed model of the catalogue (incl. every target/interpolation value listed in docs/reference/potable_input.rst, re-read on each run) "
                         "and every single structural mutation of it, 9 groups covering all sections of the input format (see checks/c16_catalogue.py)",
                         symbolic_strings="_pair_species_func on every string of <= 4 characters over 'AB- >'; _parse_potential_form_signature on every string of <= 3 characters over 'f1(), '",
                         spline="spline() modifier with symbolic detach, attach and r_min (every ordering), 1..4 parts"),
              thorough=dict(catalogue="as quick", symbolic_strings="as quick with a longer budget", spline="as quick")),
  stubs=["catalogue indices are symbolic; the concrete model text runs through Configuration.read + tabulation.write into a buffer outside the tracer (CrossHair blocks file writes); "
         "the same entries run through potable.main on real files in the replay layer", "spline case: numpy.linalg.solve by contract, end potentials uninterpreted"],
  outside=["malformations that are not in the catalogue", "symbolic text through pyparsing/configparser (regex driven: not confirmable)"],
  assumptions=[],
  explanation="one condition per unit and input class, each allowing ConfigurationException only; the valid class must not raise at all",
  max_inconclusive=dict(quick=0, thorough=0),
)


def xh_case(name, timeout):
  return xhrun.run_condition("xh.c16_errors", name, timeout)


def potable_layer(group):
  """Concrete replay layer: every catalogue entry through potable.main on real files."""
  import xh.c16_errors as xe
  res = new_result("potable end-to-end: %s" % group)
  entries = xe.VALID if group == "valid" else xe.MAL[group]
  for i, (label, text) in enumerate(entries):
    st, ce, size = xe.run_potable(text)
    res["paths"] += 1
    res["replays"] += 1
    if group == "valid":
      if st != "exit 0" or not size:
        res["violations"].append(dict(key="potable-valid-refused-%s" % label.replace(" ", "-"), desc="well-formed model (%s) is refused by potable: %s" % (label, st), record=dict(model=text)))
    elif not (st == "exit 2" and ce and not size):
      res["violations"].append(dict(key="potable-%s-%s" % (group, label.replace(" ", "-")),
                                    desc="malformed model (%s / %s): potable ends with %s%s%s" % (group, label, st, "" if ce else ", no 'configuration error' message",
                                                                                                  ", %d bytes written" % size if size else ""), record=dict(model=text)))
  return res


DONORS = [
  # well-formed models that define things the malformed entries lack (species data for Qq, forms, tables, variables):
  # reading them first in the same process must not make a malformed model acceptable
  cat.eam_model(body=cat.EAM_BODY.replace("B : as.sqrt -1.0", "Qq : as.sqrt -1.0").replace("B : as.polynomial 0 0.5", "Qq : as.polynomial 0 0.5")
                + "Qq.atomic_number : 1\nQq.atomic_mass : 2.014\n"),
  cat.pair_model(body=cat.PAIR_BODY + "\n[Potential-Form]\n".replace("[Potential-Form]\n", "") + ""),
  cat.pair_model(body="\n[Pair]\nA-B : nosuch 1.0\nA-A : bucky 1.0\n\n[Potential-Form]\nnosuch(r, A) = A\nbucky(r, A) = A\nC(r) = 1.0\n\n[Table-Form:tab]\nx : 0 1 2 3 4 5 6\ny : 6 5 4 3 2 1 0\n"),
  "[Variables]\nnope : 1.0\n\n" + cat.pair_model(),
]


def history_layer():
  """Concrete replay layer: the whole malformed catalogue after a series of well-formed 'donor' models has been read in the same process."""
  import xh.c16_errors as xe
  res = new_result("potable end-to-end after other models were read in the same process")
  for d in DONORS:
    st, ce, size = xe.run_potable(d)
    res["replays"] += 1
    if st != "exit 0":
      res["harness_errors"].append("donor model does not tabulate: %s" % st)
  for group in GROUPS:
    for label, text in xe.MAL[group]:
      st, ce, size = xe.run_potable(text)
      res["paths"] += 1
      res["replays"] += 1
      if not (st == "exit 2" and ce and not size):
        res["violations"].append(dict(key="history-%s-%s" % (group, label.replace(" ", "-")),
                                      desc="after other (well-formed) models were read in the same process the malformed model (%s / %s) is no longer refused: potable ends with %s%s" % (
                                        group, label, st, ", %d bytes written" % size if size else ""), record=dict(model=text, donors=DONORS)))
  return res


def spline_symbolic_case(kind, nparts):
  """The spline() modifier's validation over symbolic range starts and r_min."""
  res = new_result("spline modifier validation: %s with %d parts" % (kind, nparts))
  from atsim.potentials import _modifiers
  from atsim.potentials.config._common import ConfigurationException, PotentialFormInstanceTuple, MultiRangeDefinitionTuple
  from atsim.potentials.config._modifier_registry import Modifier_Registry
  from atsim.potentials.config._potential_form_builder import Potential_Form_Builder
  shims.install()

  def fn():
    s = [0.0] + [sym("s%d" % i) for i in range(1, nparts)]
    rmin = sym("rmin")
    S, E, X = uf("S", True, True), uf("E", True, True), uf("X", True, True)
    forms = ["as.S", kind, "as.E", "as.X"][:nparts]
    params = [[], [rmin] if kind == "buck4_spline" else [], [], []]
    node = None
    for i in reversed(range(nparts)):
      node = PotentialFormInstanceTuple(forms[i], params[i], MultiRangeDefinitionTuple(">" if i == 0 else ">=", s[i]), node)
    builder = Potential_Form_Builder(c10._UFRegistry({"as.S": S, "as.E": E, "as.X": X}), Modifier_Registry())
    with npstub.installed():
      try:
        sp = _modifiers.spline([node], builder)
        return "accepted"
      except ConfigurationException:
        return "refused"

  s1, s2, rm = z3.Real("s1"), z3.Real("s2"), z3.Real("rmin")

  def build(path, wrong=False):
    if path.exc is not None:
      raise Structural("internal-%s" % type(path.exc).__name__, "spline() with %d parts raises %s: %s" % (nparts, type(path.exc).__name__, path.exc))
    if nparts != 3:
      valid = z3.BoolVal(False)
    else:
      valid = z3.And(0 < s1, s1 < s2)
      if kind == "buck4_spline":
        valid = z3.And(valid, s1 < rm, rm < s2)
    if wrong:
      valid = z3.Not(valid)
    if path.value == "accepted":
      return [VC("accepted only if well-formed", valid, info=dict(key="spline-accepts-malformed"))]
    return [VC("refused only if malformed", z3.Not(valid), info=dict(key="spline-refuses-valid"))]

  def replay(v, w, path, structural):
    from atsim.potentials.config import Configuration
    a = w.get("s1") if isinstance(w.get("s1"), float) else 1.2
    b = w.get("s2") if isinstance(w.get("s2"), float) else 2.6
    m = w.get("rmin") if isinstance(w.get("rmin"), float) else 2.1
    if not (0 < abs(a) < 50 and 0 < abs(b) < 50 and abs(m) < 50):
      a, b, m = 1.2, 2.6, 3.0
    mid = "buck4_spline %r" % m if kind == "buck4_spline" else "exp_spline"
    parts = [">0 as.buck 1000.0 0.3 0.0", ">=%r %s" % (a, mid), ">=%r as.buck 0.0 1.0 30.0" % b, ">=%r as.zero" % (b + 1)][:nparts]
    text = "[Tabulation]\ntarget : LAMMPS\ncutoff : 5.0\nnr : 6\n\n[Pair]\nA-B : spline(%s)\n" % " ".join(parts)
    wf = nparts == 3 and 0 < a < b and (kind != "buck4_spline" or a < m < b)
    try:
      Configuration().read(io.StringIO(text))
      got = "accepted"
    except ConfigurationException:
      got = "refused"
    except Exception as e:  # noqa
      got = "%s: %s" % (type(e).__name__, e)
    bad = got != ("accepted" if wf else "refused")
    return (bad, "spline(%s): %s (%s expected)" % (" ".join(parts), got, "accepted" if wf else "a configuration error"), dict(kind="spline", model=text))

  try:
    explore_and_check(res, fn, build, replay=replay, negative=lambda p: build(p, wrong=True), catch=(Exception,), witness_run=False)
  finally:
    shims.uninstall()
  return res


def cases(tier, seed=0):
  q = tier == "quick"
  cs = [Case("xh %s" % n, xh_case, name=n, timeout=200 if q else 600) for n in CONDS]
  for g in GROUPS + ["valid"]:
    cs.append(Case("potable %s" % g, potable_layer, group=g))
  cs.append(Case("potable history", history_layer))
  for kind in ("exp_spline", "buck4_spline"):
    for n in (1, 2, 3, 4):
      cs.append(Case("spline %s %d" % (kind, n), spline_symbolic_case, kind=kind, nparts=n))
  return cs


def replay(path):
  return common.generic_replay(path)
