"""C14 --override-item / --add-item / --remove-item equal editing the file by hand."""
import re
import itertools

from symx import xhrun
from symx.run import Case, new_result
from checks import common, c13

ID = "C14"
CONDS = ["one_override", "one_addition", "two_overrides_pair", "override_then_add", "remove_last_key", "cli_order", "cli_order_remove", "cli_table_form", "cli_two_sections", "list_items", "cli_item_value"]
META = dict(
  functions=["config._config_parser.ConfigParser._init_config_parser", "config._config_parser._RawConfigParser.optionxform/options/has_option/get", "config._config_parser._ConfigParserDict",
             "tools.potable._create_override_tuple/_override_dict_key/_make_config_parser", "tools.potable._query_actions._list_items/_list_section/_item_value"],
  bounds=dict(quick=dict(operations="sequences of <= 2 override/remove operations and <= 1 addition; sections {Tabulation, Pair, Potential-Form, a new one}; 12 key spellings "
                         "(existing keys, whitespace variants of them, absent keys); removal of the last key of a section; CLI merge of repeated items; [Table-Form:NAME] items",
                         list_items="every subset of 9 section kinds (Tabulation, Pair, Potential-Form, EAM-Embed, EAM-Density, Species, Table-Form:x, an orphan, Variables)",
                         differential="potable with options versus the hand-edited file, LAMMPS and setfl targets"),
              thorough=dict(operations="as quick", list_items="as quick", differential="all text targets")),
  stubs=["read_file() of the parser under test is replaced by read_dict() of the pre-parsed file (the INI text parser is not the subject); replays use real text",
         "symbolic inputs are integer indices into finite candidate lists; once resolved, the concrete parser code runs outside the tracer"],
  outside=["keys outside the candidate lists (keys are opaque apart from whitespace)", "edits that turn the file into an invalid model (e.g. a [Pair] key that is not A-B) are C16's subject"],
  assumptions=[],
  explanation="oracle: a dict-of-dicts model of editing the file by hand with keys compared by normal form; CrossHair must confirm every condition over all paths",
  max_inconclusive=dict(quick=0, thorough=0),
)


def xh_case(name, timeout):
  return xhrun.run_condition("xh.c14_override", name, timeout)


PAIR_TEXT = "[Tabulation]\ntarget : %(target)s\ncutoff : 6.0\nnr : %(nr)d\n\n[Pair]\nA-B : as.buck 1000.0 0.3 10.0\nB-B : f 2.0\n\n[Potential-Form]\nf(r, A) : A/r\n"
EAM_TEXT = PAIR_TEXT.replace("[Pair]", "cutoff_rho : 5.0\nnrho : 5\n\n[Pair]") + "\n[EAM-Embed]\nA : as.polynomial 0 1\nB : as.polynomial 0 2\n\n[EAM-Density]\nA : as.polynomial 0 0.5\nB : as.polynomial 0 0.25\n" \
  "\n[Species]\nA.atomic_number : 1\nA.atomic_mass : 1.0\nB.atomic_number : 2\nB.atomic_mass : 2.0\n"

# (cli args, function editing the text by hand)
EDITS = [
  (["--override-item", "Pair:A - B=as.buck 500.0 0.4 1.0"], lambda t: t.replace("A-B : as.buck 1000.0 0.3 10.0", "A-B : as.buck 500.0 0.4 1.0")),
  (["-e", "Potential-Form:f(r,A)=A/r^2", "-e", "Tabulation:cutoff=4.5"], lambda t: t.replace("f(r, A) : A/r", "f(r, A) : A/r^2").replace("cutoff : 6.0", "cutoff : 4.5")),
  (["--remove-item", "Pair:B-B", "--add-item", "Pair:B - B=as.polynomial 0 1"], lambda t: t.replace("B-B : f 2.0", "B-B : as.polynomial 0 1")),
  (["--override-item", "Pair:A-B=as.zero", "--override-item", "Pair:A-B=as.polynomial 1 2"], lambda t: t.replace("A-B : as.buck 1000.0 0.3 10.0", "A-B : as.polynomial 1 2")),
  (["--remove-item", "Potential-Form:f(r, A)", "--override-item", "Pair:B-B=as.zero"], lambda t: t.replace("B-B : f 2.0", "B-B : as.zero").replace("[Potential-Form]\nf(r, A) : A/r\n", "")),
  # (0.8 gives the eight rows DL_POLY accepts with nr : 8 removed; the other targets take any count)
  (["--add-item", "Pair:C-C=as.constant 1.0", "--add-item", "Tabulation:dr=0.8", "--remove-item", "Tabulation:nr"], lambda t: re.sub(r"nr : \d+\n", "dr : 0.8\n", t.replace("B-B : f 2.0", "B-B : f 2.0\nC-C : as.constant 1.0"), count=1)),
  # a value holding a place-holder followed by a range marker (':' and '=' inside VALUE)
  (["--add-item", "Pair:C-C=as.constant ${Tabulation:cutoff} >=2.0 as.zero"], lambda t: t.replace("B-B : f 2.0", "B-B : f 2.0\nC-C : as.constant ${Tabulation:cutoff} >=2.0 as.zero")),
  (["--override-item", "Pair:B-B=as.constant ${Tabulation:cutoff} >=2.0 as.zero"], lambda t: t.replace("B-B : f 2.0", "B-B : as.constant ${Tabulation:cutoff} >=2.0 as.zero")),
  # a value whose place-holder names an item that only a later option of the same command line creates (an INI file has no line order)
  (["--override-item", "Pair:B-B=as.constant ${newvar}", "--add-item", "Variables:newvar=2.5"],
   lambda t: "[Variables]\nnewvar : 2.5\n\n" + t.replace("B-B : f 2.0", "B-B : as.constant ${newvar}")),
  (["--add-item", "Pair:C-C=as.constant ${Extra:value}", "--add-item", "Extra:value=0.75"],
   lambda t: t.replace("B-B : f 2.0", "B-B : f 2.0\nC-C : as.constant ${Extra:value}") + "\n[Extra]\nvalue : 0.75\n"),
  (["--override-item", "Pair:Z-Z=as.zero"], None),      # must be refused
  (["--add-item", "Pair:A - B=as.zero"], None),          # must be refused
  (["--remove-item", "Pair:Z-Z"], None),                 # must be refused
]


# a template file: one item refers to a variable that the file does not define; the options complete or remove it
DANGLING = "B-B : as.constant ${later}"
EDITS_TEMPLATE = [
  (["--override-item", "Pair:B-B=as.constant 0.5"], lambda t: t.replace(DANGLING, "B-B : as.constant 0.5")),
  (["--remove-item", "Pair:B-B"], lambda t: t.replace(DANGLING + "\n", "")),
  (["--add-item", "Variables:later=0.75"], lambda t: "[Variables]\nlater : 0.75\n\n" + t),
  (["--override-item", "Pair:B - B=as.constant ${later}", "--add-item", "Variables:later=0.75"], lambda t: "[Variables]\nlater : 0.75\n\n" + t),
]


# a variable that a place-holder refers to is overridden / removed-and-added: the place-holder follows the value in effect
EDITS_VARIABLE = [
  (["--override-item", "Variables:amp=500.0"], lambda t: t.replace("amp : 1000.0", "amp : 500.0")),
  (["--remove-item", "Variables:amp", "--add-item", "Variables:amp=250.0"], lambda t: t.replace("amp : 1000.0", "amp : 250.0")),
  (["--override-item", "Variables:amp=${base_amp}", "--add-item", "Variables:base_amp=125.0"], lambda t: t.replace("amp : 1000.0", "amp : 125.0")),
]


def differential_case(target):
  res = new_result("potable overrides vs hand-edited file: %s" % target)
  base = (EAM_TEXT if target in ("setfl", "DL_POLY_EAM") else PAIR_TEXT) % dict(target=target, nr=8 if target == "DL_POLY" else 5)
  template = base.replace("B-B : f 2.0", DANGLING)
  with_variable = "[Variables]\namp : 1000.0\n\n" + base.replace("as.buck 1000.0", "as.buck ${amp}")
  for args, edit, base in [(a, e, base) for a, e in EDITS] + [(a, e, template) for a, e in EDITS_TEMPLATE] + [(a, e, with_variable) for a, e in EDITS_VARIABLE]:
    got = c13.run_potable(base, args)
    res["replays"] += 1
    res["paths"] += 1
    if edit is None:
      if got[0] != "exit 2" or got[1] is not None:
        res["violations"].append(dict(key="differential-not-refused", desc="potable %s: %s, %s (a configuration error was expected)" % (" ".join(args), got[0], "output written" if got[1] else "no output")))
      continue
    want = c13.run_potable(edit(base), [])
    res["replays"] += 1
    if want[0] != "exit 0":
      res["harness_errors"].append("hand-edited model does not tabulate: %r" % (want[0],))
      continue
    if got != want:
      res["violations"].append(dict(key="differential-output", desc="potable %s on the %s model: %s; the hand-edited file: %s, outputs %s" % (
        " ".join(args), target, got[0], want[0], "identical" if got[1] == want[1] else "differ"), record=dict(kind="differential", model=base, args=args)))
  return res


def cases(tier, seed=0):
  q = tier == "quick"
  cs = [Case("xh %s" % n, xh_case, name=n, timeout=120 if q else 400) for n in CONDS]
  for t in (("LAMMPS", "setfl") if q else ("LAMMPS", "GULP", "DL_POLY", "setfl", "DL_POLY_EAM")):
    cs.append(Case("differential %s" % t, differential_case, target=t))
  return cs


def replay(path):
  return common.generic_replay(path)
