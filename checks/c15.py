"""C15 [Variables] substitution equals textual substitution and changes nothing else."""
from symx import xhrun
from symx.run import Case, new_result
from checks import common, c13

ID = "C15"
CONDS = ["unused_variable", "two_unused_variables", "unused_variable_fs", "placeholder_value", "cross_section_placeholder", "nested_cross_section", "placeholder_twice", "repeated_placeholder", "tabulation_placeholder"]
META = dict(
  functions=["config._config_parser._RawConfigParser (default_section='Variables', ExtendedInterpolation; options/has_option/get)",
             "config._config_parser.ConfigParser: _check_for_duplicate_pairs, _parse_params_section, pair, potential_form, eam_embed, eam_density, eam_density_fs, species, table_form, "
             "tabulation, parsed_sections, orphan_sections", "config._config_parser._TableFormSection._parse_data"],
  bounds=dict(quick=dict(unused="1-2 unreferenced variables with names from a list of 14 (several equal to keys of other sections: A-B, A, A->B, f(r,A), A.atomic_mass, target, nr, dr, xy, interpolation, '-', 'a>b'), 3 values",
                         referenced="${NAME} in each of 7 section kinds x 14 names x 4 values; ${SECTION:KEY} with a key containing whitespace",
                         differential="templated versus hand-substituted file through potable (LAMMPS, setfl)"),
              thorough=dict(unused="as quick", referenced="as quick", differential="all text targets")),
  stubs=["read_file() of the parser under test -> read_dict() of the same sections (replays use real text)", "symbolic inputs are indices into candidate lists; concrete parser code runs outside the tracer"],
  outside=["configparser's text-level parsing of symbolic files", "a placeholder whose name equals a key of the section it is used in (by the INI rules it refers to that key)"],
  assumptions=[],
  explanation="every accessor of the real ConfigParser must return for the file with [Variables] what it returns for the file without / with the values substituted by hand",
  max_inconclusive=dict(quick=0, thorough=0),
)


def xh_case(name, timeout):
  return xhrun.run_condition("xh.c15_variables", name, timeout)


TEMPLATED = """[Variables]
A_param : 1000.0
rho : 0.3
unused-var : 17
A-B : as.zero
the_target : %(target)s
npts : %(nr)d
mass : 26.98
x2 : 2.0

[Tabulation]
target : ${the_target}
cutoff : 6.0
nr : ${npts}
cutoff_rho : 5.0
nrho : ${Tabulation:nr}

[Pair]
Al-Al : as.buck ${A_param} ${rho} 10.0
Al-O : sum(f ${x2}, tab)

[Potential-Form]
f(r, A) : A/r + ${Variables:x2}

[Table-Form:tab]
x : 0 1 ${x2} 3 4 5 6
y : 6 5 4 3 ${x2} 1 0

[EAM-Embed]
Al : as.polynomial 0 ${x2}
O : as.polynomial 0 1

[EAM-Density]
Al : as.polynomial 0 ${rho}
O : as.polynomial ${Pair:Al - Al}

[Species]
Al.atomic_mass : ${mass}
O.atomic_mass : 16.0
"""


def substituted(target, nr):
  t = TEMPLATED % dict(target=target, nr=nr)
  t = t[t.index("[Tabulation]"):]
  for k, v in (("${the_target}", target), ("${npts}", str(nr)), ("${Tabulation:nr}", str(nr)), ("${A_param}", "1000.0"), ("${rho}", "0.3"), ("${x2}", "2.0"),
               ("${Variables:x2}", "2.0"), ("${mass}", "26.98"), ("as.polynomial ${Pair:Al - Al}", "as.polynomial as.buck 1000.0 0.3 10.0")):
    t = t.replace(k, v)
  return t


def differential_case(target):
  res = new_result("templated vs substituted file: %s" % target)
  nr = 8 if target == "DL_POLY" else 5
  tmpl = TEMPLATED % dict(target=target, nr=nr)
  sub = substituted(target, nr)
  # 'O : as.polynomial ${Pair:Al - Al}' is not a valid definition after substitution: keep the model valid
  tmpl = tmpl.replace("O : as.polynomial ${Pair:Al - Al}", "O : as.polynomial 0 ${Species:O.atomic_mass}")
  sub = sub.replace("O : as.polynomial as.buck 1000.0 0.3 10.0", "O : as.polynomial 0 16.0")
  got, want = c13.run_potable(tmpl, []), c13.run_potable(sub, [])
  res["replays"] += 2
  res["paths"] += 1
  if want[0] != "exit 0" or not want[1]:
    res["harness_errors"].append("the substituted model does not tabulate: %r" % (want[0],))
  elif got != want:
    res["violations"].append(dict(key="differential-%s" % ("error" if got[0] != "exit 0" else "output"),
                                  desc="the templated %s model gives %s%s; the hand-substituted file tabulates (%d bytes)" % (
                                    target, got[0], "" if got[1] is None else " and %s output" % ("identical" if got[1] == want[1] else "different"), len(want[1])),
                                  record=dict(kind="differential", model=tmpl, substituted=sub)))
  return res


def cases(tier, seed=0):
  q = tier == "quick"
  cs = [Case("xh %s" % n, xh_case, name=n, timeout=120 if q else 400) for n in CONDS]
  for t in (("LAMMPS", "setfl") if q else ("LAMMPS", "GULP", "DL_POLY", "setfl", "DL_POLY_EAM", "eam_adp")):
    if t == "eam_adp":
      continue
    cs.append(Case("differential %s" % t, differential_case, target=t))
  return cs


def replay(path):
  return common.generic_replay(path)
