"""Mutation catalogue for C16: well-formed models and single structural
malformations of them, grouped by the unit of the input format they exercise.
Each entry is (label, model text).  The set of valid `target` /
`interpolation` values is re-read from docs/reference/potable_input.rst."""
import os
import re

TAB = "[Tabulation]\ntarget : %(target)s\ncutoff : 6.0\nnr : %(nr)s\n"
TAB_EAM = TAB + "cutoff_rho : 5.0\nnrho : 6\n"
SPECIES = "\n[Species]\nA.atomic_number : 1\nA.atomic_mass : 1.0\nA.lattice_constant : 1.5\nA.lattice_type : fcc\nB.atomic_number : 2\nB.atomic_mass : 2.0\n"

PAIR_BODY = "\n[Pair]\nA-B : as.buck 1000.0 0.3 10.0\nB-B : >0 as.lj 0.01 2.5 >=3.0 as.zero\nA-A : sum(f 2.0 1.0, tab)\n\n[Potential-Form]\nf(r, A, B) = A/r + B\n\n[Table-Form:tab]\nx : 0 1 2 3 4 5 6\ny : 6 5 4 3 2 1 0\n"
EAM_BODY = "\n[Pair]\nA-A : as.buck 1000.0 0.3 10.0\nA-B : as.zero\n\n[EAM-Embed]\nA : as.polynomial 0 1\nB : as.sqrt -1.0\n\n[EAM-Density]\nA : as.exponential 1.0 2\nB : as.polynomial 0 0.5\n" + SPECIES
FS_BODY = "\n[Pair]\nA-A : as.buck 1000.0 0.3 10.0\n\n[EAM-Embed]\nA : as.polynomial 0 1\nB : as.polynomial 0 2\n\n[EAM-Density]\nA->A : as.polynomial 0 0.5\nA->B : as.polynomial 0 0.25\nB->A : as.zero\nB->B : as.polynomial 0 1\n" + SPECIES
ADP_BODY = EAM_BODY + "\n[EAM-ADP-Dipole]\nA-A : as.polynomial 0 0.1\n\n[EAM-ADP-Quadrupole]\nA-A : as.polynomial 0 0.2\nA-B : as.zero\n"
SPLINE = "spline(>0 as.zbl 92 8 >=0.8 exp_spline >=1.4 as.buck 1761.775 0.35642 0.0)"
BUCK4 = "spline(as.buck 11272.6 0.1363 0.0 >1.2 buck4_spline 2.1 >2.6 as.buck 0.0 1.0 134.0)"


def pair_model(target="LAMMPS", nr=None, body=PAIR_BODY):
  return TAB % dict(target=target, nr=nr or (8 if target in ("DL_POLY", "DLPOLY") else 7)) + body


def eam_model(target="setfl", body=None):
  if body is None:
    body = FS_BODY if target.endswith("_fs") else (ADP_BODY if target == "eam_adp" else EAM_BODY)
  return TAB_EAM % dict(target=target, nr=7) + body


def manual_values(repo):
  """valid `target` and `interpolation` values as listed in the reference manual"""
  p = os.path.join(repo, "docs", "reference", "potable_input.rst")
  text = open(p).read()
  m = re.search(r":Item: ``target``.*?:Valid Options:(.*?):Description:", text, re.S)
  targets = []
  for grp in re.findall(r"``([^`]+)``", m.group(1)):
    targets.extend(x.strip() for x in grp.split("|"))
  m2 = re.search(r":Item: ``interpolation``\s*\n:Format:(.*?)\n", text)
  interps = re.findall(r"``([^`]+)``", m2.group(1))
  return targets, interps


def valid_models(repo):
  out = []
  targets, interps = manual_values(repo)
  for t in targets:
    low = t.lower()
    if "eam" in low or low.startswith("setfl"):
      out.append(("manual target %s" % t, eam_model(t, FS_BODY if low.endswith("_fs") else (ADP_BODY if low == "eam_adp" else EAM_BODY))))
    else:
      out.append(("manual target %s" % t, pair_model(t)))
  for i in interps:
    out.append(("manual interpolation %s" % i, pair_model().replace("[Table-Form:tab]\n", "[Table-Form:tab]\ninterpolation : %s\n" % i)))
  out += [
    ("no target (defaults to LAMMPS)", pair_model().replace("target : LAMMPS\n", "")),
    ("xy data", pair_model().replace("x : 0 1 2 3 4 5 6\ny : 6 5 4 3 2 1 0", "xy : 0 6 1 5 2 4 3 3\n     4 2 5 1 6 0")),
    ("exp spline", pair_model(body="\n[Pair]\nA-B : %s\n" % SPLINE)),
    ("buck4 spline", pair_model(body="\n[Pair]\nA-B : %s\nB-B : as.buck4 11272.6 0.1363 134.0 1.2 2.1 2.6\n" % BUCK4)),
    ("nested modifiers", pair_model(body="\n[Pair]\nA-B : sum(product(as.constant 2.0, as.lj 0.01 2.5), pow(as.polynomial 1 1, as.constant 2), trans(as.buck 1000.0 0.3 1.0, as.constant 0.5))\n")),
    ("dr and cutoff", pair_model().replace("nr : 7", "dr : 0.5")),
    ("nr and dr", pair_model().replace("cutoff : 6.0\n", "").replace("nr : 7", "nr : 7\ndr : 1.0")),
    ("variables", "[Variables]\nA : 1000.0\n\n" + pair_model().replace("as.buck 1000.0", "as.buck ${A}")),
    ("pymath in a formula", pair_model().replace("A/r + B", "A*pymath.exp(-r) + B*pymath.sqrt(r + 1)")),
    ("EAM with zero filled species", eam_model(body=EAM_BODY.replace("B : as.sqrt -1.0\n", ""))),
    ("species with integer mass", eam_model(body=EAM_BODY.replace("A.atomic_mass : 1.0", "A.atomic_mass : 12"))),
    ("block syntax in a formula", pair_model().replace("A/r + B", "if (r < 1.5) { A/r + B } else { B }")),
    ("modulus and comparison operators in a formula", pair_model().replace("A/r + B", "(A % 3)/r + B*(r >= 1)")),
    # exprtk names are case-insensitive: functions may be called in any capitalisation
    ("functions called in another capitalisation", pair_model().replace("A/r + B", "A/r + B + 0*AS.Constant(r, 1.0) + 0*PYMATH.EXP(-r) + 0*Tab(r)")),
    ("custom form called in another capitalisation", pair_model().replace("f(r, A, B) = A/r + B", "f(r, A, B) = A/r + B\ng(r, A) = F(r, A, 1.0)").replace("B-B : >0", "A-C : g 2.0\nB-B : >0")),
    ("key spacing", pair_model().replace("A-B :", "A - B =").replace("f(r, A, B) =", "f( r,A , B ) :")),
  ]
  return out


def malformed(repo):
  """{group: [(label, text)]}"""
  P, E, F, D = pair_model(), eam_model(), eam_model("setfl_fs"), eam_model("eam_adp")
  g = {}
  g["tabulation"] = [
    ("unknown target", P.replace("target : LAMMPS", "target : lammps_table")),
    ("target in wrong case", P.replace("target : LAMMPS", "target : gulp")),
    ("empty target", P.replace("target : LAMMPS", "target :")),
    ("non-numeric cutoff", P.replace("cutoff : 6.0", "cutoff : six")),
    ("non-integer nr", P.replace("nr : 7", "nr : 7.5")),
    ("nr, dr and cutoff", P.replace("nr : 7", "nr : 7\ndr : 1.0")),
    ("dr alone", P.replace("cutoff : 6.0\nnr : 7", "dr : 0.1")),
    ("negative cutoff", P.replace("cutoff : 6.0", "cutoff : -6.0")),
    ("zero nr", P.replace("nr : 7", "nr : 0")),
    ("zero cutoff", P.replace("cutoff : 6.0", "cutoff : 0")),
    ("zero cutoff as a float", P.replace("cutoff : 6.0", "cutoff : 0.0")),
    ("zero dr", P.replace("nr : 7", "dr : 0")),
    ("zero nrho", E.replace("nrho : 6", "nrho : 0")),
    ("zero cutoff_rho", E.replace("cutoff_rho : 5.0", "cutoff_rho : 0.0")),
    ("negative dr", P.replace("nr : 7", "dr : -0.5")),
    ("single row", P.replace("nr : 7", "nr : 1")),
    ("non-numeric nrho", E.replace("nrho : 6", "nrho : many")),
    ("negative cutoff_rho", E.replace("cutoff_rho : 5.0", "cutoff_rho : -1")),
    ("DL_POLY rows not a multiple of four", pair_model("DL_POLY", 10)),
    ("DL_POLY four rows", pair_model("DL_POLY", 4)),
    ("DL_POLY with the default row count (1001 is not a multiple of four)", pair_model("DL_POLY").replace("nr : 8\n", "")),
    ("DLPOLY rows from dr not a multiple of four", pair_model("DLPOLY").replace("nr : 8", "dr : 0.5")),
    ("EAM target for a pair-only model", P.replace("target : LAMMPS", "target : setfl")),
    ("Finnis-Sinclair target with plain densities", E.replace("target : setfl", "target : setfl_fs")),
    ("plain EAM target with A->B densities", F.replace("target : setfl_fs", "target : setfl")),
    ("ADP target without dipole section", E.replace("target : setfl", "target : eam_adp")),
  ]
  g["pair"] = [
    ("no [Pair] section", TAB % dict(target="LAMMPS", nr=7)),
    ("pair key without dash", P.replace("A-B :", "AB :")),
    ("pair key with two dashes", P.replace("A-B :", "A-B-C :")),
    ("unknown potential form", P.replace("as.buck 1000.0", "as.bucky 1000.0")),
    ("unknown form without namespace", P.replace("as.buck 1000.0", "buck 1000.0")),
    ("too few parameters", P.replace("as.buck 1000.0 0.3 10.0", "as.buck 1000.0 0.3")),
    ("too many parameters", P.replace("as.buck 1000.0 0.3 10.0", "as.buck 1000.0 0.3 10.0 1.0")),
    ("non-numeric parameter", P.replace("as.buck 1000.0 0.3 10.0", "as.buck 1000.0 rho 10.0")),
    ("no potential form", P.replace("A-B : as.buck 1000.0 0.3 10.0", "A-B :")),
    ("range without potential", P.replace(">=3.0 as.zero", ">=3.0")),
    ("definition that is a lone range start", P.replace("A-B : as.buck 1000.0 0.3 10.0", "A-B : >=1.0")),
    ("definition that is a lone range start with a blank", P.replace("A-B : as.buck 1000.0 0.3 10.0", "A-B : > 0")),
    ("lone range start on a continuation line", P.replace("A-B : as.buck 1000.0 0.3 10.0", "A-B :\n   >=1.0")),
    ("bad range marker", P.replace(">=3.0 as.zero", "=>3.0 as.zero")),
    ("non-numeric range start", P.replace(">=3.0 as.zero", ">=far as.zero")),
    ("custom form with too few arguments", P.replace("f 2.0 1.0", "f 2.0")),
    ("custom form with too many arguments", P.replace("f 2.0 1.0", "f 2.0 1.0 3.0")),
  ]
  g["modifier"] = [
    ("unknown modifier", P.replace("sum(f 2.0 1.0, tab)", "total(f 2.0 1.0, tab)")),
    ("unbalanced parentheses", P.replace("sum(f 2.0 1.0, tab)", "sum(f 2.0 1.0, tab")),
    ("empty modifier", P.replace("sum(f 2.0 1.0, tab)", "sum()")),
    ("trans with one argument", P.replace("sum(f 2.0 1.0, tab)", "trans(as.buck 1000.0 0.3 1.0)")),
    ("trans with three arguments", P.replace("sum(f 2.0 1.0, tab)", "trans(as.buck 1000.0 0.3 1.0, as.constant 1.0, as.constant 2.0)")),
    ("trans whose shift is not as.constant", P.replace("sum(f 2.0 1.0, tab)", "trans(as.buck 1000.0 0.3 1.0, as.polynomial 1.0)")),
    ("trans whose constant has two parameters", P.replace("sum(f 2.0 1.0, tab)", "trans(as.buck 1000.0 0.3 1.0, as.constant 1.0 2.0)")),
    ("pow with one argument", P.replace("sum(f 2.0 1.0, tab)", "pow(as.constant 2.0)")),
    ("unknown form inside a modifier", P.replace("sum(f 2.0 1.0, tab)", "sum(f 2.0 1.0, nosuch 1.0)")),
    ("wrong arity inside a modifier", P.replace("sum(f 2.0 1.0, tab)", "product(as.constant 1.0, as.buck 1.0)")),
  ]
  sp = lambda defn: pair_model(body="\n[Pair]\nA-B : %s\n" % defn)
  g["spline"] = [
    ("spline with one part", sp("spline(>0 as.zbl 92 8)")),
    ("spline with two parts", sp("spline(>0 as.zbl 92 8 >=0.8 exp_spline)")),
    ("spline with four parts", sp("spline(>0 as.zbl 92 8 >=0.8 exp_spline >=1.4 as.buck 1761.775 0.35642 0.0 >=3.0 as.zero)")),
    ("spline with two arguments", sp("spline(>0 as.zbl 92 8 >=0.8 exp_spline >=1.4 as.zero, as.zero)")),
    ("parameters given to exp_spline", sp(SPLINE.replace("exp_spline", "exp_spline 1.0"))),
    ("unknown spline type", sp(SPLINE.replace("exp_spline", "cubic_spline"))),
    ("buck4_spline without r_min", sp(BUCK4.replace("buck4_spline 2.1", "buck4_spline"))),
    ("buck4_spline with two parameters", sp(BUCK4.replace("buck4_spline 2.1", "buck4_spline 2.1 2.2"))),
    ("r_min below detach", sp(BUCK4.replace("buck4_spline 2.1", "buck4_spline 1.0"))),
    ("r_min above attach", sp(BUCK4.replace("buck4_spline 2.1", "buck4_spline 3.0"))),
    ("r_min equal to detach", sp(BUCK4.replace("buck4_spline 2.1", "buck4_spline 1.2"))),
    ("attach before detach", sp(SPLINE.replace(">=0.8", ">=1.8"))),
    ("detach at the start of the first range", sp(SPLINE.replace(">=0.8", ">=0"))),
    ("as.buck4 with too few parameters", sp("as.buck4 11272.6 0.1363 134.0 1.2 2.1")),
  ]
  g["potential-form"] = [
    ("signature without parentheses", P.replace("f(r, A, B) =", "f r A B =")),
    ("signature starting with a digit", P.replace("f(r, A, B) =", "1f(r, A, B) =").replace("f 2.0 1.0", "1f 2.0 1.0")),
    ("unbalanced formula", P.replace("A/r + B", "(A/r + B")),
    ("formula with an undefined symbol", P.replace("A/r + B", "A/r + C")),
    ("formula calling an unknown function", P.replace("A/r + B", "A/r + nosuch(B)")),
    ("formula calling a form with the wrong arity", P.replace("A/r + B", "A/r + as.buck(r, B)")),
    ("empty formula", P.replace("A/r + B", "")),
    # formulae holding characters that are special to python's own string formatting ({} and %)
    ("block formula with an undefined symbol", P.replace("A/r + B", "if (r < 1.5) { A/r + C } else { B }")),
    ("unbalanced block formula", P.replace("A/r + B", "if (r < 1.5) { A/r + B } else { B ")),
    ("block formula calling a form with the wrong arity", P.replace("A/r + B", "if (r < 1.5) { as.buck(r, B) } else { B }")),
    ("empty braces and an undefined symbol", P.replace("A/r + B", "if (r < 1.5) {} else { C }")),
    ("modulus formula with an undefined symbol", P.replace("A/r + B", "(A % 3)/r + C % 2")),
    ("modulus formula calling an unknown function", P.replace("A/r + B", "A %s r + nosuch(%d)")),
  ]
  g["table-form"] = [
    ("x without y", P.replace("y : 6 5 4 3 2 1 0\n", "")),
    ("y without x", P.replace("x : 0 1 2 3 4 5 6\n", "")),
    ("x, y and xy", P.replace("y : 6 5 4 3 2 1 0\n", "y : 6 5 4 3 2 1 0\nxy : 0 1 1 2\n")),
    ("no data", P.replace("x : 0 1 2 3 4 5 6\ny : 6 5 4 3 2 1 0\n", "interpolation : cubic_spline\n")),
    ("different numbers of x and y", P.replace("y : 6 5 4 3 2 1 0", "y : 6 5 4 3 2 1")),
    ("odd number of xy values", P.replace("x : 0 1 2 3 4 5 6\ny : 6 5 4 3 2 1 0", "xy : 0 6 1 5 2 4 3 3 4")),
    ("non-numeric x", P.replace("x : 0 1 2 3 4 5 6", "x : 0 1 two 3 4 5 6")),
    ("non-numeric xy", P.replace("x : 0 1 2 3 4 5 6\ny : 6 5 4 3 2 1 0", "xy : 0 6 1 five 2 4 3 3")),
    ("unknown interpolation", P.replace("[Table-Form:tab]\n", "[Table-Form:tab]\ninterpolation : linear\n")),
    ("two data points", P.replace("x : 0 1 2 3 4 5 6\ny : 6 5 4 3 2 1 0", "x : 0 6\ny : 6 0")),
    ("x not increasing", P.replace("x : 0 1 2 3 4 5 6", "x : 0 2 1 3 4 5 6")),
    ("repeated x", P.replace("x : 0 1 2 3 4 5 6", "x : 0 1 1 3 4 5 6")),
    ("table form without a name", P.replace("[Table-Form:tab]", "[Table-Form:]").replace(", tab)", ")")),
  ]
  g["eam"] = [
    ("no [EAM-Embed] section", E.replace("[EAM-Embed]\nA : as.polynomial 0 1\nB : as.sqrt -1.0\n\n", "")),
    ("no [EAM-Density] section", E.replace("[EAM-Density]\nA : as.exponential 1.0 2\nB : as.polynomial 0 0.5\n", "")),
    ("unknown form in [EAM-Embed]", E.replace("A : as.polynomial 0 1", "A : as.poly 0 1")),
    ("embedding entry that is a lone range start", E.replace("A : as.polynomial 0 1", "A : >=1.0")),
    ("density entry that is a lone range start", E.replace("A : as.exponential 1.0 2", "A : > 0")),
    ("wrong arity in [EAM-Density]", E.replace("A : as.exponential 1.0 2", "A : as.exponential 1.0")),
    ("A->B->C density key", F.replace("A->B :", "A->B->A :")),
    ("density key with arrow only", F.replace("A->B :", "-> :")),
    ("unknown species (no reference data)", E.replace("B : as.sqrt -1.0", "Qq : as.sqrt -1.0").replace("B : as.polynomial 0 0.5", "Qq : as.polynomial 0 0.5")),
    ("unknown modifier in [EAM-Density]", E.replace("A : as.exponential 1.0 2", "A : total(as.exponential 1.0 2)")),
    ("bad dipole pair key", D.replace("[EAM-ADP-Dipole]\nA-A :", "[EAM-ADP-Dipole]\nAA :")),
    ("unknown form in quadrupole", D.replace("A-B : as.zero\n", "A-B : as.nothing\n")),
    ("no quadrupole section", D[:D.index("[EAM-ADP-Quadrupole]")]),
  ]
  g["species"] = [
    ("species key without property", E.replace("A.atomic_number : 1", "A : 1")),
    ("non-integer atomic number", E.replace("A.atomic_number : 1", "A.atomic_number : one")),
    ("non-numeric atomic mass", E.replace("A.atomic_mass : 1.0", "A.atomic_mass : heavy")),
    ("fractional atomic number", E.replace("A.atomic_number : 1", "A.atomic_number : 1.5")),
    ("non-numeric lattice constant", E.replace("A.lattice_constant : 1.5", "A.lattice_constant : wide")),
  ]
  g["file"] = [
    ("text that is not an INI file", "this is not a potable file\nat all\n"),
    ("entry before any section", "target : LAMMPS\n" + P),
    ("unterminated section header", P.replace("[Pair]", "[Pair")),
    ("line without separator", P.replace("A-B : as.buck 1000.0 0.3 10.0", "A-B as.buck 1000.0 0.3 10.0\nC-C")),
    ("duplicate section", P + "\n[Pair]\nC-C : as.zero\n"),
    ("unresolvable placeholder", P.replace("as.buck 1000.0", "as.buck ${nope}")),
    ("placeholder into a missing section", P.replace("as.buck 1000.0", "as.buck ${No:such}")),
    ("malformed placeholder", P.replace("as.buck 1000.0", "as.buck ${unclosed")),
    ("self referencing placeholder", "[Variables]\nA : ${A}\n" + P.replace("as.buck 1000.0", "as.buck ${A}")),
    ("empty file", ""),
  ]
  return g
