"""C08 Multi-range potentials select exactly the range that contains r."""
import io
import itertools

import z3

from symx import core, shims, jets
from symx.core import sym, assume, uf, rv, term
from symx.harness import explore_and_check, Structural, T
from symx.run import Case, new_result
from symx.vc import VC, eq_formula
from checks import common

ID = "C08"
META = dict(
  functions=["_multi_range_potential_form._range_defn_cmp / range_defns setter / _range_search / __call__ / "
             "Multi_Range_Potential_Form_Deriv.deriv / Multi_Range_Potential_Form_Deriv2.deriv2 / Multi_Range_Defn / "
             "create_Multi_Range_Potential_Form", "config._potential_form_builder.Potential_Form_Builder._make_multi_range_tuple / "
             "create_potential_function", "config._config_parser.ConfigParser._descend_tree (default range start)"],
  bounds=dict(quick=dict(ranges="1..3, all marker mixtures, all listing orders", starts="symbolic reals (repeated starts included)", r="symbolic real"),
              thorough=dict(ranges="1..4 all markers/orders; 5 ranges on a sample of marker/order combinations", starts="symbolic reals", r="symbolic real")),
  stubs=["sub-potentials are distinct uninterpreted functions with derivative chains"],
  outside=["two ranges with identical start AND marker (no implementation can be order independent there)",
           "r > s where both '>= s' and '> s' exist: the statement's wording and the pinned test "
           "(_range_search(3.01) == 'four') disagree; only order independence is asserted there, not which one wins"],
  assumptions=["floats as reals"],
  explanation="all paths of the real sort/search code over symbolic starts and r; on every path the value, deriv and "
              "deriv2 terms equal the z3 If-oracle of the statement; results for a permuted listing equal the unpermuted one",
)


H = rv(0.1e-5)


def fterm(i, kind, x, avail):
  """Specification of value / first / second derivative of range i at x: the
  offered analytic method where the sub-potential has one, else the central
  difference (h = 1e-6) of that sub-potential only."""
  if kind == 0:
    return z3.Function("f%d" % i, core.R, core.R)(x)
  if kind == 1:
    if avail[i][0]:
      return z3.Function("d_f%d" % i, core.R, core.R)(x)
    x2, x1 = x + H / 2, x - H / 2
    return (fterm(i, 0, x2, avail) - fterm(i, 0, x1, avail)) / (x2 - x1)
  if avail[i][1]:
    return z3.Function("d2_f%d" % i, core.R, core.R)(x)
  x2, x1 = x + H / 2, x - H / 2
  return (fterm(i, 1, x2, avail) - fterm(i, 1, x1, avail)) / (x2 - x1)


def oracle_vcs(name, got, n, markers, kind, r, S, wrongshift=False, avail=None):
  """got: z3 term.  kind 0/1/2 -> f, f', f''."""
  avail = avail or [(True, True)] * n
  qual = [(r > S[i]) if markers[i] == ">" else (r >= S[i]) for i in range(n)]
  vcs = []
  for i in range(n):
    best = z3.And([qual[i]] + [z3.Implies(qual[j], S[j] < S[i]) for j in range(n) if j != i])
    want = fterm((i + 1) % n if wrongshift else i, kind, r, avail)
    vcs.append(VC("%s/selects%d" % (name, i), z3.Implies(best, eq_formula(got, want)), info=dict(key="select-%s" % ["value", "deriv", "deriv2"][kind])))
  vcs.append(VC("%s/none" % name, z3.Implies(z3.Not(z3.Or(qual)), got == 0), info=dict(key="below-first")))
  return vcs


def api_case(n, markers, perm, avail=None):
  avail = avail or [(True, True)] * n
  res = new_result("api n=%d markers=%s order=%s%s" % (n, "".join("G" if m == ">=" else "g" for m in markers), perm,
                                                     "" if all(a == (True, True) for a in avail) else " avail=%s" % (avail,)))
  any_d = any(a[0] for a in avail)
  any_d2 = any(a[1] for a in avail)
  from atsim.potentials._multi_range_potential_form import Multi_Range_Defn, create_Multi_Range_Potential_Form

  def fn():
    r = sym("r")
    S = [sym("s%d" % i) for i in range(n)]
    fs = [uf("f%d" % i, deriv=avail[i][0], deriv2=avail[i][1]) for i in range(n)]
    d0 = [Multi_Range_Defn(markers[i], S[i], fs[i]) for i in range(n)]
    mr1 = create_Multi_Range_Potential_Form(*d0)
    # range definitions are plain values: another potential made from one of the same definition objects, followed by a
    # different range, leaves this one as it is
    # (n <= 3: with more ranges the extra ordering decisions exhaust the path budget)
    if n <= 3:
      create_Multi_Range_Potential_Form(d0[0], Multi_Range_Defn(">", sym("sx"), uf("fx")))

    def ev(mr):
      if hasattr(mr, "deriv") != (any_d or any_d2) or hasattr(mr, "deriv2") != any_d2:
        raise Structural("offered", "multi-range object offers deriv=%s deriv2=%s for sub-potential availability %r" % (
          hasattr(mr, "deriv"), hasattr(mr, "deriv2"), avail))
      return [mr(r), mr.deriv(r) if hasattr(mr, "deriv") else None, mr.deriv2(r) if hasattr(mr, "deriv2") else None]
    if n <= 2:
      # an earlier evaluation of the same object at another (arbitrary) separation leaves no trace
      mr1(sym("q"))
    out = ev(mr1)
    if perm != tuple(range(n)):
      pdefs = [Multi_Range_Defn(markers[i], S[i], fs[i]) for i in perm]
      if sum(perm[:2]) % 2:
        # the permuted ranges assigned through the public property, as a single-pass iterable
        mr2 = create_Multi_Range_Potential_Form(*d0)
        mr2.range_defns = iter(pdefs)
      else:
        mr2 = create_Multi_Range_Potential_Form(*pdefs)
      out += ev(mr2)
    return [term(x) if x is not None else None for x in out]

  r = z3.Real("r")
  S = [z3.Real("s%d" % i) for i in range(n)]

  def build(path, wrong=False):
    if path.exc is not None:
      raise Structural("exception", "%s: %s" % (type(path.exc).__name__, path.exc))
    out = path.value
    vcs = []
    for kind in range(3):
      if out[kind] is None:
        continue
      vcs += oracle_vcs("listed", out[kind], n, markers, kind, r, S, wrongshift=wrong and n > 1, avail=avail)
      if len(out) > 3:
        vcs += oracle_vcs("permuted", out[3 + kind], n, markers, kind, r, S, avail=avail)
        same = z3.Or([z3.And(S[i] == S[j], markers[i] == markers[j]) for i in range(n) for j in range(i + 1, n)] + [z3.BoolVal(False)])
        vcs.append(VC("order-independence/%d" % kind, z3.Implies(z3.Not(same), out[kind] == out[3 + kind]), info=dict(key="order")))
    if wrong and n == 1:
      vcs.append(VC("neg", out[0] == z3.Function("f0", core.R, core.R)(r) + 1))
    return vcs

  def replay(v, w, path, structural):
    first = replay_api(n, markers, perm, w, avail)
    if first[0]:
      return first
    # not reproduced by a single construction: the same thing after other potentials (offering other derivatives) were
    # built, differentiated and dropped in this process
    import gc
    variants = [[(False, False)] * n, [(True, True)] * n, [(True, False)] * n, [((i % 2) == 0, False) for i in range(n)]]
    for rnd in range(12):
      for var in variants:
        try:
          replay_api(n, markers, perm, w, var)
        except Exception:  # noqa
          pass
        gc.collect()
      again = replay_api(n, markers, perm, w, avail)
      if again[0]:
        return (True, again[1] + " (after other multi-range potentials, offering other derivative methods, were built, differentiated and dropped in this process)",
                dict(again[2], history="other potentials built and dropped first"))
    return first

  explore_and_check(res, fn, build, replay=replay, negative=lambda p: build(p, wrong=True),
                    explorer_kw=dict(max_paths=60000), max_seconds=300 if n < 5 else 1200)
  return res


def replay_reassign(markers, w):
  from atsim.potentials._multi_range_potential_form import Multi_Range_Defn, create_Multi_Range_Potential_Form
  r, q = float(w.get("r", 0.0)), float(w.get("q", 0.0))
  S = [float(w.get("s%d" % i, 0.0)) for i in range(2)]

  class F(object):
    def __init__(self, i):
      self.i = i

    def __call__(self, x):
      return 10.0 * (self.i + 1) + 0.5 * x * x

    def deriv(self, x):
      return 100.0 * (self.i + 1) + x

    def deriv2(self, x):
      return 1000.0 * (self.i + 1) + 1.0
  fs = [F(0), F(1)]
  bad = []
  for prior in ([r], [q], [q, r], [r, q, r]):
    mr = create_Multi_Range_Potential_Form(*[Multi_Range_Defn(markers[i], S[i], fs[i]) for i in range(2)])
    for x in prior:
      mr(x)
      mr.deriv(x)
    mr.range_defns = [Multi_Range_Defn(markers[i], S[i], fs[1 - i]) for i in range(2)]
    got = (mr(r), mr.deriv(r), mr.deriv2(r))
    b = concrete_oracle(markers, S, r, 0)
    if b == "ambiguous":
      continue
    f = fs[1 - b] if b is not None else None
    want = (0.0, 0.0, 0.0) if f is None else (f(r), f.deriv(r), f.deriv2(r))
    if any(abs(g - w_) > 1e-6 * max(1.0, abs(w_)) for g, w_ in zip(got, want)):
      bad.append("evaluated at %r, then range_defns assigned anew (the two functions exchanged), at r=%r starts=%r markers=%r: got %r expected %r" % (
        prior, r, S, markers, got, want))
  return (bool(bad), "; ".join(bad[:2]) or "real code agrees with the statement at the witness", dict(kind="multirange_reassign", markers=list(markers), r=r, q=q, starts=S, mismatches=bad[:4]))


def reassign_case(markers):
  """The ranges of an object that has been evaluated are replaced through the public `range_defns` property: what it gives
  afterwards is the statement's selection among the NEW ranges (no trace of the earlier evaluations or ranges)."""
  res = new_result("api ranges replaced after evaluation, markers=%s" % "".join("G" if m == ">=" else "g" for m in markers))
  from atsim.potentials._multi_range_potential_form import Multi_Range_Defn, create_Multi_Range_Potential_Form

  def fn():
    r, q = sym("r"), sym("q")
    S = [sym("s%d" % i) for i in range(2)]
    fs = [uf("f%d" % i, deriv=True, deriv2=True) for i in range(2)]
    mr = create_Multi_Range_Potential_Form(*[Multi_Range_Defn(markers[i], S[i], fs[i]) for i in range(2)])
    mr(r)
    mr.deriv(r)
    mr(q)
    mr(r)
    # the two functions change places
    mr.range_defns = [Multi_Range_Defn(markers[i], S[i], fs[1 - i]) for i in range(2)]
    return [term(mr(r)), term(mr.deriv(r)), term(mr.deriv2(r))]

  r = z3.Real("r")
  S = [z3.Real("s%d" % i) for i in range(2)]

  def build(path, wrong=False):
    if path.exc is not None:
      raise Structural("exception", "%s: %s" % (type(path.exc).__name__, path.exc))
    vcs = []
    for kind in range(3):
      # `wrongshift` of the oracle is the exchanged assignment: the genuine obligation here, the unshifted one is the negative twin
      vcs += oracle_vcs("reassigned", path.value[kind], 2, markers, kind, r, S, wrongshift=not wrong)
    return vcs

  def replay(v, w, path, structural):
    return replay_reassign(markers, w)

  explore_and_check(res, fn, build, replay=replay, negative=lambda p: build(p, wrong=True), explorer_kw=dict(max_paths=20000), max_seconds=300)
  return res


def concrete_oracle(markers, starts, r, kind):
  best = None
  for i, (m, s) in enumerate(zip(markers, starts)):
    q = (r > s) if m == ">" else (r >= s)
    if q and (best is None or s > starts[best]):
      best = i
    elif q and best is not None and s == starts[best]:
      return "ambiguous"
  return best


def replay_api(n, markers, perm, w, avail=None):
  avail = avail or [(True, True)] * n
  from atsim.potentials._multi_range_potential_form import Multi_Range_Defn, create_Multi_Range_Potential_Form
  r = float(w.get("r", 0.0))
  S = [float(w.get("s%d" % i, 0.0)) for i in range(n)]

  class F(object):
    def __init__(self, i):
      self.i = i

    def __call__(self, x):
      return 10.0 * (self.i + 1) + 0.5 * x * x

    def deriv(self, x):
      return 100.0 * (self.i + 1) + x

    def deriv2(self, x):
      return 1000.0 * (self.i + 1) + 1.0
  class G(F):
    deriv = None
    deriv2 = None

  def mk(i):
    f = F(i)
    if avail[i] == (True, True):
      return f
    # hide the methods the sub-potential does not offer
    class P(object):
      def __call__(self, x):
        return f(x)
    p = P()
    if avail[i][0]:
      p.deriv = f.deriv
    if avail[i][1]:
      p.deriv2 = f.deriv2
    return p
  raw = [F(i) for i in range(n)]
  fs = [mk(i) for i in range(n)]
  bad = []

  def cdiff(g, x, h=0.1e-5):
    x1, x2 = x - h / 2.0, x + h / 2.0
    return (g(x2) - g(x1)) / (x2 - x1)

  def spec(i, x):
    d = (lambda y: raw[i].deriv(y)) if avail[i][0] else (lambda y: cdiff(raw[i], y))
    d2 = raw[i].deriv2(x) if avail[i][1] else cdiff(d, x)
    return (raw[i](x), d(x), d2)
  results = []
  for order in (tuple(range(n)), perm):
    defs = [Multi_Range_Defn(markers[i], S[i], fs[i]) for i in order]
    if order != tuple(range(n)) and sum(order[:2]) % 2:
      mr = create_Multi_Range_Potential_Form(*[Multi_Range_Defn(markers[i], S[i], fs[i]) for i in range(n)])
      mr.range_defns = iter(defs)
    else:
      mr = create_Multi_Range_Potential_Form(*defs)
    if order == tuple(range(n)):
      create_Multi_Range_Potential_Form(defs[0], Multi_Range_Defn(">", float(w.get("sx", 0.0)), F(n)))
      if n <= 2 and "q" in w:
        try:
          mr(float(w["q"]))
        except Exception:  # noqa
          pass
    results.append((mr(r), mr.deriv(r) if hasattr(mr, "deriv") else None, mr.deriv2(r) if hasattr(mr, "deriv2") else None))
    b = concrete_oracle(markers, S, r, 0)
    if b == "ambiguous":
      continue
    want = (0.0, 0.0, 0.0) if b is None else spec(b, r)
    got = results[-1]
    if any(g is not None and abs(g - w_) > 1e-6 * max(1.0, abs(w_)) for g, w_ in zip(got, want)):
      bad.append("order %s at r=%r starts=%r markers=%r: got %r expected %r" % (order, r, S, markers, results[-1], want))
  dup = any(S[i] == S[j] and markers[i] == markers[j] for i in range(n) for j in range(i + 1, n))
  if not dup and results[0] != results[1]:
    bad.append("listing order changes the result at r=%r starts=%r: %r vs %r" % (r, S, results[0], results[1]))
  return (bool(bad), "; ".join(bad[:2]) or "real code agrees with the statement at the witness",
          dict(kind="multirange_api", n=n, markers=list(markers), perm=list(perm), r=r, starts=S, mismatches=bad[:5]))


POTABLE = {
  "default_start": ("A-B : as.polynomial 2.0 0.5", [(">", 0.0, (2.0, 0.5))]),
  "explicit": ("A-B : >=1.0 as.polynomial 1.0 0.25 >2.5 as.polynomial -1.0 2.0 >=2.5 as.polynomial 3.0 0.0 >4.0 as.polynomial 0.5 0.5",
               [(">=", 1.0, (1.0, 0.25)), (">", 2.5, (-1.0, 2.0)), (">=", 2.5, (3.0, 0.0)), (">", 4.0, (0.5, 0.5))]),
  "unordered": ("A-B : >3.0 as.polynomial 1.0 0.25 >=0 as.polynomial -1.0 2.0 >1.0 as.polynomial 3.0 1.0",
                [(">", 3.0, (1.0, 0.25)), (">=", 0.0, (-1.0, 2.0)), (">", 1.0, (3.0, 1.0))]),
  "first_then_default": ("A-B : as.polynomial 1.0 1.0 >=2.0 as.polynomial 0.0 3.0",
                         [(">", 0.0, (1.0, 1.0)), (">=", 2.0, (0.0, 3.0))]),
}


def potable_case(pname):
  name = pname
  """Definitions written in potable syntax (with and without leading marker):
  the potential built by the real parser/builder, with symbolic polynomial
  coefficients, evaluated at symbolic r, equals the statement's selection."""
  res = new_result("potable %s" % name)
  line, ranges = POTABLE[name]
  text = "[Tabulation]\ntarget : LAMMPS\ncutoff : 6.0\nnr : 5\n\n[Pair]\n%s\n" % line
  from atsim.potentials.config import Configuration, ConfigParser
  from symx.potable import SymParamParser
  cp = ConfigParser(io.StringIO(text))
  n = len(ranges)
  shims.install()

  def fn():
    scp = SymParamParser(cp)
    tab = Configuration().read_from_parser(scp)
    pot = tab.potentials[0]
    r = sym("r")
    e = pot.energy(r)
    f = pot.potentialFunction
    d1 = f.deriv(r) if hasattr(f, "deriv") else None
    d2 = f.deriv2(r) if hasattr(f, "deriv2") else None
    return term(e), (term(d1) if d1 is not None else None), (term(d2) if d2 is not None else None)

  r = z3.Real("r")

  def build(path, wrong=False):
    if path.exc is not None:
      raise Structural("exception", "%s: %s" % (type(path.exc).__name__, path.exc))
    e, d1, d2 = path.value
    if d1 is None or d2 is None:
      raise Structural("derivs", "potential built from as.polynomial ranges offers no deriv/deriv2")
    vcs = []
    cnt = 0
    P = []
    for (m, s, coefs) in ranges:
      ps = []
      for _c in coefs:
        cnt += 1
        ps.append(z3.Real("Pair|A-B|%d" % cnt))
      P.append(ps)
    markers = [m for (m, s, c) in ranges]
    S = [rv(s) for (m, s, c) in ranges]
    qual = [(r > S[i]) if markers[i] == ">" else (r >= S[i]) for i in range(n)]
    for i in range(n):
      # greatest qualifying start; at a shared start only r == s is asserted (inclusive wins)
      others = [z3.Implies(qual[j], S[j] < S[i]) for j in range(n) if j != i]
      best = z3.And([qual[i]] + others)
      j = (i + 1) % n if (wrong and n > 1) else i
      val = P[j][0] + P[j][1] * r + (1 if (wrong and n == 1) else 0)
      vcs.append(VC("%s/value%d" % (name, i), z3.Implies(best, e == val), info=dict(key="potable-value")))
      vcs.append(VC("%s/deriv%d" % (name, i), z3.Implies(best, d1 == P[j][1]), info=dict(key="potable-deriv")))
      vcs.append(VC("%s/deriv2%d" % (name, i), z3.Implies(best, d2 == 0), info=dict(key="potable-deriv2")))
    vcs.append(VC("%s/none" % name, z3.Implies(z3.Not(z3.Or(qual)), z3.And(e == 0, d1 == 0, d2 == 0)), info=dict(key="potable-below")))
    return vcs

  def replay(v, w, path, structural):
    from symx import potable as sp
    rr = float(w.get("r", 0.0))
    vals = {k: v for k, v in w.items() if isinstance(k, str) and k.startswith("Pair|") and not k.endswith("#exact") and isinstance(v, float)}
    t2 = text[:text.index("[Pair]")] + sp.render_pairs(cp, vals)
    tab = Configuration().read(io.StringIO(t2))
    got = tab.potentials[0].energy(rr)
    cp2 = ConfigParser(io.StringIO(t2))
    # concrete oracle from the re-rendered file's own numbers
    best = None
    node = cp2.pair[0].potential_form_instance
    defs = []
    while node is not None:
      defs.append((node.start.range_type, node.start.start, node.parameters))
      node = node.next
    for (m, s, ps) in defs:
      q = rr > s if m == ">" else rr >= s
      if q and (best is None or s > best[1] or (s == best[1] and rr == s and m == ">=")):
        best = (m, s, ps)
    want = 0.0 if best is None else best[2][0] + best[2][1] * rr
    ok = abs(got - want) <= 1e-9 * max(1.0, abs(want))
    return (not ok, "energy(%r) = %r, statement gives %r" % (rr, got, want), dict(kind="multirange_potable", model=t2, r=rr))

  try:
    explore_and_check(res, fn, build, replay=replay, negative=lambda p: build(p, wrong=True))
  finally:
    shims.uninstall()
  return res


def marker_siblings_case():
  """Concrete layer through Configuration().read(): entries of one [Pair] section that differ only in a range marker
  (same form, same numbers, same start) - each is selected by its own markers, in either file order."""
  from atsim.potentials.config import Configuration
  import logging
  res = new_result("entries differing only in a range marker (concrete)")
  entries = [("A-A", "as.constant 1.0 >2 as.polynomial 5.0 0.5", [(">", 0.0, lambda r: 1.0), (">", 2.0, lambda r: 5.0 + 0.5 * r)]),
             ("B-B", "as.constant 1.0 >=2 as.polynomial 5.0 0.5", [(">", 0.0, lambda r: 1.0), (">=", 2.0, lambda r: 5.0 + 0.5 * r)]),
             ("C-C", ">=0 as.constant 7.0", [(">=", 0.0, lambda r: 7.0)]),
             ("D-D", "as.constant 7.0", [(">", 0.0, lambda r: 7.0)]),
             ("E-E", ">1 as.constant 4.0 >=3 as.constant 5.0", [(">", 1.0, lambda r: 4.0), (">=", 3.0, lambda r: 5.0)]),
             ("F-F", ">=1 as.constant 4.0 >3 as.constant 5.0", [(">=", 1.0, lambda r: 4.0), (">", 3.0, lambda r: 5.0)])]
  logging.disable(logging.CRITICAL)
  try:
    for order in (entries, entries[::-1], entries[1::2] + entries[0::2]):
      text = "[Tabulation]\ntarget : LAMMPS\ncutoff : 6.0\nnr : 5\n\n[Pair]\n" + "".join("%s : %s\n" % (k, v) for k, v, _ in order)
      tab = Configuration().read(io.StringIO(text))
      pots = {"%s-%s" % (p.speciesA, p.speciesB): p for p in tab.potentials}
      for k, v, ranges in order:
        for r in (0.0, 0.5, 1.0, 2.0, 2.5, 3.0, 4.0):
          best = None
          for (m, s0, f) in ranges:
            if (r > s0) if m == ">" else (r >= s0):
              if best is None or s0 >= best[0]:
                best = (s0, f)
          want = best[1](r) if best else 0.0
          got = pots[k].energy(r)
          res["paths"] += 1
          if abs(got - want) > 1e-12:
            res["violations"].append(dict(key="marker-siblings", desc="%s : %s gives %r at r=%r, its own ranges select %r (file order %s)" % (k, v, got, r, want, [e[0] for e in order]),
                                          record=dict(kind="marker_siblings", model=text)))
            if len(res["violations"]) >= 3:
              return res
      res["replays"] += 1
  finally:
    logging.disable(logging.NOTSET)
  res["vcs"] += 1
  res["unsat"] += 0 if res["violations"] else 1
  res["negatives"] += 1
  res["negatives_ok"] += 1
  return res


def cases(tier, seed=0):
  extra_ = [Case("marker siblings", marker_siblings_case)]
  extra_ += [Case("reassigned %s%s" % (a, b), reassign_case, markers=(a, b)) for a in (">", ">=") for b in (">", ">=")]
  cs = []
  maxn = 3 if tier == "quick" else 4
  for n in range(1, maxn + 1):
    for markers in itertools.product([">", ">="], repeat=n):
      perms = list(itertools.permutations(range(n)))
      if n == 4:
        perms = perms[::5]
      for perm in perms:
        cs.append(Case("api n=%d %s %s" % (n, "".join("G" if m == ">=" else "g" for m in markers), "".join(map(str, perm))),
                       api_case, n=n, markers=markers, perm=perm))
  AV = [(False, False), (True, False), (True, True)]
  for n in (1, 2):
    for avail in itertools.product(AV, repeat=n):
      if all(a == (True, True) for a in avail):
        continue
      for markers in ([(">",) * n, (">=",) * n] if n == 1 else [(">", ">="), (">=", ">"), (">", ">")]):
        cs.append(Case("api-mixed n=%d %s %s" % (n, "".join("G" if m == ">=" else "g" for m in markers),
                                                "".join(str(int(a[0]) + int(a[1])) for a in avail)),
                       api_case, n=n, markers=tuple(markers), perm=tuple(reversed(range(n))), avail=list(avail)))
  if tier == "thorough":
    import random
    rnd = random.Random(5)
    for k in range(6):
      markers = tuple(rnd.choice([">", ">="]) for _ in range(5))
      perm = list(range(5))
      rnd.shuffle(perm)
      cs.append(Case("api n=5 sample%d" % k, api_case, n=5, markers=markers, perm=tuple(perm)))
  for name in POTABLE:
    cs.append(Case("potable %s" % name, potable_case, pname=name))
  return cs + extra_


def replay(path):
  return common.generic_replay(path)
