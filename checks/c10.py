"""C10 Splined potentials keep their end potentials and join them with C2 continuity."""
import io
import math

import z3

from symx import core, shims, jets, mathshim, npstub, elim
from symx.core import sym, assume, uf, rv, term
from symx.harness import explore_and_check, Structural
from symx.run import Case, new_result
from symx.vc import VC, eq_formula
from checks import common
from specs import potential_forms as spec

ID = "C10"
META = dict(
  functions=["spline.Spline_Point", "spline.Exp_Spline._init_spline_coefficients/__call__/deriv/deriv2",
             "spline.Buck4_Spline._init_spline_coefficients/_which_spline/__call__/deriv/deriv2",
             "spline.Custom_SplinePotential.__call__/_deriv/_deriv2/_init_deriv", "spline.SplinePotential", "spline.Buck4_SplinePotential",
             "_modifiers.spline / _Exp_Spline_Factory / _Buck4_Spline_Factory", "potentialforms.buck4 / buck / bornmayer / polynomial / exp_spline",
             "potentialfunctions.exp_spline / polynomial / buck / bornmayer (value, deriv, deriv2)",
             "config._potential_form_builder.Potential_Form_Builder.create_potential_function", "_util.gradient"],
  bounds=dict(quick=dict(potentials="start/end potentials are uninterpreted functions with arbitrary value/slope/curvature at the joins "
                         "(analytic derivatives offered, or none offered -> central differences)",
                         points="detach < (r_min <) attach symbolic reals; r symbolic", branches="both branches of the non-positive-value shift"),
              thorough=dict(potentials="as quick, plus mixed availability of analytic derivatives", points="as quick")),
  stubs=["numpy.linalg.solve(A, B) -> unknowns c with A.c == B (nonsingular system assumed); equal systems give equal unknowns",
         "numpy.array / reshape -> python lists", "exp/log atoms with exp(log x) = x"],
  outside=["conditioning / accuracy of LAPACK's solution", "singular systems (detach == attach etc.)", "floating-point rounding"],
  assumptions=["floats as reals", "trusted calculus: symx/jets.py"],
  explanation="the real coefficient set-up code builds (A, B) from symbolic join data; unknowns c with A.c == B stand for the solution; "
              "the real evaluation code (value/deriv/deriv2 of the inner spline) run at the join points must give terms equal to the end "
              "potentials' value/slope/curvature; subterms polynomially identical to a row of A.c are rewritten to that row's B entry "
              "before z3 decides the remaining identity",
  max_inconclusive=dict(quick=0, thorough=0),
)

H = 0.1e-5
R = core.R


def F(name, x):
  return z3.Function(name, R, R)(x)


def cdiff_t(g, x):
  h = rv(H)
  x1, x2 = x - h / 2, x + h / 2
  return (g(x2) - g(x1)) / (x2 - x1)


def spec_terms(name, avail, x):
  """(value, slope, curvature) terms that Spline_Point reports for the UF `name`."""
  v = lambda y: F(name, y)
  d = (lambda y: F("d_" + name, y)) if avail[0] else (lambda y: cdiff_t(v, y))
  d2 = (lambda y: F("d2_" + name, y)) if avail[1] else (lambda y: cdiff_t(d, y))
  return v(x), d(x), d2(x)


def _pcf(p):
  """hypotheses for the VCs: the path condition without the solve rows when
  every unknown was eliminated from the goals, else the full path condition"""
  rows, cn = _prep(p)
  # rows of earlier solves (history cases) define unknowns no goal mentions
  cn_all = set(cn) | set(n for c in p.pc for n in elim.consts(c) if n[:1] == "c" and "_" in n and n[1:].replace("_", "").isdigit())
  pc = elim.filter_pc(p.pc, cn_all - cn) if getattr(p, "unknowns_left", False) else elim.filter_pc(p.pc, cn_all)
  pts = getattr(p, "abstract_points", None)
  if pts is not None:
    # the abstraction constants are tied to the terms they stand for
    pc = list(pc) + [_abstract(c, pts) for c in pc]
  return pc


def _point_terms(f, x):
  """value/slope/curvature terms a Spline_Point reports for f at x (the same
  ASTs the coefficient set-up code puts into B)"""
  from atsim.potentials.spline import Spline_Point
  p = Spline_Point(f, x)
  return [term(p.v), term(p.deriv), term(p.deriv2)]


PT = [z3.Real("pt_%s_%s" % (w, k)) for w in ("detach", "attach") for k in ("value", "slope", "curvature")]


def _abstract(t, points):
  """replace the (possibly large) join-data terms by opaque constants"""
  order = [2, 5, 1, 4, 0, 3]
  return z3.substitute(t, *[(points[i], PT[i]) for i in order])


def _prep(path):
  systems = path.value.get("systems", [])
  rows, cn = elim.rows_of(systems)
  return rows, cn


def _zero(diff):
  """diff == 0 (cross-multiplied); `True` outright when the numerator
  normalises to the zero polynomial (no solver needed)"""
  from symx.vc import numden
  n, _d = numden(diff)
  if elim.is_zero_poly(n):
    return z3.BoolVal(True)
  return n == 0


def _goal(got, want, rows, cn, stats):
  """rewrite got - want modulo the solve rows; returns (formula, unknowns left)."""
  diff = elim.rewrite(got - want, rows, cn, stats)
  left = elim.consts(diff) & cn
  if not left:
    return _zero(diff), left
  g = elim.rewrite(got, rows, cn, stats)
  w = elim.rewrite(want, rows, cn, stats)
  diff = elim.rewrite(g - w, rows, cn, stats)
  left = elim.consts(diff) & cn
  if not left:
    return _zero(diff), left
  return eq_formula(got, want), left


# ---------------------------------------------------------------------------
# concrete functions for replays

class CF(object):
  def __init__(self, a, b, c, avail=(True, True)):
    self.a, self.b, self.c = a, b, c
    if avail[0]:
      self.deriv = self.d1
    if avail[1]:
      self.deriv2 = self.d2

  def __call__(self, x): return self.a + 0.5 * math.sin(self.b * x) + self.c * x * x
  def d1(self, x): return 0.5 * self.b * math.cos(self.b * x) + 2 * self.c * x
  def d2(self, x): return -0.5 * self.b * self.b * math.sin(self.b * x) + 2 * self.c


def _points(w, need_min):
  d, a, m = w.get("d"), w.get("a"), w.get("rm")
  ok = isinstance(d, float) and isinstance(a, float) and 0.2 < d < a - 0.2 and a < 8
  if need_min:
    ok = ok and isinstance(m, float) and d + 0.1 < m < a - 0.1
  if not ok:
    return 1.0, 2.5, 1.7
  return d, a, m


def _wr(w, d0, a0):
  """the witness separation, moved to the same side of the (possibly defaulted) joins"""
  r, d, a = w.get("r"), w.get("d"), w.get("a")
  if not isinstance(r, float):
    return None
  if isinstance(d, float) and isinstance(a, float) and (d, a) != (d0, a0):
    # joins were replaced by defaults: keep r's relative position
    if r <= d:
      return d0 - min(0.5, max(d - r, 0.0)) if d - r < d0 else 0.5 * d0
    if r >= a:
      return a0 + min(r - a, 5.0)
    return d0 + (r - d) / (a - d) * (a0 - d0)
  return r


def same(g, t):
  """g == t, decided by normalisation when it is a polynomial identity"""
  if elim.is_zero_poly(g - t):
    return z3.BoolVal(True)
  return g == t


def _close(x, y, rel, absol=1e-9):
  return abs(x - y) <= rel * max(abs(x), abs(y)) + absol


def concrete_joins(sp, S, E, d, a, rm=None, r=None):
  bad = []
  if isinstance(r, float) and 0 < r < 50 and r not in (d, a, rm):
    # the solver's separation: which function must be in charge there
    it_ = sp.interpolationFunction
    f = S if r < d else (E if r > a else it_)
    nm = "start potential" if r < d else ("end potential" if r > a else "spline")
    if not _close(sp(r), f(r), 1e-12):
      bad.append("at r=%r (detach=%r attach=%r) the splined potential gives %r, the %s %r" % (r, d, a, sp(r), nm, f(r)))
    elif hasattr(sp, "deriv"):
      e1 = f.d1(r) if hasattr(f, "d1") else f.deriv(r)
      if not _close(sp.deriv(r), e1, 1e-4, 1e-5):
        bad.append("at r=%r deriv gives %r, the %s has slope %r" % (r, sp.deriv(r), nm, e1))
  it = sp.interpolationFunction
  from atsim.potentials.spline import Spline_Point
  for (nm, f, x) in (("detach", S, d), ("attach", E, a)):
    # slope/curvature of the end potential as the library itself reports them
    # (analytic where offered, else its central differences - C07's subject)
    pt = Spline_Point(f, x)
    e1 = f.d1(x) if hasattr(f, "deriv") else pt.deriv
    e2 = f.d2(x) if hasattr(f, "deriv2") else pt.deriv2
    if not _close(it(x), f(x), 1e-7):
      bad.append("value at %s: spline %r, potential %r" % (nm, it(x), f(x)))
    if not _close(it.deriv(x), e1, 1e-5, 1e-6):
      bad.append("slope at %s: spline %r, potential %r" % (nm, it.deriv(x), e1))
    if not _close(it.deriv2(x), e2, 1e-4, 1e-4):
      bad.append("curvature at %s: spline %r, potential %r" % (nm, it.deriv2(x), e2))
  if rm is not None:
    s5, s3 = it.spline5, it.spline3
    if not _close(s5(rm), s3(rm), 1e-7):
      bad.append("value jumps at r_min: %r vs %r" % (s5(rm), s3(rm)))
    if not _close(s5.deriv(rm), s3.deriv(rm), 1e-6, 1e-7):
      bad.append("slope jumps at r_min: %r vs %r" % (s5.deriv(rm), s3.deriv(rm)))
    if not _close(s5.deriv2(rm), s3.deriv2(rm), 1e-5, 1e-6):
      bad.append("curvature jumps at r_min: %r vs %r" % (s5.deriv2(rm), s3.deriv2(rm)))
    if abs(s5.deriv(rm)) > 1e-6 * (1 + abs(S(d)) + abs(E(a))):
      bad.append("slope at r_min is %r, not 0" % s5.deriv(rm))
    e = 1e-7
    if not _close(it(rm - e), s5(rm - e), 1e-9) or not _close(it(rm + e), s3(rm + e), 1e-9) or not _close(it(rm), s3(rm), 1e-9):
      bad.append("wrong polynomial selected around r_min")
  # regions
  for x in (d - 0.3, d, a, a + 0.4):
    f = S if x <= d else E
    if (sp(x) != f(x)) if x not in (d, a) else (not _close(sp(x), f(x), 1e-9)):
      bad.append("splined potential at r=%r is %r, end potential gives %r" % (x, sp(x), f(x)))
  xm = 0.5 * (d + a)
  if not _close(sp(xm), it(xm), 1e-12):
    bad.append("inside the region the spline function is not used")
  if hasattr(sp, "deriv"):
    for x in (d - 0.3, a + 0.4):
      f = S if x <= d else E
      if not _close(sp.deriv(x), f.d1(x), 1e-4, 1e-5):
        bad.append("deriv at r=%r is %r, end potential's %r" % (x, sp.deriv(x), f.d1(x)))
    if not _close(sp.deriv(xm), it.deriv(xm), 1e-9):
      bad.append("deriv inside the region is not the spline's")
  return bad


# ---------------------------------------------------------------------------
# (1) exponential spline

def exp_case(avS, avE, history=False):
  res = new_result("exp_spline joins start=%s end=%s%s" % (avS, avE, " after another spline with the same ends" if history else ""))
  from atsim.potentials.spline import SplinePotential
  shims.install()

  def fn():
    d, a, r = sym("d"), sym("a"), sym("r")
    assume(d < a)
    S, E = uf("S", *avS), uf("E", *avE)
    with npstub.installed():
      if history:
        SplinePotential(uf("S0", *avS), uf("E0", *avE), d, a)
      sp = SplinePotential(S, E, d, a)
    it = sp.interpolationFunction
    out = dict(systems=list(core.cur().__dict__.get("solve_systems", []))[-1:])
    out["join"] = [term(it(d)), term(it.deriv(d)), term(it.deriv2(d)), term(it(a)), term(it.deriv(a)), term(it.deriv2(a))]
    out["points"] = _point_terms(S, d) + _point_terms(E, a)
    co = sp.splineCoefficients
    out["ncoef"] = len(co)
    out["hasd"] = (hasattr(sp, "deriv"), hasattr(sp, "deriv2"))
    # the advertised shape over the reported coefficients, and its true derivatives
    ref = spec.make(mathshim.exp, mathshim.sqrt)["exp_spline"]
    j = ref(jets.Jet(r, 1.0, 0.0), *co)
    out["shape"] = [term(j.v), term(j.d1), term(j.d2)]
    out["sp"] = [term(sp(r)), term(sp.deriv(r)), term(sp.deriv2(r))]
    return out

  d, a, r = z3.Real("d"), z3.Real("a"), z3.Real("r")

  def build(path, wrong=False):
    if path.exc is not None:
      raise Structural("exception", "%s: %s" % (type(path.exc).__name__, path.exc))
    v = path.value
    if v["ncoef"] != 7:
      raise Structural("coefficients", "%d spline coefficients reported, 7 documented (B0..B5, C)" % v["ncoef"])
    if v["hasd"] != (True, True):
      raise Structural("offered", "splined potential offers deriv/deriv2 = %r although the spline has analytic derivatives" % (v["hasd"],))
    rows, cn = _prep(path)
    st = res.setdefault("elim", {})
    wantS, wantE = spec_terms("S", avS, d), spec_terms("E", avE, a)
    vcs = []
    names = ["value", "slope", "curvature"]
    pts = v["points"]
    # (i) the join data the set-up code uses are the end potentials' value, slope, curvature
    for i in range(3):
      vcs.append(VC("detach.data.%s" % names[i], eq_formula(pts[i], wantS[i]), info=dict(key="exp-data-detach-" + names[i])))
      vcs.append(VC("attach.data.%s" % names[i], eq_formula(pts[3 + i], wantE[i]), info=dict(key="exp-data-attach-" + names[i])))
    # (ii) the spline reproduces those data (data abstracted to opaque constants)
    rows = [(_abstract(l, pts), _abstract(r_, pts)) for (l, r_) in rows]
    path.abstract_points = pts
    wantS, wantE = PT[0:3], PT[3:6]
    if wrong:
      wantS = (wantS[0] + 1, wantS[1], wantS[2])
    for i in range(3):
      f, left = _goal(_abstract(v["join"][i], pts), wantS[i], rows, cn, st)
      path.unknowns_left = getattr(path, "unknowns_left", False) or bool(left)
      vcs.append(VC("detach.%s" % names[i], f, info=dict(key="exp-join-detach-" + names[i])))
      f, left = _goal(_abstract(v["join"][3 + i], pts), wantE[i], rows, cn, st)
      path.unknowns_left = path.unknowns_left or bool(left)
      vcs.append(VC("attach.%s" % names[i], f, info=dict(key="exp-join-attach-" + names[i])))
    # region dispatch and shape, at symbolic r (this path fixed one region)
    sS, sE = spec_terms("S", avS, r), spec_terms("E", avE, r)
    for i in range(3):
      g = v["sp"][i]
      # at exactly detach/attach either neighbour is accepted: the join VCs show they agree there
      want = z3.And(z3.Implies(r < d, same(g, sS[i])), z3.Implies(r > a, same(g, sE[i])),
                    z3.Implies(z3.And(d < r, r < a), same(g, v["shape"][i])),
                    z3.Implies(r == d, z3.Or(same(g, sS[i]), same(g, v["shape"][i]))),
                    z3.Implies(r == a, z3.Or(same(g, sE[i]), same(g, v["shape"][i]))))
      vcs.append(VC("region.%s" % names[i], want, info=dict(key="exp-region-" + names[i])))
    return vcs

  def replay(vc_, w, path, structural):
    from atsim.potentials.spline import SplinePotential as SP
    d0, a0, _ = _points(w, False)
    bad = []
    for shift in (0.0, -9.0):
      S_, E_ = CF(3.0 + shift, 0.7, 0.1, avS), CF(2.0 + shift, 0.4, 0.05, avE)
      if history:
        SP(CF(1.0, 0.3, 0.2, avS), CF(0.5, 0.9, 0.01, avE), d0, a0)
      sp = SP(S_, E_, d0, a0)
      bad += ["[offset %g] %s" % (shift, b) for b in concrete_joins(sp, S_, E_, d0, a0, r=_wr(w, d0, a0))]
    return (bool(bad), "; ".join(bad[:3]) or "joins and regions agree at detach=%r attach=%r" % (d0, a0), dict(kind="exp_spline", d=d0, a=a0))

  try:
    explore_and_check(res, fn, build, replay=replay, negative=lambda p: build(p, wrong=True), pc_for_vcs=_pcf,
                      vc_timeout_ms=30000, batch=False)
  finally:
    shims.uninstall()
  res["stubs"].append("identity tests for row rewriting: %d" % res.get("elim", {}).get("identity_tests", 0))
  return res


# ---------------------------------------------------------------------------
# (2) buck4 spline

def buck4_case(avS, avE, history=False):
  res = new_result("buck4_spline joins start=%s end=%s%s" % (avS, avE, " after another spline with the same ends" if history else ""))
  from atsim.potentials.spline import Buck4_SplinePotential
  shims.install()

  def fn():
    d, a, m, r = sym("d"), sym("a"), sym("rm"), sym("r")
    assume(d < m)
    assume(m < a)
    S, E = uf("S", *avS), uf("E", *avE)
    with npstub.installed():
      if history:
        # an arbitrary earlier spline between the same points (other minimum, other potentials)
        m0 = sym("rm_earlier")
        assume(d < m0)
        assume(m0 < a)
        Buck4_SplinePotential(uf("S0", *avS), uf("E0", *avE), d, a, m0)
      sp = Buck4_SplinePotential(S, E, d, a, m)
    it = sp.interpolationFunction
    out = dict(systems=list(core.cur().__dict__.get("solve_systems", []))[-1:])
    s5, s3 = it.spline5, it.spline3
    out["join"] = [term(it(d)), term(it.deriv(d)), term(it.deriv2(d)), term(it(a)), term(it.deriv(a)), term(it.deriv2(a))]
    out["points"] = _point_terms(S, d) + _point_terms(E, a)
    out["mid"] = [(term(s5(m)), term(s3(m))), (term(s5.deriv(m)), term(s3.deriv(m))), (term(s5.deriv2(m)), term(s3.deriv2(m)))]
    out["at_min"] = [term(it(m)), term(it.deriv(m)), term(it.deriv2(m))]
    co = list(sp.splineCoefficients)
    out["ncoef"] = len(co)
    ref = spec.make(mathshim.exp, mathshim.sqrt)["polynomial"]
    j5 = ref(jets.Jet(r, 1.0, 0.0), *co[:6])
    j3 = ref(jets.Jet(r, 1.0, 0.0), *co[6:])
    out["shape5"] = [term(jets.Jet.of(j5).v), term(jets.Jet.of(j5).d1), term(jets.Jet.of(j5).d2)]
    out["shape3"] = [term(jets.Jet.of(j3).v), term(jets.Jet.of(j3).d1), term(jets.Jet.of(j3).d2)]
    out["hasd"] = (hasattr(sp, "deriv"), hasattr(sp, "deriv2"))
    out["sp"] = [term(sp(r)), term(sp.deriv(r)), term(sp.deriv2(r))]
    return out

  d, a, m, r = z3.Real("d"), z3.Real("a"), z3.Real("rm"), z3.Real("r")

  def build(path, wrong=False):
    if path.exc is not None:
      raise Structural("exception", "%s: %s" % (type(path.exc).__name__, path.exc))
    v = path.value
    if v["ncoef"] != 10:
      raise Structural("coefficients", "%d spline coefficients reported, 10 documented (A0..A5, B0..B3)" % v["ncoef"])
    if v["hasd"] != (True, True):
      raise Structural("offered", "splined potential offers deriv/deriv2 = %r" % (v["hasd"],))
    rows, cn = _prep(path)
    st = res.setdefault("elim", {})
    wantS, wantE = spec_terms("S", avS, d), spec_terms("E", avE, a)
    names = ["value", "slope", "curvature"]
    vcs = []
    pts = v["points"]
    for i in range(3):
      vcs.append(VC("detach.data.%s" % names[i], eq_formula(pts[i], wantS[i]), info=dict(key="buck4-data-detach-" + names[i])))
      vcs.append(VC("attach.data.%s" % names[i], eq_formula(pts[3 + i], wantE[i]), info=dict(key="buck4-data-attach-" + names[i])))
    rows = [(_abstract(l, pts), _abstract(r_, pts)) for (l, r_) in rows]
    path.abstract_points = pts
    wantS, wantE = PT[0:3], PT[3:6]
    if wrong:
      wantE = (wantE[0], wantE[1] + 1, wantE[2])
    for i in range(3):
      lefts = []
      f, l_ = _goal(v["join"][i], wantS[i], rows, cn, st)
      lefts.append(l_)
      vcs.append(VC("detach.%s" % names[i], f, info=dict(key="buck4-join-detach-" + names[i])))
      f, l_ = _goal(v["join"][3 + i], wantE[i], rows, cn, st)
      lefts.append(l_)
      vcs.append(VC("attach.%s" % names[i], f, info=dict(key="buck4-join-attach-" + names[i])))
      f, l_ = _goal(v["mid"][i][0], v["mid"][i][1], rows, cn, st)
      lefts.append(l_)
      path.unknowns_left = getattr(path, "unknowns_left", False) or any(lefts)
      vcs.append(VC("r_min.continuity.%s" % names[i], f, info=dict(key="buck4-rmin-" + names[i])))
      # the callable itself at r_min takes the upper polynomial (value continuous anyway)
      f, l_ = _goal(v["at_min"][i], v["mid"][i][1], rows, cn, st)
      path.unknowns_left = path.unknowns_left or bool(l_)
      vcs.append(VC("r_min.selected.%s" % names[i], f, info=dict(key="buck4-rmin-selected")))
    f, l_ = _goal(v["mid"][1][0], z3.RealVal(0), rows, cn, st)
    path.unknowns_left = path.unknowns_left or bool(l_)
    vcs.append(VC("r_min.zero_slope", f, info=dict(key="buck4-rmin-zero-slope")))
    sS, sE = spec_terms("S", avS, r), spec_terms("E", avE, r)
    for i in range(3):
      g = v["sp"][i]
      s5_, s3_ = v["shape5"][i], v["shape3"][i]
      want = z3.And(z3.Implies(r < d, same(g, sS[i])), z3.Implies(r > a, same(g, sE[i])),
                    z3.Implies(z3.And(d < r, r < m), same(g, s5_)), z3.Implies(z3.And(m < r, r < a), same(g, s3_)),
                    z3.Implies(r == m, z3.Or(same(g, s5_), same(g, s3_))),
                    z3.Implies(r == d, z3.Or(same(g, sS[i]), same(g, s5_))),
                    z3.Implies(r == a, z3.Or(same(g, sE[i]), same(g, s3_))))
      vcs.append(VC("region.%s" % names[i], want, info=dict(key="buck4-region-" + names[i])))
    return vcs

  def replay(vc_, w, path, structural):
    from atsim.potentials.spline import Buck4_SplinePotential as BP
    d0, a0, m0 = _points(w, True)
    S_, E_ = CF(3.0, 0.7, 0.1, avS), CF(-2.0, 0.4, 0.05, avE)
    if history:
      me = w.get("rm_earlier")
      if not (isinstance(me, float) and d0 + 0.05 < me < a0 - 0.05 and abs(me - m0) > 0.05):
        me = d0 + 0.25 * (a0 - d0) if m0 > 0.5 * (d0 + a0) else d0 + 0.75 * (a0 - d0)
      BP(CF(1.0, 0.3, 0.2, avS), CF(0.5, 0.9, 0.01, avE), d0, a0, me)
    sp = BP(S_, E_, d0, a0, m0)
    bad = concrete_joins(sp, S_, E_, d0, a0, m0, r=_wr(w, d0, a0))
    return (bool(bad), "; ".join(bad[:3]) or "joins, r_min conditions and regions agree", dict(kind="buck4_spline", d=d0, a=a0, rm=m0))

  try:
    explore_and_check(res, fn, build, replay=replay, negative=lambda p: build(p, wrong=True), pc_for_vcs=_pcf,
                      vc_timeout_ms=30000, batch=False)
  finally:
    shims.uninstall()
  return res


# ---------------------------------------------------------------------------
# (3) equivalence of the three ways of building a spline

def _parse_definition(text):
  """The real pyparsing grammar + _descend_tree on a [Pair] definition."""
  from atsim.potentials.config import ConfigParser
  cp = ConfigParser(io.StringIO("[Pair]\nA-B : %s\n" % text))
  return cp.pair[0].potential_form_instance


def _subst(node, table):
  """Replace placeholder numerals (parameters and range starts) by symbols."""
  if node is None:
    return None
  def val(x):
    if isinstance(x, float) and not isinstance(x, core.SReal) and x in table:
      return table[x]
    return x
  start = node.start
  if start is not None:
    start = start._replace(start=val(start.start))
  if hasattr(node, "modifier"):
    return node._replace(potential_forms=[_subst(p, table) for p in node.potential_forms], start=start, next=_subst(node.next, table))
  return node._replace(parameters=[val(p) for p in node.parameters], start=start, next=_subst(node.next, table))


def _real_builder():
  from atsim.potentials.config import ConfigParser
  from atsim.potentials.config._potential_form_registry import Potential_Form_Registry
  from atsim.potentials.config._modifier_registry import Modifier_Registry
  from atsim.potentials.config._potential_form_builder import Potential_Form_Builder
  cp = ConfigParser(io.StringIO(""))
  return Potential_Form_Builder(Potential_Form_Registry(cp, True), Modifier_Registry())


BUCK4_TEXT = "spline(as.buck 101.0 102.0 0.0 >104.0 buck4_spline 105.0 >106.0 as.buck 0.0 1.0 103.0)"


def equiv_buck4_case():
  res = new_result("equivalence as.buck4 / spline() modifier / Buck4_SplinePotential")
  tree = _parse_definition(BUCK4_TEXT)
  tree4 = _parse_definition("as.buck4 101.0 102.0 103.0 104.0 105.0 106.0")
  builder = _real_builder()
  shims.install()

  def fn():
    from atsim.potentials import potentialforms as pfm
    from atsim.potentials.spline import Buck4_SplinePotential
    A, rho, C, rd, rm, ra, r = [sym(n) for n in ("A", "rho", "C", "rd", "rm", "ra", "r")]
    assume(rd > 0)
    assume(rd < rm)
    assume(rm < ra)
    assume(r > 0)
    tab = {101.0: A, 102.0: rho, 103.0: C, 104.0: rd, 105.0: rm, 106.0: ra}
    with npstub.installed():
      p_api = Buck4_SplinePotential(pfm.buck(A, rho, 0.0), pfm.buck(0.0, 1.0, C), rd, ra, rm)
      p_form = pfm.buck4(A, rho, C, rd, rm, ra)
      p_mod = builder.create_potential_function(_subst(tree, tab))
      p_cfg = builder.create_potential_function(_subst(tree4, tab))
    out = dict(systems=list(core.cur().__dict__.get("solve_systems", [])))
    for nm, p in (("api", p_api), ("form", p_form), ("modifier", p_mod), ("as.buck4", p_cfg)):
      out[nm] = [term(p(r)), term(p.deriv(r)) if hasattr(p, "deriv") else None, term(p.deriv2(r)) if hasattr(p, "deriv2") else None]
    return out

  def build(path, wrong=False):
    if path.exc is not None:
      raise Structural("exception", "%s: %s" % (type(path.exc).__name__, path.exc))
    v = path.value
    if len(v["systems"]) != 1 and not wrong:
      # different (A, B) systems: the constructions do not set up the same spline
      res["notes"].append("%d distinct linear systems were set up by the four constructions" % len(v["systems"]))
    names = ["value", "deriv", "deriv2"]
    vcs = []
    for nm in ("form", "modifier", "as.buck4"):
      for i in range(3):
        a_, b_ = v["api"][i], v[nm][i]
        if (a_ is None) != (b_ is None):
          raise Structural("offered-%s" % nm, "%s offers %s but the Python classes %s" % (nm, names[i], "do" if a_ is not None else "do not"))
        if a_ is None:
          continue
        if wrong and nm == "form" and i == 0:
          b_ = b_ + 1
        vcs.append(VC("%s==api.%s" % (nm, names[i]), eq_formula(b_, a_), info=dict(key="equiv-buck4-%s-%s" % (nm, names[i]))))
    return vcs

  def replay(vc_, w, path, structural):
    return replay_equiv_buck4(w)

  try:
    explore_and_check(res, fn, build, replay=replay, negative=lambda p: build(p, wrong=True), pc_for_vcs=_pcf,
                      vc_timeout_ms=30000, batch=False, explorer_kw=dict(max_paths=400))
  finally:
    shims.uninstall()
  return res


def replay_equiv_buck4(w):
  from atsim.potentials import potentialforms as pfm
  from atsim.potentials.spline import Buck4_SplinePotential
  from atsim.potentials.config import Configuration
  sets = []
  try:
    cand = [float(w[k]) for k in ("A", "rho", "C", "rd", "rm", "ra")]
    if 0.05 < cand[3] < cand[4] - 0.05 and cand[4] < cand[5] - 0.05 and cand[5] < 10 and 0.05 < abs(cand[1]) < 10 and abs(cand[0]) < 1e5 and abs(cand[2]) < 1e4:
      sets.append(cand)
  except Exception:
    pass
  sets.append([11272.6, 0.1363, 134.0, 1.2, 2.1, 2.6])
  bad = []
  for (A, rho, C, rd, rm, ra) in sets:
    p_api = Buck4_SplinePotential(pfm.buck(A, rho, 0.0), pfm.buck(0.0, 1.0, C), rd, ra, rm)
    p_form = pfm.buck4(A, rho, C, rd, rm, ra)
    txt = "[Tabulation]\ntarget: LAMMPS\ncutoff: 5.0\nnr: 6\n[Pair]\nA-B : spline(as.buck %r %r 0.0 >%r buck4_spline %r >%r as.buck 0.0 1.0 %r)\nA-A : as.buck4 %r %r %r %r %r %r\n" % (
      A, rho, rd, rm, ra, C, A, rho, C, rd, rm, ra)
    tab = Configuration().read(io.StringIO(txt))
    pots = {(p.speciesA, p.speciesB): p.potentialFunction for p in tab.potentials}
    p_mod, p_cfg = pots[("A", "B")], pots[("A", "A")]
    xs = [0.5 * rd, rd, 0.5 * (rd + rm), rm, 0.5 * (rm + ra), ra, ra + 0.7]
    rr = w.get("r")
    if isinstance(rr, float) and 0.05 < rr < 20:
      xs.append(rr)
    for x in xs:
      ref = p_api(x)
      for nm, p in (("potentialforms.buck4", p_form), ("spline() modifier", p_mod), ("as.buck4", p_cfg)):
        if not _close(p(x), ref, 1e-9, 1e-12):
          bad.append("%s(%r) = %r but Buck4_SplinePotential gives %r (parameters %r)" % (nm, x, p(x), ref, (A, rho, C, rd, rm, ra)))
        if hasattr(p, "deriv") and not _close(p.deriv(x), p_api.deriv(x), 1e-7, 1e-10):
          bad.append("%s.deriv(%r) = %r but Buck4_SplinePotential gives %r" % (nm, x, p.deriv(x), p_api.deriv(x)))
    if bad:
      break
  return (bool(bad), "; ".join(bad[:3]) or "the four constructions agree", dict(kind="equiv_buck4", parameter_sets=sets))


EXP_TEXT = "spline(>0 as.S >=104.0 exp_spline >=106.0 as.E)"


class _UFRegistry(object):
  """potential-form registry offering two parameterless forms backed by UFs."""

  def __init__(self, fs):
    self.fs = fs

  def __getitem__(self, k):
    f = self.fs[k]
    return lambda *params: f


def equiv_exp_case(markers=(">=", ">=")):
  res = new_result("equivalence spline() modifier / SplinePotential (markers %s %s)" % markers)
  text = "spline(>0 as.S %s104.0 exp_spline %s106.0 as.E)" % markers
  tree = _parse_definition(text.replace("as.S", "as.zero").replace("as.E", "as.constant 1.0"))
  shims.install()

  def fn():
    from atsim.potentials.spline import SplinePotential
    from atsim.potentials.config._modifier_registry import Modifier_Registry
    from atsim.potentials.config._potential_form_builder import Potential_Form_Builder
    d, a, r = sym("d"), sym("a"), sym("r")
    assume(d > 0)
    assume(d < a)
    assume(r > 0)
    S, E = uf("S", True, True), uf("E", True, True)
    t = _subst(tree, {104.0: d, 106.0: a})
    # rename the placeholder forms to the UF-backed ones, drop their parameters
    inner = t.potential_forms[0]
    third = inner.next.next._replace(potential_form="as.E", parameters=[])
    inner = inner._replace(potential_form="as.S", parameters=[], next=inner.next._replace(next=third))
    t = t._replace(potential_forms=[inner])
    builder = Potential_Form_Builder(_UFRegistry({"as.S": S, "as.E": E}), Modifier_Registry())
    with npstub.installed():
      p_api = SplinePotential(S, E, d, a)
      p_mod = builder.create_potential_function(t)
    out = dict(systems=list(core.cur().__dict__.get("solve_systems", [])))
    for nm, p in (("api", p_api), ("modifier", p_mod)):
      out[nm] = [term(p(r)), term(p.deriv(r)) if hasattr(p, "deriv") else None, term(p.deriv2(r)) if hasattr(p, "deriv2") else None]
    return out

  def build(path, wrong=False):
    if path.exc is not None:
      raise Structural("exception", "%s: %s" % (type(path.exc).__name__, path.exc))
    v = path.value
    names = ["value", "deriv", "deriv2"]
    vcs = []
    for i in range(3):
      a_, b_ = v["api"][i], v["modifier"][i]
      if (a_ is None) != (b_ is None):
        raise Structural("offered", "modifier route offers %s: %s, Python class: %s" % (names[i], b_ is not None, a_ is not None))
      if a_ is None:
        continue
      if wrong and i == 0:
        b_ = b_ + 1
      vcs.append(VC("modifier==api.%s" % names[i], eq_formula(b_, a_), info=dict(key="equiv-exp-%s" % names[i])))
    return vcs

  def replay(vc_, w, path, structural):
    from atsim.potentials.spline import SplinePotential
    from atsim.potentials import potentialforms as pfm
    from atsim.potentials.config import Configuration
    d0, a0, _ = _points(w, False)
    txt = "[Tabulation]\ntarget: LAMMPS\ncutoff: 5.0\nnr: 6\n[Pair]\nA-B : spline(>0 as.zbl 92 8 %s%r exp_spline %s%r as.buck 1761.775 0.35642 0.0)\n" % (markers[0], d0, markers[1], a0)
    p_mod = Configuration().read(io.StringIO(txt)).potentials[0].potentialFunction
    p_api = SplinePotential(pfm.zbl(92, 8), pfm.buck(1761.775, 0.35642, 0.0), d0, a0)
    bad = []
    xs = [0.5 * d0, d0, 0.5 * (d0 + a0), a0, a0 + 0.5]
    if isinstance(w.get("r"), float) and 0.05 < w["r"] < 20:
      xs.append(w["r"])
    for x in xs:
      if not _close(p_mod(x), p_api(x), 1e-9, 1e-12):
        bad.append("modifier(%r) = %r, SplinePotential gives %r" % (x, p_mod(x), p_api(x)))
      if not _close(p_mod.deriv(x), p_api.deriv(x), 1e-7, 1e-10):
        bad.append("modifier.deriv(%r) = %r, SplinePotential gives %r" % (x, p_mod.deriv(x), p_api.deriv(x)))
    return (bool(bad), "; ".join(bad[:3]) or "modifier and class agree (zbl -> buck, detach=%r attach=%r)" % (d0, a0), dict(kind="equiv_exp", d=d0, a=a0))

  try:
    explore_and_check(res, fn, build, replay=replay, negative=lambda p: build(p, wrong=True), pc_for_vcs=_pcf,
                      vc_timeout_ms=30000, batch=False, explorer_kw=dict(max_paths=400))
  finally:
    shims.uninstall()
  return res


def int_spelling_case():
  """Concrete side layer: distances written as whole numbers (the grammar yields python ints for '1 2 3') give the
  same spline as the float spelling, through as.buck4, the spline() modifier and the Python classes, and the joins hold."""
  res = new_result("whole-number spellings of detach/r_min/attach (concrete)")
  from atsim.potentials.config import Configuration
  from atsim.potentials import potentialforms as pfm
  from atsim.potentials.spline import Buck4_SplinePotential, SplinePotential
  bad = []
  for (A, rho, C) in ((1000.0, 0.3, 30.0), (11272.6, 0.1363, 134.0)):
    for (d, m, a) in ((1, 2, 3), (2, 3, 5)):
      txt = ("[Tabulation]\ntarget : LAMMPS\ncutoff : 6.0\nnr : 7\n\n[Pair]\nA-A : as.buck4 %r %r %r %d %d %d\nA-B : as.buck4 %r %r %r %r %r %r\n"
             "B-B : spline(as.buck %r %r 0.0 >%d buck4_spline %d >%d as.buck 0.0 1.0 %r)\nB-C : spline(>0 as.buck %r %r 0.0 >=%d exp_spline >=%d as.buck 900.0 0.4 0.0)\n"
             "C-C : spline(>0 as.buck %r %r 0.0 >=%r exp_spline >=%r as.buck 900.0 0.4 0.0)\n") % (
        A, rho, C, d, m, a, A, rho, C, float(d), float(m), float(a), A, rho, d, m, a, C, A, rho, d, a, A, rho, float(d), float(a))
      tab = Configuration().read(io.StringIO(txt))
      P = {(p.speciesA, p.speciesB): p.potentialFunction for p in tab.potentials}
      ref = Buck4_SplinePotential(pfm.buck(A, rho, 0.0), pfm.buck(0.0, 1.0, C), float(d), float(a), float(m))
      p_int_api = Buck4_SplinePotential(pfm.buck(A, rho, 0.0), pfm.buck(0.0, 1.0, C), d, a, m)
      xs = [0.5 * d, d, 0.5 * (d + m), m, 0.5 * (m + a), a, a + 0.7]
      for x in xs:
        for nm, p in (("as.buck4 with whole numbers", P[("A", "A")]), ("as.buck4 with floats", P[("A", "B")]), ("spline() with whole numbers", P[("B", "B")]),
                      ("Buck4_SplinePotential with ints", p_int_api)):
          if not _close(p(x), ref(x), 1e-9, 1e-12):
            bad.append("%s gives %r at r=%r, the float spelling through the Python class %r (A=%r rho=%r C=%r, %d/%d/%d)" % (nm, p(x), x, ref(x), A, rho, C, d, m, a))
        if not _close(P[("B", "C")](x), P[("C", "C")](x), 1e-9, 1e-12):
          bad.append("exp_spline with whole-number starts gives %r at r=%r, with float starts %r" % (P[("B", "C")](x), x, P[("C", "C")](x)))
      res["paths"] += 1
      res["replays"] += 1
  for b in bad[:3]:
    res["violations"].append(dict(key="integer-spelling", desc=b))
  return res


def wide_geometry_case():
  """Concrete side layer: spline windows far out (cut-off smoothing) - the linear systems are badly conditioned there
  (1e9..1e12); LAPACK's solve still meets the join conditions to 1e-7, a rank-truncating least-squares solver does not."""
  res = new_result("join conditions for spline windows at 3..9 Angstrom (concrete)")
  from atsim.potentials import potentialforms as pfm
  from atsim.potentials.spline import Buck4_SplinePotential, SplinePotential
  bad = []

  def rel(x, y):
    return abs(x - y) <= 1e-4 * abs(y) + 1e-9
  S, E = pfm.buck(1000.0, 0.3, 0.0), pfm.buck(900.0, 0.4, 0.0)
  for d, a in ((6.0, 6.5), (8.0, 9.0), (4.8, 5.3)):
    it = SplinePotential(S, E, d, a).interpolationFunction
    for nm, f, x in (("detach", S, d), ("attach", E, a)):
      for what, g, w_ in (("value", it(x), f(x)), ("slope", it.deriv(x), f.deriv(x)), ("curvature", it.deriv2(x), f.deriv2(x))):
        if not rel(g, w_):
          bad.append("exp_spline %r..%r: %s at %s is %r, the end potential's %r" % (d, a, what, nm, g, w_))
    res["paths"] += 1
    res["replays"] += 1
  # an end potential that is exactly zero at its join (smooth truncation): the exponential form is shifted, not logged at 0
  for (S0, E0, d, a, what0) in ((pfm.bornmayer(1000.0, 0.3), pfm.zero(), 2.0, 3.0, "bornmayer -> zero"), (pfm.zero(), pfm.bornmayer(1000.0, 0.3), 0.5, 1.0, "zero -> bornmayer"),
                                (pfm.zbl(8, 8), pfm.constant(0.0), 1.0, 2.0, "zbl -> constant 0")):
    it = SplinePotential(S0, E0, d, a).interpolationFunction
    for nm, f, x in (("detach", S0, d), ("attach", E0, a)):
      e1 = f.deriv(x) if hasattr(f, "deriv") else 0.0
      e2 = f.deriv2(x) if hasattr(f, "deriv2") else 0.0
      for what, g, w_ in (("value", it(x), f(x)), ("slope", it.deriv(x), e1), ("curvature", it.deriv2(x), e2)):
        if not rel(g, w_):
          bad.append("exp_spline %s, %r..%r: %s at %s is %r, the end potential's %r" % (what0, d, a, what, nm, g, w_))
    xm = 0.5 * (d + a)
    if not (it(xm) == it(xm)):
      bad.append("exp_spline %s: value inside the region is %r" % (what0, it(xm)))
    res["paths"] += 1
    res["replays"] += 1
  S4, E4 = pfm.buck(1000.0, 0.3, 0.0), pfm.buck(0.0, 1.0, 30.0)
  for d, m, a in ((5.0, 5.5, 6.0), (4.6, 5.1, 5.6), (3.1, 3.35, 3.6)):
    it = Buck4_SplinePotential(S4, E4, d, a, m).interpolationFunction
    for nm, f, x in (("detach", S4, d), ("attach", E4, a)):
      for what, g, w_ in (("value", it(x), f(x)), ("slope", it.deriv(x), f.deriv(x)), ("curvature", it.deriv2(x), f.deriv2(x))):
        if not rel(g, w_):
          bad.append("buck4_spline %r/%r/%r: %s at %s is %r, the end potential's %r" % (d, m, a, what, nm, g, w_))
    s5, s3 = it.spline5, it.spline3
    # (the cubic piece is evaluated first, then the quintic at the same point: the pieces are independent objects)
    c3 = (s3(m), s3.deriv(m), s3.deriv2(m))
    c5 = (s5(m), s5.deriv(m), s5.deriv2(m))
    if not rel(c5[0], c3[0]) or abs(c5[1]) > 1e-6 or not rel(c5[2], c3[2]):
      bad.append("buck4_spline %r/%r/%r: at r_min (cubic piece evaluated first) values %r / %r, slope %r, curvatures %r / %r" % (d, m, a, c5[0], c3[0], c5[1], c5[2], c3[2]))
    if not rel(s5(m), s3(m)) or abs(s5.deriv(m)) > 1e-6 or not rel(s5.deriv2(m), s3.deriv2(m)):
      bad.append("buck4_spline %r/%r/%r: at r_min values %r / %r, slope %r, curvatures %r / %r" % (d, m, a, s5(m), s3(m), s5.deriv(m), s5.deriv2(m), s3.deriv2(m)))
    res["paths"] += 1
    res["replays"] += 1
  for b in bad[:3]:
    res["violations"].append(dict(key="wide-geometry-join", desc=b))
  return res


def cases(tier, seed=0):
  TT, FF, TF = (True, True), (False, False), (True, False)
  cs = [Case("exp TT/TT", exp_case, avS=TT, avE=TT), Case("exp FF/FF", exp_case, avS=FF, avE=FF),
        Case("buck4 TT/TT", buck4_case, avS=TT, avE=TT), Case("buck4 FF/FF", buck4_case, avS=FF, avE=FF),
        Case("buck4 TT/TT history", buck4_case, avS=TT, avE=TT, history=True),
        Case("exp TT/TT history", exp_case, avS=TT, avE=TT, history=True),
        Case("integer spellings", int_spelling_case), Case("wide geometry", wide_geometry_case),
        Case("equiv buck4", equiv_buck4_case), Case("equiv exp >= >=", equiv_exp_case, markers=(">=", ">="))]
  if tier == "thorough":
    for (x, y) in ((TT, FF), (FF, TT), (TF, TF), (TF, TT)):
      cs.append(Case("exp %s/%s" % (x, y), exp_case, avS=x, avE=y))
      cs.append(Case("buck4 %s/%s" % (x, y), buck4_case, avS=x, avE=y))
    cs.append(Case("equiv exp > >", equiv_exp_case, markers=(">", ">")))
    cs.append(Case("equiv exp >= >", equiv_exp_case, markers=(">=", ">")))
  return cs


def replay(path):
  return common.generic_replay(path)
