"""C07 Offered first/second derivatives are the true derivatives of the energy."""
import itertools

import z3

from symx import core, shims, jets, mathshim
from symx.core import sym, assume, uf, rv, term, lift
from symx.harness import explore_and_check, Structural
from symx.run import Case, new_result
from symx.vc import VC, eq_formula
from checks import common
from checks.forms import FORMS, sym_params

ID = "C07"
META = dict(
  functions=["potentialfunctions.<form>.__call__/deriv/deriv2 for every built-in form", "atsim.potentials.plus/product/pow",
             "_util.gradient/_GradientWrapper/deriv/num_deriv", "_modifiers.trans", "spline.Custom_SplinePotential._deriv/_deriv2/_init_deriv",
             "spline.Spline_Point", "tableforms.Cubic_Spline_Table_Form (wiring to the scipy object)", "_potential.Potential.force",
             "potentialforms._FunctionFactory / _util._rpartial"],
  bounds=dict(quick=dict(forms="all built-in forms, all parameters and r > 0 symbolic (polynomial orders 0..5)", combinators="depth <= 2, "
                         "all 64 availability combinations of (deriv, deriv2) at depth 1", r="symbolic"),
              thorough=dict(forms="polynomial orders 0..8, exponential with concrete n in -12..12 and +-1/2, 3/2", combinators="depth <= 3 (sampled at depth 3)")),
  stubs=["operands of the combinators are uninterpreted functions with derivative chains (so the VCs are the product, power and chain "
         "rules for all functions)", "scipy's spline object is replaced by three uninterpreted functions f, f', f'' (its documented contract)",
         "exp/log/sqrt/pow atoms"],
  outside=["scipy's own derivative", "numerical accuracy of the h=1e-6 central difference (only 'which stencil of which operand' is checked)",
           "range boundaries", "rounded literals (coul, zbl, tang_toennies) are checked to a relative tolerance of 1e-9 on each coefficient"],
  assumptions=["floats as reals", "trusted calculus: symx/jets.py (second-order forward-mode AD, ~100 lines)"],
  explanation="the real energy code is executed on jets (forward-mode AD over proxies); the derivative terms it yields are compared with the "
              "terms returned by the real deriv/deriv2 methods",
  max_inconclusive=dict(quick=0, thorough=0),
)

H = 0.1e-5


def cdiff(g, x):
  """central difference with the repo's stencil, over proxies"""
  x1 = x - (H / 2.0)
  x2 = x + (H / 2.0)
  return (g(x2) - g(x1)) / (x2 - x1)


# ---------------------------------------------------------------------------
# (a) built-in forms

def tol_formula(got, want, tol=1e-9):
  """|got - want| <= tol * |want| as a polynomial inequality (cross-multiplied,
  squared); used where the source holds literals rounded to ~15 digits."""
  from symx.vc import numden
  cache = {}
  n1, d1 = numden(got, cache)
  n2, d2 = numden(want, cache)
  a = n1 if d2 is None else n1 * d2
  b = n2 if d1 is None else n2 * d1
  t = rv(tol)
  return (a - b) * (a - b) <= t * t * b * b


def form_case(name, variant=None, tolerant=False):
  res = new_result("form %s%s" % (name, "" if variant is None else " %s" % (variant,)))
  from atsim.potentials import potentialfunctions as pf
  f = getattr(pf, name if name != "polynomial" else "polynomial")
  shims.install()
  mathshim.RAW_EXP = bool(tolerant)

  def fn():
    r = sym("r")
    assume(r > 0)
    if name == "polynomial":
      ps = [sym("c%d" % i) for i in range(variant + 1)]
    else:
      ps = sym_params(name)
      if name == "exponential" and variant is not None:
        ps[1] = variant
    j = f(jets.Jet(r, 1.0, 0.0), *ps)
    if not isinstance(j, jets.Jet):
      j = jets.Jet(j, 0.0, 0.0)
    return term(f.deriv(r, *ps)), term(f.deriv2(r, *ps)), term(j.d1), term(j.d2)

  def build(path, wrong=False):
    if path.exc is not None:
      raise Structural("exception", "%s: %s" % (type(path.exc).__name__, path.exc))
    d, d2, jd, jd2 = path.value
    if wrong:
      return [VC("neg", eq_formula(d + 1, jd))]
    if tolerant:
      from symx import poly
      out = []
      for nm, a, b in (("deriv", d, jd), ("deriv2", d2, jd2)):
        ok, info = poly.tolerant_equal(a, b, 1e-9)
        res["samples"].append(dict(vc="%s.%s~1e-9" % (name, nm), **info))
        out.append(VC("%s.%s~" % (name, nm), z3.BoolVal(bool(ok)), info=dict(key="form-" + nm)))
      return out
    return [VC("%s.deriv" % name, eq_formula(d, jd), info=dict(key="form-deriv")),
            VC("%s.deriv2" % name, eq_formula(d2, jd2), info=dict(key="form-deriv2"))]

  def replay(v, w, path, structural):
    return replay_form(name, variant, w)

  try:
    explore_and_check(res, fn, build, replay=replay, negative=lambda p: build(p, wrong=True), vc_timeout_ms=60000, batch=False)
  finally:
    shims.uninstall()
  return res


def replay_form(name, variant, w):
  """Concrete: analytic deriv/deriv2 of the real form versus high-order finite
  differences of its energy at the witness (or a default point)."""
  from atsim.potentials import potentialfunctions as pf
  f = getattr(pf, name)
  r = w.get("r", 1.7)
  if not (isinstance(r, float) and 0.05 < r < 50):
    r = 1.7
  if name == "polynomial":
    ps = [float(w.get("c%d" % i, 0.5 + i)) for i in range(variant + 1)]
  else:
    ps = []
    for n in FORMS[name][0]:
      v = w.get(n)
      ps.append(v if isinstance(v, float) and 1e-3 < abs(v) < 1e3 else 1.3)
    if name == "exponential" and variant is not None:
      ps[1] = variant
  bad = []
  try:
    def e(x):
      return f(x, *ps)
    h = 1e-4 * max(1.0, abs(r))
    d_num = (-e(r + 2 * h) + 8 * e(r + h) - 8 * e(r - h) + e(r - 2 * h)) / (12 * h)
    d2_num = (-e(r + 2 * h) + 16 * e(r + h) - 30 * e(r) + 16 * e(r - h) - e(r - 2 * h)) / (12 * h * h)
    d, d2 = f.deriv(r, *ps), f.deriv2(r, *ps)
    if abs(d - d_num) > 1e-5 * max(1.0, abs(d_num)):
      bad.append("deriv(%r)=%r, finite difference %r (params %r)" % (r, d, d_num, ps))
    if abs(d2 - d2_num) > 1e-4 * max(1.0, abs(d2_num)):
      bad.append("deriv2(%r)=%r, finite difference %r (params %r)" % (r, d2, d2_num, ps))
  except Exception as ex:
    return (False, "replay point outside the form's domain: %s" % ex, {})
  return (bool(bad), "; ".join(bad) or "analytic derivatives agree with finite differences at the witness", dict(kind="form", form=name, r=r, params=ps))


# ---------------------------------------------------------------------------
# (b),(c) combinators over uninterpreted operands

OPS = ("plus", "product", "pow")


def leaf_spec(name, avail, x):
  """Jet the specification assigns to leaf `name` at x: offered analytic
  derivative where the leaf has one, else the central difference of that leaf
  (and of its first derivative)."""
  f = z3.Function(name, core.R, core.R)
  d = z3.Function("d_" + name, core.R, core.R)
  d2 = z3.Function("d2_" + name, core.R, core.R)

  def F(y): return core.SReal(f(term(y)))
  def D(y): return core.SReal(d(term(y))) if avail[0] else cdiff(F, y)
  def D2(y): return core.SReal(d2(term(y))) if avail[1] else cdiff(D, y)
  return jets.Jet(F(x), D(x), D2(x))


def tree_eval_real(tree, leaves, nodes=None):
  import atsim.potentials as ap
  if isinstance(tree, str):
    return leaves[tree]
  op, a, b = tree
  obj = getattr(ap, op)(tree_eval_real(a, leaves, nodes), tree_eval_real(b, leaves, nodes))
  if nodes is not None:
    nodes.append((tree, obj))
  return obj


def tree_offers(tree, avail):
  """(has deriv, has deriv2) the statement expects the combination to offer."""
  if isinstance(tree, str):
    return avail[tree]
  _op, a, b = tree
  da, d2a = tree_offers(a, avail)
  db, d2b = tree_offers(b, avail)
  hd = da or db
  return (hd, hd and (d2a or d2b))


def tree_spec(tree, avail, x):
  if isinstance(tree, str):
    return leaf_spec(tree, avail[tree], x)
  op, a, b = tree
  ja, jb = tree_spec(a, avail, x), tree_spec(b, avail, x)
  if op == "plus":
    return ja + jb
  if op == "product":
    return ja * jb
  return ja ** jb


def tree_leaves(tree, acc=None):
  acc = [] if acc is None else acc
  if isinstance(tree, str):
    if tree not in acc:
      acc.append(tree)
  else:
    tree_leaves(tree[1], acc)
    tree_leaves(tree[2], acc)
  return acc


def tree_str(tree):
  return tree if isinstance(tree, str) else "%s(%s,%s)" % (tree[0], tree_str(tree[1]), tree_str(tree[2]))


def comb_case(tree, avail, operands=False):
  """avail: {leaf: (deriv offered, deriv2 offered)}.  operands=True: instead of the combination itself, every inner
  combination is checked after the outer one was built (operands are unaffected by having been combined)."""
  res = new_result("comb %s avail=%s%s" % (tree_str(tree), "".join("%s%d%d" % (k, a[0], a[1]) for k, a in sorted(avail.items())),
                                         " (operands after combination)" if operands else ""))
  shims.install(extra_globals={"atsim.potentials": {"math": mathshim}})
  depth1 = not any(isinstance(t, tuple) for t in tree[1:])

  def fn():
    r = sym("r")
    leaves = {k: uf(k, deriv=a[0], deriv2=a[1]) for k, a in avail.items()}
    if any(tree_has_pow_base(tree, k) for k in leaves):
      pass
    nodes = []
    pot = tree_eval_real(tree, leaves, nodes)
    hd, hd2 = hasattr(pot, "deriv"), hasattr(pot, "deriv2")
    if operands:
      inner = []
      for (t, obj) in nodes[:-1]:
        d1 = not any(isinstance(x, tuple) for x in t[1:])
        sp = tree_spec(t, avail, r) if d1 else nested_spec(t, avail, r)
        ihd = hasattr(obj, "deriv")
        inner.append((tree_str(t), [term(obj(r)), term(obj.deriv(r)) if ihd else None, None], [term(sp.v), term(sp.d1), term(sp.d2)]))
      return None, None, (hd, hd2), inner
    got = [term(pot(r)), term(pot.deriv(r)) if hd else None, term(pot.deriv2(r)) if hd2 else None]
    if depth1:
      spec = tree_spec(tree, avail, r)
    else:
      # nested: inner combinations are themselves callables offering (or not) derivatives;
      # specification: outer rule applied to what each child offers, else central difference of the child
      spec = nested_spec(tree, avail, r)
    inner = []
    return got, [term(spec.v), term(spec.d1), term(spec.d2)], (hd, hd2), inner

  def build(path, wrong=False):
    if path.exc is not None:
      raise Structural("exception", "%s: %s" % (type(path.exc).__name__, path.exc))
    got, want, (hd, hd2), inner = path.value
    if operands:
      vcs = []
      for (nm, g, wnt) in inner:
        for i, what in enumerate(("value", "deriv", "deriv2")):
          if g[i] is not None:
            wv = wnt[i] + 1 if (wrong and i == 0) else wnt[i]
            vcs.append(VC("operand %s after combination: %s" % (nm, what), eq_formula(g[i], wv), info=dict(key="comb-operand-changed-%s" % what)))
      return vcs
    exp_hd, exp_hd2 = tree_offers(tree, avail)
    if (hd, hd2) != (exp_hd, exp_hd2):
      raise Structural("offered", "%s offers deriv=%s deriv2=%s, expected %s %s" % (tree_str(tree), hd, hd2, exp_hd, exp_hd2))
    if wrong:
      return [VC("neg", eq_formula(got[0] + 1, want[0]))]
    vcs = [VC("value", eq_formula(got[0], want[0]), info=dict(key="comb-value"))]
    if hd:
      vcs.append(VC("deriv", eq_formula(got[1], want[1]), info=dict(key="comb-deriv-%s" % tree[0])))
    if hd2:
      vcs.append(VC("deriv2", eq_formula(got[2], want[2]), info=dict(key="comb-deriv2-%s" % tree[0])))
    for (nm, g, wnt) in inner:
      for i, what in enumerate(("value", "deriv", "deriv2")):
        if g[i] is not None:
          vcs.append(VC("operand %s after combination: %s" % (nm, what), eq_formula(g[i], wnt[i]), info=dict(key="comb-operand-changed-%s" % what)))
    return vcs

  def replay(v, w, path, structural):
    return replay_comb(tree, avail, w)

  try:
    explore_and_check(res, fn, build, replay=replay, negative=lambda p: build(p, wrong=True), vc_timeout_ms=60000, batch=False)
  finally:
    shims.uninstall()
  return res


def tree_has_pow_base(tree, k):
  return False


def nested_spec(tree, avail, x):
  """Specification jet for nested trees.  A child that offers deriv (deriv2)
  contributes that; a child that does not is differentiated numerically as a
  whole (central difference of the child's value / first derivative)."""
  if isinstance(tree, str):
    return leaf_spec(tree, avail[tree], x)
  op, a, b = tree

  def child(t):
    hd, hd2 = tree_offers(t, avail)

    def V(y): return nested_spec(t, avail, y).v
    def D(y): return nested_spec(t, avail, y).d1 if hd else cdiff(V, y)
    def D2(y): return nested_spec(t, avail, y).d2 if hd2 else cdiff(D, y)
    return jets.Jet(V(x), D(x), D2(x))
  ja, jb = child(a), child(b)
  if op == "plus":
    return ja + jb
  if op == "product":
    return ja * jb
  return ja ** jb


def replay_comb(tree, avail, w):
  """Concrete: smooth positive functions for the leaves; real combinators; the
  derivative offered versus finite differences of the combination's value."""
  import math
  import atsim.potentials as ap
  r = w.get("r", 1.3)
  if not (isinstance(r, float) and 0.2 < r < 5):
    r = 1.3

  def mk(i, a):
    A, B = 1.5 + 0.4 * i, 0.3 + 0.1 * i

    class L(object):
      def __call__(self, x): return A + math.sin(B * x) * 0.5
    l = L()
    if a[0]:
      l.deriv = lambda x: 0.5 * B * math.cos(B * x)
    if a[1]:
      l.deriv2 = lambda x: -0.5 * B * B * math.sin(B * x)
    return l
  leaves = {k: mk(i, avail[k]) for i, k in enumerate(sorted(avail))}
  nodes = []
  pot = tree_eval_real(tree, leaves, nodes)
  bad = []
  h = 1e-3
  # every inner combination still is its own function after having been used as an operand
  for (t, obj) in nodes[:-1]:
    fresh = tree_eval_real(t, leaves)
    if abs(obj(r) - fresh(r)) > 1e-12 * max(1.0, abs(fresh(r))):
      bad.append("%s evaluates to %r after being used as an operand of %s, a freshly built one to %r" % (tree_str(t), obj(r), tree_str(tree), fresh(r)))
    if hasattr(obj, "deriv"):
      dn = (-obj(r + 2 * h) + 8 * obj(r + h) - 8 * obj(r - h) + obj(r - 2 * h)) / (12 * h)
      if abs(obj.deriv(r) - dn) > 1e-4 * max(1.0, abs(dn)):
        bad.append("%s.deriv(%r)=%r but the slope of its value is %r (after being used as an operand)" % (tree_str(t), r, obj.deriv(r), dn))
  e = pot
  d_num = (-e(r + 2 * h) + 8 * e(r + h) - 8 * e(r - h) + e(r - 2 * h)) / (12 * h)
  d2_num = (-e(r + 2 * h) + 16 * e(r + h) - 30 * e(r) + 16 * e(r - h) - e(r - 2 * h)) / (12 * h * h)
  if hasattr(pot, "deriv") and abs(pot.deriv(r) - d_num) > 1e-4 * max(1.0, abs(d_num)):
    bad.append("deriv(%r)=%r but the slope of the value is %r" % (r, pot.deriv(r), d_num))
  if hasattr(pot, "deriv2") and abs(pot.deriv2(r) - d2_num) > 2e-3 * max(1.0, abs(d2_num)):
    bad.append("deriv2(%r)=%r but the curvature of the value is %r" % (r, pot.deriv2(r), d2_num))
  exp_hd, exp_hd2 = tree_offers(tree, avail)
  if (hasattr(pot, "deriv"), hasattr(pot, "deriv2")) != (exp_hd, exp_hd2):
    bad.append("offers deriv=%s deriv2=%s expected %s %s" % (hasattr(pot, "deriv"), hasattr(pot, "deriv2"), exp_hd, exp_hd2))
  return (bool(bad), "; ".join(bad) or "derivatives agree with finite differences", dict(kind="comb", tree=tree_str(tree), r=r))


# ---------------------------------------------------------------------------
# (d) trans, (f) spline region dispatch, (g) table-form wiring, (h) Potential.force

def trans_case(avail):
  res = new_result("trans avail=%s" % (avail,))
  from atsim.potentials import _modifiers
  from atsim.potentials.config._common import PotentialFormInstanceTuple, MultiRangeDefinitionTuple

  class Builder(object):
    def create_potential_function(self, t):
      return self.f

  def fn():
    r, X = sym("r"), sym("X")
    b = Builder()
    b.f = uf("a", deriv=avail[0], deriv2=avail[1])
    st = MultiRangeDefinitionTuple(">", 0.0)
    t1 = PotentialFormInstanceTuple("whatever", [], st, None)
    t2 = PotentialFormInstanceTuple("as.constant", [X], st, None)
    g = _modifiers.trans([t1, t2], b)
    return (term(g(r)), term(g.deriv(r)) if hasattr(g, "deriv") else None, term(g.deriv2(r)) if hasattr(g, "deriv2") else None)

  r, X = z3.Real("r"), z3.Real("X")

  def build(path, wrong=False):
    if path.exc is not None:
      raise Structural("exception", "%s: %s" % (type(path.exc).__name__, path.exc))
    v, d, d2 = path.value
    if (d is not None, d2 is not None) != tuple(avail):
      raise Structural("offered", "trans() offers deriv=%s deriv2=%s for an argument offering %s" % (d is not None, d2 is not None, avail))
    x = (r - X) if wrong else (r + X)
    vcs = [VC("trans.value", v == z3.Function("a", core.R, core.R)(x), info=dict(key="trans-value"))]
    if d is not None:
      vcs.append(VC("trans.deriv", d == z3.Function("d_a", core.R, core.R)(x), info=dict(key="trans-deriv")))
    if d2 is not None:
      vcs.append(VC("trans.deriv2", d2 == z3.Function("d2_a", core.R, core.R)(x), info=dict(key="trans-deriv2")))
    return vcs

  def replay(v, w, path, structural):
    import math
    class A(object):
      def __call__(self, x): return math.exp(-0.5 * x)
      def deriv(self, x): return -0.5 * math.exp(-0.5 * x)
      def deriv2(self, x): return 0.25 * math.exp(-0.5 * x)
    b = Builder()
    b.f = A()
    st = MultiRangeDefinitionTuple(">", 0.0)
    g = _modifiers.trans([PotentialFormInstanceTuple("x", [], st, None), PotentialFormInstanceTuple("as.constant", [0.75], st, None)], b)
    bad = []
    if abs(g(1.0) - b.f(1.75)) > 1e-12 or abs(g.deriv(1.0) - b.f.deriv(1.75)) > 1e-12 or abs(g.deriv2(1.0) - b.f.deriv2(1.75)) > 1e-12:
      bad.append("trans(f, 0.75) at r=1: %r %r %r" % (g(1.0), g.deriv(1.0), g.deriv2(1.0)))
    return (bool(bad), "; ".join(bad) or "agrees", {})

  explore_and_check(res, fn, build, replay=replay, negative=lambda p: build(p, wrong=True))
  return res


def spline_dispatch_case(avail_start, avail_end, avail_mid):
  """Custom_SplinePotential over a stub spline: in each of the three regions the
  value / deriv / deriv2 come from that region's function (analytic where
  offered, central difference of that function otherwise)."""
  res = new_result("spline-dispatch start=%s end=%s mid=%s" % (avail_start, avail_end, avail_mid))
  from atsim.potentials.spline import Custom_SplinePotential, Spline_Point
  av = {"S": avail_start, "E": avail_end, "M": avail_mid}

  def fn():
    r, d, a = sym("r"), sym("detach"), sym("attach")
    assume(d < a)
    fs = {k: uf(k, deriv=v[0], deriv2=v[1]) for k, v in av.items()}

    class Spl(object):
      detach_point = Spline_Point(fs["S"], d)
      attach_point = Spline_Point(fs["E"], a)

      def __call__(self, x):
        return fs["M"](x)
    spl = Spl()
    if av["M"][0]:
      spl.deriv = fs["M"].deriv
    if av["M"][1]:
      spl.deriv2 = fs["M"].deriv2
    sp = Custom_SplinePotential(spl)
    hd, hd2 = hasattr(sp, "deriv"), hasattr(sp, "deriv2")
    return (term(sp(r)), term(sp.deriv(r)) if hd else None, term(sp.deriv2(r)) if hd2 else None)

  r, d, a = z3.Real("r"), z3.Real("detach"), z3.Real("attach")

  def build(path, wrong=False):
    if path.exc is not None:
      raise Structural("exception", "%s: %s" % (type(path.exc).__name__, path.exc))
    v, d1, d2 = path.value
    any_d = any(x[0] for x in av.values())
    any_d2 = any(x[1] for x in av.values())
    if (d1 is not None, d2 is not None) != (any_d, any_d2):
      raise Structural("offered", "splined potential offers deriv=%s deriv2=%s for %r" % (d1 is not None, d2 is not None, av))
    vcs = []
    regions = [("S", r <= d), ("E", z3.And(r > d, r >= a)), ("M", z3.And(r > d, r < a))]
    if wrong:
      regions = [("E", r <= d), ("S", z3.And(r > d, r >= a)), ("M", z3.And(r > d, r < a))]
    for k, cond in regions:
      sp = leaf_spec(k, av[k], core.SReal(r))
      vcs.append(VC("region%s.value" % k, z3.Implies(cond, eq_formula(v, term(sp.v))), info=dict(key="spline-region-value")))
      if d1 is not None:
        vcs.append(VC("region%s.deriv" % k, z3.Implies(cond, eq_formula(d1, term(sp.d1))), info=dict(key="spline-region-deriv")))
      if d2 is not None:
        vcs.append(VC("region%s.deriv2" % k, z3.Implies(cond, eq_formula(d2, term(sp.d2))), info=dict(key="spline-region-deriv2")))
    return vcs

  holder = {}

  def build2(path, wrong=False):
    # leaf_spec creates proxies: needs a run context; build inside a tiny exploration
    out = {}

    def inner():
      out["v"] = build(path, wrong)
      return None
    core.Explorer().explore(inner)
    return out["v"]

  def replay(v, w, path, structural):
    import math

    def mk(i, a_):
      A, B = 1.5 + 0.4 * i, 0.3 + 0.1 * i

      class L(object):
        def __call__(self, x): return A + math.sin(B * x) * 0.5
      l = L()
      l.true_d = lambda x: 0.5 * B * math.cos(B * x)
      l.true_d2 = lambda x: -0.5 * B * B * math.sin(B * x)
      if a_[0]:
        l.deriv = l.true_d
      if a_[1]:
        l.deriv2 = l.true_d2
      return l
    fs = {k: mk(i, av[k]) for i, k in enumerate(("S", "E", "M"))}
    dv, at = 1.0, 2.5
    if isinstance(w.get("detach"), float) and isinstance(w.get("attach"), float) and w["detach"] < w["attach"]:
      dv, at = w["detach"], w["attach"]

    class Spl(object):
      detach_point = Spline_Point(fs["S"], dv)
      attach_point = Spline_Point(fs["E"], at)

      def __call__(self, x):
        return fs["M"](x)
    spl = Spl()
    if av["M"][0]:
      spl.deriv = fs["M"].deriv
    if av["M"][1]:
      spl.deriv2 = fs["M"].deriv2
    sp = Custom_SplinePotential(spl)
    pts = [dv - 0.5, dv, 0.5 * (dv + at), at, at + 0.5]
    if isinstance(w.get("r"), float):
      pts.append(w["r"])
    bad = []
    for x in pts:
      k = "S" if x <= dv else ("E" if x >= at else "M")
      f = fs[k]
      if abs(sp(x) - f(x)) > 1e-12:
        bad.append("value at r=%r is not the %s function" % (x, k))
      if hasattr(sp, "deriv") and abs(sp.deriv(x) - f.true_d(x)) > 1e-5:
        bad.append("deriv at r=%r = %r, %s function's slope %r" % (x, sp.deriv(x), k, f.true_d(x)))
      if hasattr(sp, "deriv2") and abs(sp.deriv2(x) - f.true_d2(x)) > 1e-3:
        bad.append("deriv2 at r=%r = %r, %s function's curvature %r" % (x, sp.deriv2(x), k, f.true_d2(x)))
    return (bool(bad), "; ".join(bad[:3]) or "region dispatch agrees", dict(kind="spline_dispatch", detach=dv, attach=at))

  explore_and_check(res, fn, build2, replay=replay, negative=lambda p: build2(p, wrong=True))
  return res


def tableform_case():
  res = new_result("table-form wiring")
  import scipy.interpolate as si
  from atsim.potentials import tableforms
  calls = {}

  class Der(object):
    def __init__(self, order):
      self.order = order

    def __call__(self, x):
      return core.SReal(z3.Function(["f", "d_f", "d2_f"][self.order], core.R, core.R)(term(x)))

    def derivative(self):
      return Der(self.order + 1)

  class Stub(Der):
    def __init__(self, x, y, **kw):
      Der.__init__(self, 0)
      calls["args"] = (list(x), list(y), kw)

  def fn():
    r = sym("r")
    tf = tableforms.Cubic_Spline_Table_Form([0.0, 1.0, 2.0, 3.0], [1.0, 0.5, 0.25, 0.0])
    return term(tf(r)), term(tf.deriv(r)), term(tf.deriv2(r))

  r = z3.Real("r")

  def build(path, wrong=False):
    if path.exc is not None:
      raise Structural("exception", "%s: %s" % (type(path.exc).__name__, path.exc))
    v, d, d2 = path.value
    x, y, kw = calls["args"]
    if kw.get("ext") not in (1, "zeros") or x != [0.0, 1.0, 2.0, 3.0] or y != [1.0, 0.5, 0.25, 0.0]:
      raise Structural("scipy-args", "interpolant built with x=%r y=%r %r" % (x, y, kw))
    names = ["f", "d_f", "d2_f"]
    if wrong:
      names = ["d_f", "f", "d2_f"]
    return [VC("table.value", v == z3.Function(names[0], core.R, core.R)(r), info=dict(key="table-value")),
            VC("table.deriv", d == z3.Function(names[1], core.R, core.R)(r), info=dict(key="table-deriv")),
            VC("table.deriv2", d2 == z3.Function(names[2], core.R, core.R)(r), info=dict(key="table-deriv2"))]

  def replay(v, w, path, structural):
    tf = tableforms.Cubic_Spline_Table_Form([0.0, 1.0, 2.0, 3.0, 4.0], [1.0, 0.5, 0.25, 0.125, 0.0])
    h = 1e-4
    x0 = 1.7
    dn = (tf(x0 + h) - tf(x0 - h)) / (2 * h)
    d2n = (tf(x0 + h) - 2 * tf(x0) + tf(x0 - h)) / (h * h)
    bad = []
    if abs(tf.deriv(x0) - dn) > 1e-5 or abs(tf.deriv2(x0) - d2n) > 1e-3:
      bad.append("deriv %r vs %r, deriv2 %r vs %r" % (tf.deriv(x0), dn, tf.deriv2(x0), d2n))
    return (bool(bad), "; ".join(bad) or "agrees", {})

  saved = si.InterpolatedUnivariateSpline
  si.InterpolatedUnivariateSpline = Stub
  shims.install()
  try:
    explore_and_check(res, fn, build, replay=replay, negative=lambda p: build(p, wrong=True))
  finally:
    shims.uninstall()
    si.InterpolatedUnivariateSpline = saved
  res["stubs"].append("scipy.interpolate.InterpolatedUnivariateSpline -> f, f', f'' uninterpreted")
  return res


def force_case(avail):
  res = new_result("Potential.force avail=%s" % (avail,))
  from atsim.potentials import Potential

  def fn():
    r = sym("r")
    p = Potential("A", "B", uf("U", deriv=avail[0], deriv2=avail[1]))
    return term(p.energy(r)), term(p.force(r))

  r = z3.Real("r")

  def build(path, wrong=False):
    e, f = path.value
    U = z3.Function("U", core.R, core.R)
    dU = z3.Function("d_U", core.R, core.R)
    if avail[0]:
      want = -dU(r)
    else:
      hh = rv(1e-6)
      r2, r1 = r + hh / 2, r - hh / 2
      want = -((U(r2) - U(r1)) / (r2 - r1))
    if wrong:
      want = -want
    return [VC("energy", e == U(r), info=dict(key="force-energy")), VC("force", eq_formula(f, want), info=dict(key="force"))]

  def replay(v, w, path, structural):
    import math
    class U(object):
      def __call__(self, x): return math.exp(-x)
      def deriv(self, x): return -math.exp(-x)
    p = Potential("A", "B", U() if avail[0] else (lambda x: math.exp(-x)))
    bad = [] if abs(p.force(1.0) - math.exp(-1.0)) < 1e-6 else ["force(1.0)=%r expected %r" % (p.force(1.0), math.exp(-1.0))]
    return (bool(bad), "; ".join(bad) or "agrees", {})

  explore_and_check(res, fn, build, replay=replay, negative=lambda p: build(p, wrong=True))
  return res


def cases(tier, seed=0):
  cs = []
  for name, (params, kind) in sorted(FORMS.items()):
    if kind == "exact":
      cs.append(Case("form %s" % name, form_case, name=name))
    else:
      cs.append(Case("form %s (tolerant 1e-9)" % name, form_case, name=name, tolerant=True))
  for order in range(0, 6 if tier == "quick" else 9):
    cs.append(Case("form polynomial order %d" % order, form_case, name="polynomial", variant=order))
  ns = [-2, -1, 0, 1, 2, 3, 0.5, -0.5, 1.5] if tier == "quick" else list(range(-12, 13)) + [0.5, -0.5, 1.5, -1.5, 2.5]
  for n in ns:
    cs.append(Case("form exponential n=%r" % n, form_case, name="exponential", variant=n))
  AV = [(False, False), (True, False), (True, True)]
  for op in OPS:
    for aa in AV:
      for ab in AV:
        cs.append(Case("comb %s %s %s" % (op, aa, ab), comb_case, tree=(op, "a", "b"), avail={"a": aa, "b": ab}))
    cs.append(Case("comb %s same operand" % op, comb_case, tree=(op, "a", "a"), avail={"a": (True, True)}))
  full = (True, True)
  trees2 = []
  for op in OPS:
    for l in ["a"] + [(o, "a", "b") for o in OPS]:
      for rr in ["c"] + [(o, "c", "d") for o in OPS]:
        if isinstance(l, str) and isinstance(rr, str):
          continue
        trees2.append((op, l, rr))
  if tier == "quick":
    trees2 = trees2[::3]
  for i, t in enumerate(trees2):
    av = {k: full for k in tree_leaves(t)}
    cs.append(Case("comb2 %s" % tree_str(t), comb_case, tree=t, avail=av))
    if "pow" not in tree_str(t) or tier == "thorough":
      cs.append(Case("comb2 %s operands" % tree_str(t), comb_case, tree=t, avail=av, operands=True))
    if i % 4 == 0:
      av2 = dict(av)
      first = tree_leaves(t)[0]
      av2[first] = (True, False)
      cs.append(Case("comb2 %s mixed" % tree_str(t), comb_case, tree=t, avail=av2))
  if tier == "thorough":
    import random
    rnd = random.Random(11)
    for k in range(24):
      def gen(d):
        if d == 0 or (d < 3 and rnd.random() < 0.3):
          return rnd.choice("abcd")
        return (rnd.choice(OPS), gen(d - 1), gen(d - 1))
      t = (rnd.choice(OPS), gen(2), gen(2))
      cs.append(Case("comb3 %s" % tree_str(t), comb_case, tree=t, avail={k2: full for k2 in tree_leaves(t)}))
  for av in AV:
    cs.append(Case("trans %s" % (av,), trans_case, avail=av))
    cs.append(Case("force %s" % (av,), force_case, avail=av))
  for (s, e, m) in [(full, full, full), ((True, False), full, full), ((False, False), full, (True, False)),
                    ((False, False), (False, False), full), (full, (True, False), (False, False))]:
    cs.append(Case("spline-dispatch %s %s %s" % (s, e, m), spline_dispatch_case, avail_start=s, avail_end=e, avail_mid=m))
  cs.append(Case("table-form wiring", tableform_case))
  # (e) multi-range potentials: derivatives come from the selected range (harness shared with C08)
  from checks import c08
  for n in (2, 3):
    for markers in itertools.product([">", ">="], repeat=n):
      perms = list(itertools.permutations(range(n)))
      for perm in (perms if n == 2 or tier == "thorough" else perms[1::2]):
        cs.append(Case("multirange n=%d %s %s" % (n, "".join("G" if m == ">=" else "g" for m in markers), "".join(map(str, perm))),
                       c08.api_case, n=n, markers=markers, perm=perm))
  for avail in ([(False, False), (True, True)], [(True, False), (False, False)], [(True, True), (True, False)]):
    cs.append(Case("multirange mixed %s" % (avail,), c08.api_case, n=2, markers=(">", ">="), perm=(1, 0), avail=avail))
  return cs


def replay(path):
  return common.generic_replay(path)
