"""C09 potable model language: modifiers and custom formulas mean what is documented."""
import functools
import io
import itertools
import math
import random
import sys

import z3

from symx import core, shims, mathshim, exprstub, xhrun
from symx.core import sym, assume, uf, rv, term
from symx.harness import explore_and_check, Structural
from symx.run import Case, new_result
from symx.vc import VC, eq_formula
from checks import common
from specs import potential_forms as spec

ID = "C09"
META = dict(
  functions=["_modifiers.sum/product/pow/trans/_modifier_from_func_reduce", "atsim.potentials.plus/product/pow", "config._multi_range_parser.multi_range_parser (pyparsing grammar)",
             "config._config_parser.ConfigParser._parse_multi_range/_descend_tree/_descend_potential_modifier/_descend_potential_description/parse_pair_like/eam_embed/eam_density/eam_density_fs/potential_form/_parse_potential_form_signature",
             "config._potential_form_builder.Potential_Form_Builder", "config._modifier_registry.Modifier_Registry", "config._potential_form_registry.Potential_Form_Registry "
             "(_register_standard/_build_potential_forms/_register_with_each_other/_register_pymath_functions/_register_from_potentialforms)",
             "config._cexprtk_potential_function._Cexptrk_Potential_Function", "config._python_potential_function._Python_Potential_Function", "config._potential_form.Potential_Form/_Check_Call",
             "config._pair_potential_builder.Pair_Potential_Builder/Pair_Potentials_From_Tuples_Builder", "config._eam_potential_builder.EAM_Potential_Builder/EAM_Potential_Builder_FS",
             "config._pymath (exp, log, sqrt, pow)", "config._config_parser._ConfigParserDict._key_transform"],
  bounds=dict(quick=dict(definitions="grammar-generated definitions of nesting depth <= 2 (fixed list + 12 random), every numeral a symbolic parameter, r symbolic",
                         sections="[Pair], [EAM-Embed], [EAM-Density] (plain and A->B), [EAM-ADP-Dipole], [EAM-ADP-Quadrupole]",
                         custom_forms="7 formula models (positional binding with permuted names, forms calling forms with different arguments in either listing order, as.* and pymath.* calls, if()), all parameters symbolic",
                         keys="_key_transform: strings of <= 4 characters (CrossHair)"),
              thorough=dict(definitions="depth <= 3, 60 random definitions", sections="as quick", custom_forms="as quick", keys="<= 5 characters")),
  stubs=["cexprtk -> symx/exprstub.py (evaluator for the documented expression subset over proxies; validated against the real cexprtk on every run)",
         "numeric parameters are replaced by symbols after the real parser has produced its tuples (placeholder numerals)", "exp/log/sqrt/pow atoms"],
  outside=["exprtk's own evaluation of expressions (C++)", "pyparsing/configparser on symbolic text (text is generated concretely; formatting variants are a concrete side layer)"],
  assumptions=["floats as reals", "the reference formulas in specs/potential_forms.py"],
  explanation="each generated definition is parsed by the real grammar, its numerals become symbolic parameters, the real builder makes the callable and z3 decides "
              "that its value at symbolic r equals the same tree composed through the Python API (plus/product/pow, potentialforms.*, multi-range objects) / "
              "the formula evaluated with explicitly bound parameters",
  max_inconclusive=dict(quick=0, thorough=0),
)

R = core.R

# ---------------------------------------------------------------------------
# definitions generated from the documented grammar

LEAVES = [("as.constant", 1), ("as.polynomial", 2), ("as.polynomial", 3), ("as.buck", 3), ("as.morse", 3), ("as.lj", 2), ("as.bornmayer", 2), ("as.hbnd", 2)]
MODS = ["sum", "product", "pow", "trans"]


class Gen(object):
  def __init__(self, rnd):
    self.rnd = rnd
    self.ntag = 0

  def tag(self):
    self.ntag += 1
    return 100.0 + self.ntag

  def leaf(self, which=None):
    name, n = which or self.rnd.choice(LEAVES)
    return ("leaf", name, [self.tag() for _ in range(n)])

  def node(self, depth):
    if depth <= 0 or self.rnd.random() < 0.35:
      return self.leaf()
    m = self.rnd.choice(MODS)
    if m == "trans":
      return ("mod", "trans", [self.defn(depth - 1, 1), [(None, self.leaf(("as.constant", 1)))]])
    n = 2 if m == "pow" else self.rnd.choice([2, 2, 3])
    return ("mod", m, [self.defn(depth - 1, self.rnd.choice([1, 1, 2])) for _ in range(n)])

  def defn(self, depth, nranges):
    items = []
    start = 0.0
    for i in range(nranges):
      if i == 0 and self.rnd.random() < 0.5 and nranges == 1:
        rng = None
      else:
        start = start + self.rnd.choice([0.0, 0.75, 1.5]) if i else self.rnd.choice([0.0, 0.5])
        if i and start <= items[-1][0][1] if items and items[-1][0] else False:
          start = items[-1][0][1] + 0.75
        rng = (self.rnd.choice([">", ">="]), start)
      items.append((rng, self.node(depth)))
    return items


def render(defn, ws=" "):
  parts = []
  for rng, node in defn:
    pre = "%s%r%s" % (rng[0], rng[1], ws) if rng else ""
    if node[0] == "leaf":
      parts.append(pre + node[1] + ws + ws.join(repr(t) for t in node[2]))
    else:
      parts.append(pre + "%s(%s)" % (node[1], ("," + ws).join(render(d, ws) for d in node[2])))
  return ws.join(parts)


def tags_of(defn, acc=None):
  acc = [] if acc is None else acc
  for rng, node in defn:
    if node[0] == "leaf":
      acc.extend(node[2])
    else:
      for d in node[2]:
        tags_of(d, acc)
  return acc


def api_build(defn, tab):
  """The same tree composed through the Python API."""
  import atsim.potentials as ap
  from atsim.potentials import potentialforms as pfm
  from atsim.potentials._multi_range_potential_form import Multi_Range_Defn, create_Multi_Range_Potential_Form

  def node_fn(node):
    if node[0] == "leaf":
      return getattr(pfm, node[1][3:])(*[tab[t] for t in node[2]])
    kids = node[2]
    if node[1] == "trans":
      f = api_build(kids[0], tab)
      X = tab[kids[1][0][1][2][0]]
      return lambda r: f(r + X)
    fs = [api_build(d, tab) for d in kids]
    op = dict(sum=ap.plus, product=ap.product, pow=ap.pow)[node[1]]
    return functools.reduce(op, fs)
  items = []
  for rng, node in defn:
    rt, st = rng or (">", 0.0)
    items.append(Multi_Range_Defn(rt, st, node_fn(node)))
  return create_Multi_Range_Potential_Form(*items)


FIXED = [
  [(None, ("mod", "sum", [[(None, ("leaf", "as.buck", [101.0, 102.0, 103.0]))], [(None, ("leaf", "as.polynomial", [104.0, 105.0]))]]))],
  [(None, ("mod", "product", [[(None, ("leaf", "as.polynomial", [101.0, 102.0]))], [(None, ("leaf", "as.morse", [103.0, 104.0, 105.0]))]]))],
  [(None, ("mod", "pow", [[(None, ("leaf", "as.polynomial", [101.0, 102.0]))], [(None, ("leaf", "as.constant", [103.0]))]]))],
  [(None, ("mod", "trans", [[(None, ("leaf", "as.buck", [101.0, 102.0, 103.0]))], [(None, ("leaf", "as.constant", [104.0]))]]))],
  [(None, ("mod", "sum", [[(None, ("leaf", "as.constant", [101.0]))], [(None, ("leaf", "as.constant", [102.0]))], [(None, ("leaf", "as.lj", [103.0, 104.0]))]]))],
  # trans() of definitions that themselves begin with as.constant (the shift is the SECOND argument)
  [(None, ("mod", "trans", [[(None, ("leaf", "as.constant", [101.0]))], [(None, ("leaf", "as.constant", [102.0]))]]))],
  [(None, ("mod", "trans", [[(None, ("leaf", "as.constant", [101.0])), ((">=", 1.0), ("leaf", "as.buck", [102.0, 103.0, 104.0]))], [(None, ("leaf", "as.constant", [105.0]))]]))],
  [((">=", 0.0), ("leaf", "as.constant", [101.0])), ((">", 1.5), ("mod", "product", [[(None, ("leaf", "as.constant", [102.0]))], [((">", 2.0), ("leaf", "as.polynomial", [103.0, 104.0]))]]))],
  [(None, ("mod", "sum", [[(None, ("mod", "product", [[(None, ("leaf", "as.constant", [101.0]))], [(None, ("leaf", "as.bornmayer", [102.0, 103.0]))]]))],
                          [((">", 1.0), ("mod", "trans", [[(None, ("leaf", "as.polynomial", [104.0, 105.0, 106.0]))], [(None, ("leaf", "as.constant", [107.0]))]]))]]))],
  [(None, ("mod", "pow", [[(None, ("mod", "sum", [[(None, ("leaf", "as.constant", [101.0]))], [(None, ("leaf", "as.polynomial", [102.0, 103.0]))]]))],
                          [(None, ("mod", "product", [[(None, ("leaf", "as.constant", [104.0]))], [(None, ("leaf", "as.constant", [105.0]))]]))]]))],
]


def nested_family():
  """every modifier nested directly inside every modifier, the inner one carrying its own range"""
  out = []
  for outer in ("sum", "product", "pow"):
    for inner in ("sum", "product", "pow", "trans"):
      for marker in (">=", ">"):
        if marker == ">" and inner != outer:
          continue
        second = [(None, ("leaf", "as.constant", [104.0]))] if inner == "trans" else [(None, ("leaf", "as.constant", [104.0]))]
        innern = ("mod", inner, [[(None, ("leaf", "as.polynomial", [102.0, 103.0]))], second])
        out.append([(None, ("mod", outer, [[(None, ("leaf", "as.constant", [101.0]))], [((marker, 1.5), innern)]]))])
  return out


def definitions(tier, seed):
  rnd = random.Random(20240 + seed)
  out = list(FIXED) + nested_family()
  n, depth = (12, 2) if tier == "quick" else (60, 3)
  n0 = len(out)
  while len(out) < n0 + n:
    g = Gen(rnd)
    d = g.defn(depth, rnd.choice([1, 1, 2]))
    if len(tags_of(d)) <= 14:
      out.append(d)
  return out


# ---------------------------------------------------------------------------
# sections

def section_text(section, text):
  sp = "[Species]\nA.atomic_number : 1\nA.atomic_mass : 1.0\nA.lattice_constant : 1.0\nA.lattice_type : fcc\nB.atomic_number : 2\nB.atomic_mass : 2.0\n"
  eam = "[Tabulation]\ntarget : %s\n\n[Pair]\nA-A : as.zero\n\n" + sp
  if section == "Pair":
    return "[Tabulation]\ntarget : LAMMPS\n\n[Pair]\nA-B : %s\n" % text
  if section == "EAM-Embed":
    return eam % "setfl" + "\n[EAM-Embed]\nA : %s\n\n[EAM-Density]\nA : as.zero\n" % text
  if section == "EAM-Density":
    return eam % "setfl" + "\n[EAM-Embed]\nA : as.zero\n\n[EAM-Density]\nA : %s\n" % text
  if section == "EAM-Density-FS":
    return eam % "setfl_fs" + "\n[EAM-Embed]\nA : as.zero\nB : as.zero\n\n[EAM-Density]\nA->B : %s\nB->A : as.zero\nA->A : as.zero\nB->B : as.zero\n" % text
  if section in ("EAM-ADP-Dipole", "EAM-ADP-Quadrupole"):
    other = "EAM-ADP-Quadrupole" if section == "EAM-ADP-Dipole" else "EAM-ADP-Dipole"
    return eam % "eam_adp" + "\n[EAM-Embed]\nA : as.zero\n\n[EAM-Density]\nA : as.zero\n\n[%s]\nA-A : %s\n\n[%s]\nA-A : as.zero\n" % (section, text, other)
  raise ValueError(section)


def _subst(node, table):
  if node is None:
    return None

  def val(x):
    if isinstance(x, float) and not isinstance(x, core.SReal) and x in table:
      return table[x]
    return x
  if hasattr(node, "modifier"):
    return node._replace(potential_forms=[_subst(p, table) for p in node.potential_forms], next=_subst(node.next, table))
  return node._replace(parameters=[val(p) for p in node.parameters], next=_subst(node.next, table))


class _SubstParser(object):
  """Delegates to the real ConfigParser; definition tuples come back with the
  placeholder numerals replaced by symbols."""

  def __init__(self, cp, table):
    self._cp, self._table = cp, table

  def __getattr__(self, name):
    return getattr(self._cp, name)

  def _s(self, tuples):
    return [t._replace(potential_form_instance=_subst(t.potential_form_instance, self._table)) for t in tuples]

  pair = property(lambda self: self._s(self._cp.pair))
  eam_embed = property(lambda self: self._s(self._cp.eam_embed))
  eam_density = property(lambda self: self._s(self._cp.eam_density))
  eam_density_fs = property(lambda self: self._s(self._cp.eam_density_fs))

  def parse_pair_like(self, name):
    return self._s(self._cp.parse_pair_like(name))


def built_function(section, scp):
  """The callable the real builders make for the one definition under test."""
  from atsim.potentials.config._potential_form_registry import Potential_Form_Registry
  from atsim.potentials.config._modifier_registry import Modifier_Registry
  from atsim.potentials.config._pair_potential_builder import Pair_Potential_Builder, Pair_Potentials_From_Tuples_Builder
  from atsim.potentials.config._eam_potential_builder import EAM_Potential_Builder, EAM_Potential_Builder_FS
  from atsim.potentials.referencedata import Reference_Data
  pfr = Potential_Form_Registry(scp, register_standard=True, register_pymath_functions=True)
  mr = Modifier_Registry()
  if section == "Pair":
    pots = Pair_Potential_Builder(scp, pfr, mr).potentials
    return [p for p in pots if (p.speciesA, p.speciesB) == ("A", "B")][0].potentialFunction
  rd = Reference_Data(scp.species)
  if section == "EAM-Embed":
    e = EAM_Potential_Builder(scp, pfr, mr, rd).eam_potentials
    return [p for p in e if p.species == "A"][0].embeddingFunction
  if section == "EAM-Density":
    e = EAM_Potential_Builder(scp, pfr, mr, rd).eam_potentials
    return [p for p in e if p.species == "A"][0].electronDensityFunction
  if section == "EAM-Density-FS":
    e = EAM_Potential_Builder_FS(scp, pfr, mr, rd).eam_potentials
    return [p for p in e if p.species == "A"][0].electronDensityFunction["B"]
  pots = Pair_Potentials_From_Tuples_Builder(scp.parse_pair_like(section), pfr, mr, section).potentials
  return pots[0].potentialFunction


def grammar_case(idx, defn, section):
  from atsim.potentials.config import ConfigParser
  text = render(defn)
  res = new_result("definition #%d in [%s]: %s" % (idx, section, text[:90]))
  tags = tags_of(defn)
  cp = ConfigParser(io.StringIO(section_text(section, text)))
  shims.install()

  def fn():
    r = sym("r")
    tab = {t: sym("p%d" % int(t - 100)) for t in tags}
    f_real = built_function(section, _SubstParser(cp, tab))
    f_api = api_build(defn, tab)
    return term(f_real(r)), term(f_api(r))

  def build(path, wrong=False):
    if path.exc is not None:
      raise Structural("exception", "%s: %s" % (type(path.exc).__name__, path.exc))
    got, want = path.value
    if wrong:
      want = want + 1
    from symx import elim
    if not wrong and (got.eq(want) or elim.is_zero_poly(got - want)):
      # identical up to polynomial normalisation: no solver needed
      return [VC("potable==api", z3.BoolVal(True), info=dict(key="grammar-%s" % section))]
    return [VC("potable==api", eq_formula(got, want), info=dict(key="grammar-%s" % section))]

  def replay(v, w, path, structural):
    return replay_grammar(defn, section, w)

  try:
    explore_and_check(res, fn, build, replay=replay, negative=lambda p: build(p, wrong=True), explorer_kw=dict(max_paths=3000),
                      use_exp_axioms=True, vc_timeout_ms=30000)
  finally:
    shims.uninstall()
  return res


# ---------------------------------------------------------------------------
# two entries of one section that differ only in a range of one modifier argument (builders are shared by a section)

def sibling_variants(defn):
  """(what, variant): copies of a definition whose first modifier has, in one argument, a different range start /
  a further range; parameters (the same symbols) and form labels are untouched"""
  import copy
  out = []
  for pos, (rng, node) in enumerate(defn):
    if node[0] != "mod":
      continue
    arg = 0 if node[1] == "trans" else len(node[2]) - 1
    v1 = copy.deepcopy(defn)
    a_rng, a_node = v1[pos][1][2][arg][0]
    v1[pos][1][2][arg][0] = (((">=", 2.0) if a_rng is None else (a_rng[0], a_rng[1] + 0.75)), a_node)
    out.append(("argument %d starts elsewhere" % arg, v1))
    v2 = copy.deepcopy(defn)
    last = v2[pos][1][2][arg][-1][0]
    v2[pos][1][2][arg].append(((">", (last[1] if last else 0.0) + 3.25), ("leaf", "as.constant", [150.0])))
    out.append(("argument %d has a further range" % arg, v2))
    break
  return out


def built_pair_functions(scp):
  from atsim.potentials.config._potential_form_registry import Potential_Form_Registry
  from atsim.potentials.config._modifier_registry import Modifier_Registry
  from atsim.potentials.config._pair_potential_builder import Pair_Potential_Builder
  pfr = Potential_Form_Registry(scp, register_standard=True, register_pymath_functions=True)
  pots = Pair_Potential_Builder(scp, pfr, Modifier_Registry()).potentials
  return {(p.speciesA, p.speciesB): p.potentialFunction for p in pots}


def sibling_case(idx, defn, which, swapped):
  from atsim.potentials.config import ConfigParser
  what, var = sibling_variants(defn)[which]
  d1, d2 = (var, defn) if swapped else (defn, var)
  text = "[Tabulation]\ntarget : LAMMPS\n\n[Pair]\nA-B : %s\nA-A : %s\n" % (render(d1), render(d2))
  res = new_result("two [Pair] entries, definition #%d and a copy in which %s%s" % (idx, what, " (copy first)" if swapped else ""))
  tags = sorted(set(tags_of(d1) + tags_of(d2)))
  cp = ConfigParser(io.StringIO(text))
  shims.install()

  def fn():
    r = sym("r")
    tab = {t: sym("p%d" % int(t - 100)) for t in tags}
    fr = built_pair_functions(_SubstParser(cp, tab))
    return (term(fr[("A", "B")](r)), term(api_build(d1, tab)(r)), term(fr[("A", "A")](r)), term(api_build(d2, tab)(r)))

  def build(path, wrong=False):
    if path.exc is not None:
      raise Structural("exception", "%s: %s" % (type(path.exc).__name__, path.exc))
    g1, w1, g2, w2 = path.value
    if wrong:
      w1 = w1 + 1
    from symx import elim
    vcs = []
    for nm, g, wnt in (("first entry", g1, w1), ("second entry", g2, w2)):
      if g.eq(wnt) or (not wrong and elim.is_zero_poly(g - wnt)):
        vcs.append(VC("%s potable==api" % nm, z3.BoolVal(True), info=dict(key="sibling-entries")))
      else:
        vcs.append(VC("%s potable==api" % nm, eq_formula(g, wnt), info=dict(key="sibling-entries")))
    return vcs

  def replay(v, w, path, structural):
    vals = {t: 0.6 + 0.35 * i + 0.1 * (i % 3) for i, t in enumerate(tags)}
    e1, e2 = _retag(d1, vals), _retag(d2, vals)
    t2 = "[Tabulation]\ntarget : LAMMPS\n\n[Pair]\nA-B : %s\nA-A : %s\n" % (render(e1), render(e2))
    fr = built_pair_functions(ConfigParser(io.StringIO(t2)))
    bad = []
    rs = [0.4, 1.0, 1.5, 1.75, 2.25, 2.5, 3.3, 4.0, 5.5]
    if isinstance(w.get("r"), float) and 0.01 < w["r"] < 30:
      rs.append(w["r"])
    for key, e in ((("A", "B"), e1), (("A", "A"), e2)):
      fa = api_build(e, {x: x for x in tags_of(e)})
      for r in rs:
        try:
          a, b = fr[key](r), fa(r)
        except (ValueError, ZeroDivisionError, OverflowError, TypeError):
          continue
        if isinstance(a, complex) or isinstance(b, complex):
          continue
        if not (abs(a - b) <= 1e-9 * max(1.0, abs(b))):
          bad.append("%s-%s : %s gives %r at r=%r, the Python API composition gives %r" % (key[0], key[1], render(e), a, r, b))
    return (bool(bad), "; ".join(bad[:3]) or "both entries agree with their API compositions", dict(kind="sibling_entries", model=t2))

  try:
    explore_and_check(res, fn, build, replay=replay, negative=lambda p: build(p, wrong=True), explorer_kw=dict(max_paths=3000),
                      use_exp_axioms=True, vc_timeout_ms=30000)
  finally:
    shims.uninstall()
  return res


def replay_grammar(defn, section, w):
  from atsim.potentials.config import ConfigParser
  tags = tags_of(defn)
  sets = []
  cand = {}
  for t in tags:
    v = w.get("p%d" % int(t - 100))
    if isinstance(v, float) and 1e-3 < abs(v) < 50:
      cand[t] = v
  if len(cand) == len(tags):
    sets.append(cand)
  sets.append({t: 0.6 + 0.35 * i + 0.1 * (i % 3) for i, t in enumerate(tags)})
  bad = []
  for vals in sets:
    d2 = _retag(defn, vals)
    text = render(d2)
    cp = ConfigParser(io.StringIO(section_text(section, text)))
    f_real = built_function(section, cp)
    f_api = api_build(d2, {v: v for v in tags_of(d2)})
    rs = [0.4, 1.0, 1.5, 1.75, 2.5, 3.3]
    if isinstance(w.get("r"), float) and 0.01 < w["r"] < 30:
      rs.append(w["r"])
    for r in rs:
      try:
        a = f_real(r)
      except (ValueError, ZeroDivisionError, OverflowError, TypeError) as e:
        try:
          f_api(r)
          bad.append("potable definition raises %s at r=%r, the API composition does not" % (type(e).__name__, r))
        except (ValueError, ZeroDivisionError, OverflowError, TypeError):
          pass
        continue
      try:
        b = f_api(r)
      except (ValueError, ZeroDivisionError, OverflowError, TypeError) as e:
        bad.append("API composition raises %s at r=%r, the potable definition gives %r" % (type(e).__name__, r, a))
        continue
      if isinstance(a, complex) or isinstance(b, complex):
        if a != b:
          bad.append("%r vs %r at r=%r" % (a, b, r))
        continue
      if not (abs(a - b) <= 1e-9 * max(1.0, abs(b))):
        bad.append("[%s] %s : value at r=%r is %r, the Python API composition gives %r" % (section, text, r, a, b))
    if bad:
      break
  return (bool(bad), "; ".join(bad[:3]) or "potable and API agree for %s" % render(defn), dict(kind="grammar", definition=render(defn), section=section))


def _retag(defn, vals):
  out = []
  for rng, node in defn:
    if node[0] == "leaf":
      out.append((rng, ("leaf", node[1], [vals[t] for t in node[2]])))
    else:
      out.append((rng, ("mod", node[1], [_retag(d, vals) for d in node[2]])))
  return out


# ---------------------------------------------------------------------------
# modifiers over uninterpreted argument potentials

def modifier_case(name, nargs):
  res = new_result("modifier %s over %d arbitrary potentials" % (name, nargs))
  from atsim.potentials import _modifiers
  from atsim.potentials.config._common import PotentialFormInstanceTuple, MultiRangeDefinitionTuple

  def fn():
    r, X = sym("r"), sym("X")
    fs = [uf("f%d" % i) for i in range(nargs)]

    class B(object):
      def create_potential_function(self, t):
        return fs[int(t.potential_form[1:])]
    tuples = [PotentialFormInstanceTuple("f%d" % i, [], MultiRangeDefinitionTuple(">", 0.0), None) for i in range(nargs)]
    if name == "trans":
      tuples = [tuples[0], PotentialFormInstanceTuple("as.constant", [X], MultiRangeDefinitionTuple(">", 0.0), None)]
    m = getattr(_modifiers, name)(tuples, B())
    return term(m(r))

  r, X = z3.Real("r"), z3.Real("X")
  F = [z3.Function("f%d" % i, R, R) for i in range(nargs)]

  def build(path, wrong=False):
    if path.exc is not None:
      raise Structural("exception", "%s: %s" % (type(path.exc).__name__, path.exc))
    if name == "sum":
      want = z3.Sum([f(r) for f in F])
    elif name == "product":
      want = z3.Product([f(r) for f in F])
    elif name == "pow":
      want = functools.reduce(lambda a, b: core.POW(a, b), [f(r) for f in F])
    else:
      want = F[0](r + X)
    if wrong:
      want = want + 1
    return [VC("%s" % name, eq_formula(path.value, want), info=dict(key="modifier-%s" % name))]

  def replay(v, w, path, structural):
    fs = [lambda x, i=i: 1.5 + 0.25 * i + math.sin(0.7 * x + i) * 0.5 for i in range(nargs)]

    class B(object):
      def create_potential_function(self, t):
        return fs[int(t.potential_form[1:])]
    tuples = [PotentialFormInstanceTuple("f%d" % i, [], MultiRangeDefinitionTuple(">", 0.0), None) for i in range(nargs)]
    Xv = 0.75
    if name == "trans":
      tuples = [tuples[0], PotentialFormInstanceTuple("as.constant", [Xv], MultiRangeDefinitionTuple(">", 0.0), None)]
    m = getattr(_modifiers, name)(tuples, B())
    bad = []
    for x in (0.5, 1.25, 3.0):
      vs = [f(x) for f in fs]
      want = dict(sum=sum(vs), product=functools.reduce(lambda a, b: a * b, vs), pow=functools.reduce(lambda a, b: a ** b, vs), trans=fs[0](x + Xv))[name]
      if abs(m(x) - want) > 1e-12 * max(1, abs(want)):
        bad.append("%s(...)(%r) = %r, documented meaning %r" % (name, x, m(x), want))
    return (bool(bad), "; ".join(bad) or "agrees", dict(kind="modifier", name=name))

  explore_and_check(res, fn, build, replay=replay, negative=lambda p: build(p, wrong=True))
  return res


# ---------------------------------------------------------------------------
# custom [Potential-Form] formulas

# name -> (forms in listing order [(signature, formula)], pair definition using placeholders, number of placeholders)
CUSTOM = {
  "positional": ([("f(r, A, B, C)", "A*exp(-r/B) - C/r^6")], "f 101.0 102.0 103.0"),
  "permuted-names": ([("g(r, B, A, r0)", "A - B*(r - r0) + r0/A")], "g 101.0 102.0 103.0"),
  "calls-other-forms": ([("inner(r, A, B)", "A*r + B"), ("outer(r, P, Q)", "inner(r, P, Q) * inner(r, Q, 1) + inner(2*r, 3, P)")], "outer 101.0 102.0"),
  "forward-reference": ([("outer(r, P, Q)", "inner(r, P, Q) * inner(r, Q, 1) + inner(2*r, 3, P)"), ("inner(r, A, B)", "A*r + B")], "outer 101.0 102.0"),
  "three-level": ([("top(r, A)", "mid(r, A, 2) - mid(r, 2, A)"), ("mid(r, U, V)", "low(r, U) * V + low(V, r)"), ("low(x, k)", "k*x^2 + x")], "top 101.0"),
  "as-and-pymath": ([("h(r, A, B)", "as.buck(r, A, B, 2.0) + pymath.exp(-r/B) + as.polynomial(r, 1, A) + pymath.sqrt(A)")], "h 101.0 102.0"),
  "if-and-compare": ([("s(r, A, rc)", "if(r < rc, A*(rc - r)^2, 0) + (r >= rc)*A")], "s 101.0 102.0"),
  # caller and callee use the same parameter names; the caller needs its own values again after the call
  "same-parameter-names": ([("bm(r, A, rho)", "A*exp(-r/rho)"), ("two(r, A, rho)", "bm(r, A/10, 2*rho) + bm(r, A, rho) + A*r/rho")], "two 101.0 102.0"),
  "shifted-argument": ([("lin(r, A)", "A*r + 1"), ("sh(R, a)", "lin(R - 0.25, 2*a) * R + a")], "sh 101.0"),
  "in-modifier": ([("f(r, A)", "A/r"), ("g(r, A)", "f(r, A) + f(r, 2*A)")], "sum(f 101.0, product(g 102.0, as.constant 103.0), >1.5 f 104.0)"),
}


def _sig(sigtext):
  label, rest = sigtext.split("(", 1)
  return label.strip(), [p.strip() for p in rest.rstrip(")").split(",")]


def custom_text(name):
  forms, pair = CUSTOM[name]
  return "[Tabulation]\ntarget : LAMMPS\n\n[Pair]\nA-B : %s\n\n[Potential-Form]\n%s\n" % (pair, "\n".join("%s = %s" % f for f in forms))


def spec_functions(forms):
  """callables evaluating each custom form's formula with explicitly bound parameters"""
  ref = spec.make(mathshim.exp, mathshim.sqrt)
  funcs = {"as." + k: v for k, v in ref.items()}
  funcs["as.sqrt"] = ref["sqrt"] if "sqrt" in ref else None
  funcs.update({"pymath.exp": mathshim.exp, "pymath.sqrt": mathshim.sqrt, "pymath.log": mathshim.log, "pymath.pow": mathshim.pow})
  funcs = {k: v for k, v in funcs.items() if v is not None}
  for sigtext, formula in forms:
    label, params = _sig(sigtext)

    def f(*args, params=params, formula=formula):
      if len(args) != len(params):
        raise TypeError("arity")
      return exprstub.evaluate(formula, dict(zip(params, args)), funcs)
    funcs[label] = f
  return funcs


def spec_definition(node, funcs, tab):
  """Specification value of a (possibly modified, multi-range) definition tuple
  chain using custom forms: direct semantics."""
  def one(n):
    if hasattr(n, "modifier"):
      kids = [spec_definition(p, funcs, tab) for p in n.potential_forms]
      if n.modifier == "sum":
        return lambda r: functools.reduce(lambda a, b: a + b, [k(r) for k in kids])
      if n.modifier == "product":
        return lambda r: functools.reduce(lambda a, b: a * b, [k(r) for k in kids])
      raise ValueError(n.modifier)
    ps = [tab.get(p, p) if isinstance(p, float) and not isinstance(p, core.SReal) else p for p in n.parameters]
    f = funcs[n.potential_form]
    return lambda r: f(r, *ps)
  ranges = []
  n = node
  while n is not None:
    ranges.append((n.start.range_type, n.start.start, one(n)))
    n = n.next

  def value(r):
    best = None
    for rt, st, f in ranges:
      q = (r > st) if rt == ">" else (r >= st)
      if q and (best is None or st > best[0]):
        best = (st, f)
    return best[1](r) if best is not None else 0.0
  return value


def predecessor_text(name, pair_text=None):
  """an earlier model of the same process: the same file except that the forms called by other forms have another formula"""
  forms, pair = CUSTOM[name]
  out, changed = [], False
  for sig, formula in forms:
    label = sig.split("(")[0].strip()
    if any((label + "(") in f2 for s2, f2 in forms if s2 != sig):
      out.append((sig, "(%s) + 1.25" % formula))
      changed = True
    else:
      out.append((sig, formula))
  if not changed:
    return None
  return "[Tabulation]\ntarget : LAMMPS\n\n[Pair]\nA-B : %s\n\n[Potential-Form]\n%s\n" % (pair_text or pair, "\n".join("%s = %s" % f for f in out))


def custom_case(name, history=False):
  from atsim.potentials.config import ConfigParser
  from atsim.potentials.config import _cexprtk_potential_function as cpf
  res = new_result("custom forms: %s%s" % (name, " after a model whose inner forms have other formulae" if history else ""))
  bad = exprstub.validate()
  if bad:
    res["harness_errors"].append("cexprtk stub disagrees with the real cexprtk: %s" % "; ".join(bad[:3]))
    return res
  forms, pair = CUSTOM[name]
  text = custom_text(name)
  cp = ConfigParser(io.StringIO(text))
  tags = sorted(set(float(x) for x in __import__("re").findall(r"10\d\.0", pair)))
  shims.install(extra_globals={"atsim.potentials.config._cexprtk_potential_function": dict(cexprtk=exprstub)})

  def fn():
    r = sym("r")
    assume(r > 0)
    tab = {t: sym("p%d" % int(t - 100)) for t in tags}
    for t in tab.values():
      assume(t > 0)
    if history:
      # the earlier model is built and evaluated first (same process, same symbols)
      cp0 = ConfigParser(io.StringIO(predecessor_text(name)))
      built_function("Pair", _SubstParser(cp0, tab))(r)
    scp = _SubstParser(cp, tab)
    f_real = built_function("Pair", scp)
    f_spec = spec_definition(cp.pair[0].potential_form_instance, spec_functions(forms), tab)
    return term(f_real(r)), term(f_spec(r))

  def build(path, wrong=False):
    if path.exc is not None:
      raise Structural("exception", "%s: %s" % (type(path.exc).__name__, str(path.exc)[:300]))
    got, want = path.value
    if wrong:
      want = want + 1
    return [VC("formula", eq_formula(got, want), info=dict(key="custom-%s%s" % (name, "-after-earlier-model" if history else "")))]

  def replay(v, w, path, structural):
    c, d, rec = common.in_fresh_process("checks.c09", "replay_custom", name, {k: v_ for k, v_ in w.items() if isinstance(v_, float) and not k.endswith("#exact")}, history)
    return bool(c), d, rec

  try:
    explore_and_check(res, fn, build, replay=replay, negative=lambda p: build(p, wrong=True), use_exp_axioms=True, vc_timeout_ms=30000,
                      explorer_kw=dict(max_paths=500))
  finally:
    shims.uninstall()
  return res


def replay_custom(name, w, history=False):
  """Concrete: the real Configuration (real cexprtk) versus the formulas
  evaluated with explicitly bound parameters, over every listing order of the
  [Potential-Form] entries and both separators.  history: a model whose inner forms
  have other formulae is read and evaluated first."""
  from atsim.potentials.config import Configuration, ConfigParser
  import re
  forms, pair = CUSTOM[name]
  tags = sorted(set(float(x) for x in re.findall(r"10\d\.0", pair)))
  sets = []
  cand = {t: w.get("p%d" % int(t - 100)) for t in tags}
  if all(isinstance(v, float) and 1e-3 < v < 50 for v in cand.values()) and cand:
    sets.append(cand)
  sets.append({t: 0.8 + 0.45 * i for i, t in enumerate(tags)})
  bad = []
  import math as m_
  ref = spec.make(m_.exp, m_.sqrt)
  for vals in sets:
    ptxt = pair
    for t, v in vals.items():
      ptxt = ptxt.replace(repr(t), repr(v))
    orders = list(itertools.permutations(forms)) if len(forms) <= 3 else [forms]
    for order in orders:
      for sep in ("=", ":"):
        text = "[Tabulation]\ntarget : LAMMPS\n\n[Pair]\nA-B %s %s\n\n[Potential-Form]\n%s\n" % (sep, ptxt, "\n".join("%s %s %s" % (s, sep, f) for s, f in order))
        try:
          if history:
            Configuration().read(io.StringIO(predecessor_text(name, ptxt))).potentials[0].potentialFunction(1.5)
          tab = Configuration().read(io.StringIO(text))
          f_real = tab.potentials[0].potentialFunction
        except Exception as e:  # noqa
          bad.append("model could not be built (%s: %s):\n%s" % (type(e).__name__, str(e)[:200], text))
          continue
        funcs = {"as." + k: v for k, v in ref.items()}
        funcs.update({"pymath.exp": m_.exp, "pymath.sqrt": m_.sqrt, "pymath.log": m_.log, "pymath.pow": m_.pow})
        for sigtext, formula in forms:
          label, params = _sig(sigtext)
          funcs[label] = (lambda *args, params=params, formula=formula: exprstub.evaluate(formula, dict(zip(params, args)), funcs))
        cp = ConfigParser(io.StringIO(text))
        f_spec = spec_definition(cp.pair[0].potential_form_instance, funcs, {})
        rs = [0.5, 1.0, 1.5, 2.25, 3.5]
        if isinstance(w.get("r"), float) and 0.01 < w["r"] < 30:
          rs.append(w["r"])
        for r in rs:
          try:
            a = f_real(r)
          except Exception as e:  # noqa
            bad.append("evaluating the potable model at r=%r raises %s: %s (forms listed as %s)" % (r, type(e).__name__, str(e)[:200], [s for s, _ in order]))
            break
          b = f_spec(r)
          if not (abs(a - b) <= 1e-9 * max(1.0, abs(b))):
            bad.append("model value at r=%r is %r, the formula with positionally bound parameters gives %r (forms listed as %s, '%s')" % (r, a, b, [s for s, _ in order], sep))
            break
      if bad:
        break
    if bad:
      break
  return (bool(bad), "; ".join(bad[:2]) or "real cexprtk route agrees with the formulas for %s" % name, dict(kind="custom", name=name))


# ---------------------------------------------------------------------------
# formatting variants (concrete side layer) and key normalisation (CrossHair)

def formatting_case(tier, seed):
  """Concrete side layer: whitespace, continuation lines, '='/':' and entry
  order do not change the parsed tuple trees (not a solver claim)."""
  from atsim.potentials.config import ConfigParser
  res = new_result("formatting variants (concrete)")
  defs = definitions(tier, seed)[:10]
  n = 0
  for i, d in enumerate(defs):
    base = ConfigParser(io.StringIO("[Pair]\nA-B : %s\nC-D : as.zero\n" % render(d))).pair
    variants = [
      "[Pair]\nA-B = %s\nC-D = as.zero\n" % render(d),
      "[Pair]\nA - B :   %s\nC-D : as.zero\n" % render(d, "  "),
      "[Pair]\nC-D : as.zero\nA-B\t:\t%s\n" % render(d, "\t"),
      "[Pair]\n  A-B : %s\n  C-D : as.zero\n" % render(d).replace(", ", ",\n        "),
    ]
    for v in variants:
      got = ConfigParser(io.StringIO(v)).pair
      n += 1
      if sorted(map(repr, got)) != sorted(map(repr, base)):
        res["violations"].append(dict(key="formatting", desc="variant parses differently:\n%s\n%r\n!=\n%r" % (v, got, base)))
        break
  # a custom formula wrapped over several lines, with exprtk end-of-line comments, is the formula written on one line
  from atsim.potentials.config import Configuration
  import logging
  head = "[Tabulation]\ntarget : LAMMPS\n\n[Pair]\nA-B : f 1000.0 0.3 0.5\n\n[Potential-Form]\n"
  one = head + "f(r, A, rho, D) = A*exp(-r/rho) + D*(exp(-2*(r-2)) - 2*exp(-(r-2)))\n"
  wrapped = [head + "f(r, A, rho, D) = A*exp(-r/rho)   // repulsion\n      + D*(exp(-2*(r-2))          # first Morse term\n      - 2*exp(-(r-2)))\n",
             head + "f(r, A, rho, D) =\n   A*exp(-r/rho)\n   + D*(exp(-2*(r-2)) - 2*exp(-(r-2)))   // Morse\n",
             head + "f(r, A, rho, D) : A*exp(-r/rho) // repulsion\n\t+ D*(exp(-2*(r-2)) - 2*exp(-(r-2)))\n",
             # blanks between a function name and its bracket (custom form, as.* form, exprtk built-in)
             head + "inner(r, A, rho) = A*exp (-r/rho)\nf(r, A, rho, D) = inner (r, A, rho) + D*as.constant (r, 1.0)*(exp(-2*(r-2)) - 2*exp (-(r-2)))\n",
             head + "inner(r, A, rho) = A*exp(-r/rho)\nf(r, A, rho, D) = inner\n   (r, A, rho) + D*(exp(-2*(r-2)) - 2*exp(-(r-2)))\n"]
  logging.disable(logging.CRITICAL)
  try:
    ref = Configuration().read(io.StringIO(one)).potentials[0]
    want = [ref.energy(r) for r in (1.0, 2.0, 3.1, 4.5)]
    for w_ in wrapped:
      n += 1
      try:
        p_ = Configuration().read(io.StringIO(w_)).potentials[0]
        got = [p_.energy(r) for r in (1.0, 2.0, 3.1, 4.5)]
      except Exception as e:  # noqa
        got = "%s: %s" % (type(e).__name__, e)
      if got != want:
        res["violations"].append(dict(key="formatting-wrapped-formula", desc="the wrapped formula\n%s\nevaluates to %r, written on one line to %r" % (w_[w_.index("[Potential-Form]"):], got, want),
                                      record=dict(kind="wrapped", model=w_)))
        break
  finally:
    logging.disable(logging.NOTSET)
  res["paths"] += n
  res["replays"] += n
  return res


def xh_case(name, timeout):
  return xhrun.run_condition("xh.c09_keys", name, timeout)


def cases(tier, seed=0):
  q = tier == "quick"
  cs = []
  for name, counts in (("sum", (2, 3, 4)), ("product", (2, 3)), ("pow", (2,)), ("trans", (1,))):
    for n in counts:
      cs.append(Case("modifier %s %d" % (name, n), modifier_case, name=name, nargs=n))
  defs = definitions(tier, seed)
  sections = ["Pair", "EAM-Embed", "EAM-Density", "EAM-Density-FS", "EAM-ADP-Dipole", "EAM-ADP-Quadrupole"]
  for i, d in enumerate(defs):
    secs = ["Pair"] + ([sections[1 + i % 5]] if q else sections[1:])
    for s in secs:
      cs.append(Case("grammar %d %s" % (i, s), grammar_case, idx=i, defn=d, section=s))
  sib = [0, 1, 3, 5, 6, len(FIXED) + 1] if q else list(range(len(FIXED) + len(nested_family())))
  for i in sib:
    for which in range(len(sibling_variants(defs[i]))):
      for swapped in ((which % 2 == 1,) if q else (False, True)):
        cs.append(Case("siblings %d v%d%s" % (i, which, " swapped" if swapped else ""), sibling_case, idx=i, defn=defs[i], which=which, swapped=swapped))
  for name in CUSTOM:
    cs.append(Case("custom %s" % name, custom_case, name=name))
    if predecessor_text(name) is not None:
      cs.append(Case("custom %s after an earlier model" % name, custom_case, name=name, history=True))
  cs.append(Case("formatting", formatting_case, tier=tier, seed=seed))
  for nm in ("key_transform_spec", "key_transform_idempotent"):
    cs.append(Case("xh %s" % nm, xh_case, name=nm, timeout=60 if q else 300))
  return cs


def replay(path):
  return common.generic_replay(path)
