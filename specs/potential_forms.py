"""Reference model for C06: the closed forms and parameter orders documented in
docs/reference/potential_forms.rst ('potable signature' lines), transcribed by
hand and written over the abstract operations exp/sqrt and python arithmetic so
that they evaluate on proxies as well as on floats.

Where the manual leaves a constant implicit (Coulomb's 1/(4 pi eps0) 'appropriate
for Angstrom and eV'; ZBL's screening coefficients; Tang-Toennies' unit
conversion) the constant named in the source is used and that is stated."""
import math as _m

# documented signature order (after r)
SIGNATURES = {
  "bornmayer": ["A", "rho"],
  "buck": ["A", "rho", "C"],
  "constant": ["C"],
  "coul": ["q_i", "q_j"],
  "exponential": ["A", "n"],
  "exp_spline": ["B_0", "B_1", "B_2", "B_3", "B_4", "B_5", "C"],
  "hbnd": ["A", "B"],
  "lj": ["epsilon", "sigma"],
  "morse": ["gamma", "r_star", "D"],
  "sqrt": ["G"],
  "tang_toennies": ["A", "b", "C_6", "C_8", "C_10"],
  "zbl": ["Z_i", "Z_j"],
  "zero": [],
}

EPS0 = 0.0055264          # e^2 / (eV Angstrom), the value in the source
ZBL_C = (0.1818, 0.5099, 0.2802, 0.02817)   # the source's class constants (the manual prints 0.18175 ...)
ZBL_B = (3.2, 0.9423, 0.4029, 0.2016)
ZBL_DOC_C = (0.18175, 0.50986, 0.28022, 0.02817)
ZBL_DOC_B = (3.19980, 0.94229, 0.40290, 0.20162)


def make(exp, sqrt, pi=_m.pi):
  """Reference functions over the given exp/sqrt implementations."""

  def bornmayer(r, A, rho):
    return A * exp(-r / rho)

  def buck(r, A, rho, C):
    return A * exp(-r / rho) - C / r**6

  def constant(r, C):
    return C

  def coul(r, qi, qj):
    return (qi * qj) / (4.0 * pi * EPS0 * r)

  def exponential(r, A, n):
    return A * r**n

  def exp_spline(r, B0, B1, B2, B3, B4, B5, C):
    return exp(B0 + B1 * r + B2 * r**2 + B3 * r**3 + B4 * r**4 + B5 * r**5) + C

  def hbnd(r, A, B):
    return A / r**12 - B / r**10

  def lj(r, epsilon, sigma):
    return 4.0 * epsilon * (sigma**12 / r**12 - sigma**6 / r**6)

  def morse(r, gamma, r_star, D):
    return D * (exp(-2.0 * gamma * (r - r_star)) - 2.0 * exp(-gamma * (r - r_star)))

  def polynomial(r, *C):
    v = 0.0
    for i, c in enumerate(C):
      v = v + c * r**i
    return v

  def sqrt_(r, G):
    return G * sqrt(r)

  def tang_toennies(r, A, b, C6, C8, C10):
    # V = A exp(-bR) - sum_{n=3..5} f_2n(bR) C_2n / R^2n, f_2n(x) = 1 - exp(-x) sum_{k=0..2n} x^k/k!
    # R in bohr (r / 0.5292), result in eV (x 27.211): the unit constants of the source
    R = r / 0.5292
    x = b * R

    def f2n(n):
      s = 0.0
      for k in range(2 * n + 1):
        s = s + x**k / float(_m.factorial(k))
      return 1.0 - exp(-x) * s
    v = A * exp(-b * R) - (f2n(3) * C6 / R**6 + f2n(4) * C8 / R**8 + f2n(5) * C10 / R**10)
    return v * 27.211

  def zbl(r, z1, z2, C=ZBL_C, B=ZBL_B, a0=0.8854 * 0.529):
    a = a0 / (z1**0.23 + z2**0.23)
    s = 0.0
    for c, bb in zip(C, B):
      s = s + c * exp((-bb * r) / a)
    return 14.39942 * (z1 * z2) / r * s

  def zero(r):
    return 0.0

  return dict(bornmayer=bornmayer, buck=buck, constant=constant, coul=coul, exponential=exponential,
              exp_spline=exp_spline, hbnd=hbnd, lj=lj, morse=morse, polynomial=polynomial, sqrt=sqrt_,
              tang_toennies=tang_toennies, zbl=zbl, zero=zero)
