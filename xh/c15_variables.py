"""CrossHair conditions for C15: [Variables] substitution equals textual substitution and changes nothing else."""
import sys, os, io
sys.path.insert(0, os.path.dirname(os.path.dirname(os.path.abspath(__file__))))
from symx import shims
shims.import_repo()
import collections

from atsim.potentials.config import ConfigParser
from xh._untraced import untraced, concrete
from atsim.potentials.config import _config_parser as _cpm
from atsim.potentials.config._common import ConfigurationException

OD = collections.OrderedDict
BASE = OD([
  ("Tabulation", OD([("cutoff", "6.0"), ("nr", "11")])),
  ("Pair", OD([("A-B", "as.buck 1.0 2.0 3.0"), ("B-B", "f 2.0")])),
  ("Potential-Form", OD([("f(r,A)", "A*r")])),
  ("EAM-Embed", OD([("A", "as.polynomial 0 1")])),
  ("EAM-Density", OD([("A", "as.polynomial 0 2")])),
  ("Species", OD([("A.atomic_mass", "1.5")])),
  ("Table-Form:tab", OD([("xy", "0 1 1 2 2 3 3 4")])),
  ("Orphan", OD([("anything", "1")])),
])
FS_BASE = OD([("EAM-Density", OD([("A->B", "as.polynomial 0 2"), ("B->A", "as.zero")]))])
# variable names, several of which resemble keys of other sections
NAMES = ["x", "-", "target", "A-B", "A", "A->B", "f(r,A)", "A.atomic_mass", "y", "xy", "interpolation", "nr", "a>b", "dr"]
VALUES = ["2.5", "LAMMPS", "as.zero"]

TARGETS = {n: "_config_parser._RawConfigParser (default_section='Variables', ExtendedInterpolation) and every ConfigParser accessor" for n in
           ("unused_variable", "two_unused_variables", "unused_variable_fs", "placeholder_value", "cross_section_placeholder", "nested_cross_section", "placeholder_twice", "repeated_placeholder", "tabulation_placeholder")}


def make(base):
  class _Stub(object):
    pass
  saved = _cpm._RawConfigParser.read_file
  _cpm._RawConfigParser.read_file = lambda self, f, source=None: self.read_dict(base)
  try:
    return ConfigParser(_Stub())
  finally:
    _cpm._RawConfigParser.read_file = saved


def text_of(base):
  return "".join("[%s]\n%s\n" % (s, "".join("%s : %s\n" % kv for kv in d.items())) for s, d in base.items())


def snapshot(cp, fs=False):
  """everything the rest of the package reads from a parsed file"""
  out = OD()
  t = cp.tabulation
  out["tabulation"] = (t.target, t.cutoff, t.nr, t.cutoff_rho, t.nrho)
  out["pair"] = cp.pair if cp.raw_config_parser.has_section("Pair") else None
  out["potential_form"] = cp.potential_form if cp.raw_config_parser.has_section("Potential-Form") else None
  out["eam_embed"] = cp.eam_embed if cp.raw_config_parser.has_section("EAM-Embed") else None
  if cp.raw_config_parser.has_section("EAM-Density"):
    out["eam_density"] = cp.eam_density_fs if fs else cp.eam_density
  out["species"] = cp.species
  out["table_form"] = cp.table_form
  out["parsed_sections"] = sorted(cp.parsed_sections)
  out["orphan_sections"] = sorted(cp.orphan_sections)
  return out


def with_vars(base, variables):
  b = OD(base)
  b["Variables"] = OD(variables)
  return b


def _unused(base, variables, fs=False):
  want = snapshot(make(base), fs)
  got = snapshot(make(with_vars(base, variables)), fs)
  return got == want


def unused_variable(name: int, val: int) -> bool:
  """
  pre: 0 <= name < 14 and 0 <= val < 3
  post: _
  """
  # defining a variable that is not referenced does not change the meaning of any section
  n, v = concrete(NAMES[name]), concrete(VALUES[val])
  with untraced():
    return _unused(BASE, [(n, v)])


def two_unused_variables(n1: int, n2: int, val: int) -> bool:
  """
  pre: 0 <= n1 < n2 < 14 and 0 <= val < 3
  post: _
  """
  a, b, v = concrete(NAMES[n1]), concrete(NAMES[n2]), concrete(VALUES[val])
  with untraced():
    return _unused(BASE, [(a, v), (b, "1.0")])


def unused_variable_fs(name: int, val: int) -> bool:
  """
  pre: 0 <= name < 14 and 0 <= val < 3
  post: _
  """
  n, v = concrete(NAMES[name]), concrete(VALUES[val])
  with untraced():
    return _unused(FS_BASE, [(n, v)], fs=True)


PLACES = [("Tabulation", "cutoff"), ("Pair", "A-B"), ("Potential-Form", "f(r,A)"), ("EAM-Embed", "A"), ("EAM-Density", "A"), ("Species", "A.atomic_mass"), ("Table-Form:tab", "xy")]
TEMPLATES = {"Tabulation": "${V}", "Pair": "as.buck ${V} 2.0 3.0", "Potential-Form": "A*r + ${V}", "EAM-Embed": "as.polynomial 0 ${V}", "EAM-Density": "as.polynomial ${V} 2",
             "Species": "${V}", "Table-Form:tab": "0 1 1 ${V} 2 3 3 4"}
NUMS = ["2.5", "7", "1.25e-1", "10.0"]


def placeholder_value(place: int, val: int, name: int) -> bool:
  """
  pre: 0 <= place < 7 and 0 <= val < 4 and 0 <= name < 14
  post: _
  """
  # ${NAME} in any section yields exactly the hand-substituted text
  sec, key = PLACES[place]
  sec, key, vn, num = concrete(sec), concrete(key), concrete(NAMES[name]), concrete(NUMS[val])
  with untraced():
    if any(c in vn for c in "$:{}"):
      return True
    if vn in BASE[sec]:
      return True      # ${NAME} names a key of the section it is used in: by the INI rules it refers to that key, not to [Variables]
    tmpl = OD((s, OD(e)) for s, e in BASE.items())
    tmpl[sec][key] = TEMPLATES[sec].replace("${V}", "${%s}" % vn)
    subst = OD((s, OD(e)) for s, e in BASE.items())
    subst[sec][key] = TEMPLATES[sec].replace("${V}", num)
    return snapshot(make(with_vars(tmpl, [(vn, num)]))) == snapshot(make(subst))


def cross_section_placeholder(place: int, val: int) -> bool:
  """
  pre: 0 <= place < 7 and 0 <= val < 4
  post: _
  """
  # ${SECTION:KEY} refers to a key of another section (spelled with or without inner whitespace)
  sec, key = PLACES[place]
  sec, key, num = concrete(sec), concrete(key), concrete(NUMS[val])
  with untraced():
    tmpl = OD((s, OD(e)) for s, e in BASE.items())
    tmpl["Orphan"]["my value"] = num
    tmpl[sec][key] = TEMPLATES[sec].replace("${V}", "${Orphan:my value}")
    subst = OD((s, OD(e)) for s, e in BASE.items())
    subst["Orphan"]["my value"] = num
    subst[sec][key] = TEMPLATES[sec].replace("${V}", num)
    return snapshot(make(tmpl)) == snapshot(make(subst))


LIBS = ["Lib", "My Lib", "Buckingham O-O"]


def _nested(sec, key, num, shadow, lib):
  """[lib] holds 'inner' and 'outer : ${inner}'; the consuming entry refers to ${lib:outer}.
  With shadow the consuming section has its own, different key called 'inner'."""
  tmpl = OD((s, OD(e)) for s, e in BASE.items())
  subst = OD((s, OD(e)) for s, e in BASE.items())
  for b in (tmpl, subst):
    b[lib] = OD([("inner", num), ("outer", "${inner}")])
  subst[lib]["outer"] = num
  if shadow and sec in ("Tabulation", "Species", "Orphan"):
    extra_key = {"Tabulation": "inner", "Species": "inner.x", "Orphan": "inner"}[sec]
    if extra_key == "inner":
      tmpl[sec]["inner"] = "99.0"
      subst[sec]["inner"] = "99.0"
  tmpl[sec][key] = TEMPLATES[sec].replace("${V}", "${%s:outer}" % lib)
  subst[sec][key] = TEMPLATES[sec].replace("${V}", num)
  return tmpl, subst


def nested_cross_section(place: int, val: int, shadow: bool, lib: int) -> bool:
  """
  pre: 0 <= place < 7 and 0 <= val < 4 and 0 <= lib < 3
  post: _
  """
  # a value pulled in with ${SECTION:KEY} may itself contain ${name}: that name belongs to SECTION;
  # SECTION may be any section name, including names containing blanks
  sec, key = PLACES[place]
  sec, key, num, libname, shadow = concrete(sec), concrete(key), concrete(NUMS[val]), concrete(LIBS[lib]), (True if shadow else False)
  with untraced():
    tmpl, subst = _nested(sec, key, num, shadow, libname)
    a, b = snapshot(make(tmpl)), snapshot(make(subst))
    a["orphan_sections"] = b["orphan_sections"] = None
    return a == b


def _rp_nested(place, val, shadow, lib):
  sec, key = PLACES[place]
  tmpl, subst = _nested(sec, key, NUMS[val], bool(shadow), LIBS[lib])
  want = snapshot(ConfigParser(io.StringIO(text_of(subst))))
  try:
    got = snapshot(ConfigParser(io.StringIO(text_of(tmpl))))
  except Exception as e:  # noqa
    return True, "${%s:outer} (outer : ${inner}) in [%s] %s: %s: %s" % (LIBS[lib], sec, key, type(e).__name__, e), "nested-placeholder-" + type(e).__name__
  d = _diff(want, got)
  if d:
    return True, "${%s:outer} with outer : ${inner} in [%s] %s differs from the substituted file in %s: %r vs %r" % (
      LIBS[lib], sec, key, d, [got[k] for k in d], [want[k] for k in d]), "nested-placeholder-differs"
  return False, "nested placeholder equals substitution", "agree"


# a place-holder may be used more than once in a value, and two place-holders of one value may lead to the same entry
TEMPLATES_REPEATED = {"Tabulation": "${V}", "Pair": "as.buck ${V} ${V} 3.0 >=${V} as.constant ${V}", "Potential-Form": "A*r + ${V}*${V}", "EAM-Embed": "as.polynomial ${V} ${V}",
                      "EAM-Density": "as.polynomial ${V} 2 ${V}", "Species": "${V}", "Table-Form:tab": "0 ${V} 1 ${V} 2 3 3 4"}
REPEAT_KINDS = ["variable", "variable-of-variable", "cross-section", "cross-section-of-variable", "diamond", "section-then-same-name", "same-name-then-section"]


def _repeated(sec, key, num, kind):
  tmpl = OD((s, OD(e)) for s, e in BASE.items())
  subst = OD((s, OD(e)) for s, e in BASE.items())
  variables = []
  if kind == "variable":
    variables, ph = [("my_variable", num)], "${my_variable}"
  elif kind == "variable-of-variable":
    variables, ph = [("base_value", num), ("my_variable", "${base_value}")], "${my_variable}"
  elif kind == "cross-section":
    tmpl["Orphan"]["my value"] = subst["Orphan"]["my value"] = num
    ph = "${Orphan:my value}"
  elif kind == "cross-section-of-variable":
    variables = [("base_value", num)]
    tmpl["Orphan"]["my value"] = "${base_value}"
    subst["Orphan"]["my value"] = num
    ph = "${Orphan:my value}"
  elif kind in ("section-then-same-name", "same-name-then-section"):
    # a variable called like an entry of another section: ${Orphan:my_variable} and ${my_variable} side by side are two different things
    variables = [("my_variable", num)]
    tmpl["Orphan"]["my_variable"] = subst["Orphan"]["my_variable"] = "7.25"
    ph = None
    alts = [("${Orphan:my_variable}", "7.25"), ("${my_variable}", num)]
    if kind == "same-name-then-section":
      alts.reverse()
  else:
    # two different place-holders of one value that both lead to the same third entry
    variables = [("base_value", num), ("left", "${base_value}"), ("right", "${base_value}")]
    ph = None
    alts = [("${left}", num), ("${right}", num)]
  t = TEMPLATES_REPEATED[sec]
  if ph is None:
    parts = t.split("${V}")
    t2 = t3 = parts[0]
    for i, p_ in enumerate(parts[1:]):
      t2 += alts[i % 2][0] + p_
      t3 += alts[i % 2][1] + p_
    tmpl[sec][key] = t2
    subst[sec][key] = t3
  else:
    tmpl[sec][key] = t.replace("${V}", ph)
    subst[sec][key] = t.replace("${V}", num)
  if variables:
    tmpl = with_vars(tmpl, variables)
    subst = with_vars(subst, [(n, num) for n, _ in variables])
  return tmpl, subst


def repeated_placeholder(place: int, val: int, kind: int) -> bool:
  """
  pre: 0 <= place < 7 and 0 <= val < 4 and 0 <= kind < 7
  post: _
  """
  sec, key = PLACES[place]
  sec, key, num, k = concrete(sec), concrete(key), concrete(NUMS[val]), concrete(REPEAT_KINDS[kind])
  with untraced():
    tmpl, subst = _repeated(sec, key, num, k)
    a, b = snapshot(make(tmpl)), snapshot(make(subst))
    a["orphan_sections"] = b["orphan_sections"] = None
    return a == b


def _rp_repeated(place, val, kind):
  sec, key = PLACES[place]
  tmpl, subst = _repeated(sec, key, NUMS[val], REPEAT_KINDS[kind])
  want = snapshot(ConfigParser(io.StringIO(text_of(subst))))
  try:
    got = snapshot(ConfigParser(io.StringIO(text_of(tmpl))))
  except Exception as e:  # noqa
    return True, "[%s] %s : %s (%s): %s: %s" % (sec, key, tmpl[sec][key], REPEAT_KINDS[kind], type(e).__name__, e), "repeated-placeholder-" + type(e).__name__
  want["orphan_sections"] = got["orphan_sections"] = None
  d = _diff(want, got)
  if d:
    return True, "[%s] %s : %s (%s) differs from the substituted file in %s" % (sec, key, tmpl[sec][key], REPEAT_KINDS[kind], d), "repeated-placeholder-differs"
  return False, "repeated place-holders equal substitution", "agree"


# every value of [Tabulation] may be written as a place-holder, the target (and its documented synonyms) included
TAB_OPTIONS = [("target", "LAMMPS"), ("target", "DL_POLY"), ("target", "DLPOLY"), ("target", "lammps_eam_alloy"), ("target", "setfl"), ("target", "GULP"),
               ("nr", "21"), ("dr", "0.25"), ("cutoff_rho", "50.0"), ("nrho", "8")]
TAB_WAYS = ["variable", "explicit-variables-section", "cross-section"]


def _tab_option(opt, val, way):
  tmpl = OD((s, OD(e)) for s, e in BASE.items())
  subst = OD((s, OD(e)) for s, e in BASE.items())
  if opt == "dr":
    del tmpl["Tabulation"]["nr"]
    del subst["Tabulation"]["nr"]
  subst["Tabulation"][opt] = val
  if way == "variable":
    tmpl["Tabulation"][opt] = "${my_variable}"
    tmpl = with_vars(tmpl, [("my_variable", val)])
  elif way == "explicit-variables-section":
    tmpl["Tabulation"][opt] = "${Variables:my_variable}"
    tmpl = with_vars(tmpl, [("my_variable", val)])
    subst = with_vars(subst, [("my_variable", val)])
  else:
    tmpl["Orphan"]["my value"] = subst["Orphan"]["my value"] = val
    tmpl["Tabulation"][opt] = "${Orphan:my value}"
  return tmpl, subst


def tabulation_placeholder(opt: int, way: int) -> bool:
  """
  pre: 0 <= opt < 10 and 0 <= way < 3
  post: _
  """
  o, v = TAB_OPTIONS[opt]
  o, v, w_ = concrete(o), concrete(v), concrete(TAB_WAYS[way])
  with untraced():
    tmpl, subst = _tab_option(o, v, w_)
    a, b = snapshot(make(tmpl)), snapshot(make(subst))
    a["orphan_sections"] = b["orphan_sections"] = None
    return a == b


def _rp_tab(opt, way):
  o, v = TAB_OPTIONS[opt]
  tmpl, subst = _tab_option(o, v, TAB_WAYS[way])
  try:
    want = snapshot(ConfigParser(io.StringIO(text_of(subst))))
  except Exception as e:  # noqa
    return False, "the substituted file itself is refused (%s)" % e, "agree"
  try:
    got = snapshot(ConfigParser(io.StringIO(text_of(tmpl))))
  except Exception as e:  # noqa
    return True, "[Tabulation] %s : %s (= %s, %s): %s: %s" % (o, tmpl["Tabulation"][o], v, TAB_WAYS[way], type(e).__name__, e), "tabulation-placeholder-" + type(e).__name__
  want["orphan_sections"] = got["orphan_sections"] = None
  d = _diff(want, got)
  if d:
    return True, "[Tabulation] %s : %s (= %s) differs from the substituted file in %s: %r vs %r" % (o, tmpl["Tabulation"][o], v, d, [got[k] for k in d], [want[k] for k in d]), "tabulation-placeholder-differs"
  return False, "place-holder equals substitution", "agree"


_IDX = list(range(8))


def _twice(place, v1, v2, cross):
  """the same place-holder file parsed twice in one process with different values behind the place-holder:
  each parse equals its own hand-substituted file"""
  sec, key = PLACES[place]
  out = []
  for num in (NUMS[v1], NUMS[v2]):
    tmpl = OD((s, OD(e)) for s, e in BASE.items())
    subst = OD((s, OD(e)) for s, e in BASE.items())
    if cross:
      tmpl["Orphan"]["my value"] = num
      subst["Orphan"]["my value"] = num
      tmpl[sec][key] = TEMPLATES[sec].replace("${V}", "${Orphan:my value}")
    else:
      tmpl[sec][key] = TEMPLATES[sec].replace("${V}", "${my_variable}")
      tmpl = with_vars(tmpl, [("my_variable", num)])
    subst[sec][key] = TEMPLATES[sec].replace("${V}", num)
    out.append((snapshot(make(tmpl)), snapshot(make(subst))))
  return out


def placeholder_twice(place: int, v1: int, v2: int, cross: bool) -> bool:
  """
  pre: 0 <= place < 7 and 0 <= v1 < 4 and 0 <= v2 < 4
  post: _
  """
  place, v1, v2, cross = concrete(_IDX[place]), concrete(_IDX[v1]), concrete(_IDX[v2]), (True if cross else False)
  with untraced():
    return all(a == b for a, b in _twice(place, v1, v2, cross))


def _rp_twice(place, v1, v2, cross):
  sec, key = PLACES[place]
  try:
    res = _twice(place, v1, v2, bool(cross))
  except Exception as e:  # noqa
    return True, "place-holder file parsed twice: %s: %s" % (type(e).__name__, e), "twice-" + type(e).__name__
  for which, (got, want) in zip(("first", "second"), res):
    d = _diff(want, got)
    if d:
      return True, "[%s] %s holds a %s place-holder; the file is parsed with the value %s and then with %s in one process: the %s parse differs from its substituted file in %s" % (
        sec, key, "${Orphan:my value}" if cross else "${my_variable}", NUMS[v1], NUMS[v2], which, d), "placeholder-%s-parse-differs" % which
  return False, "both parses equal their substituted files", "agree"


def _after_history(rp, val_pos):
  """a counterexample that needs other files to have been read first (state kept between parses): the replay reads the same
  model with the other values, then the reported one"""
  def run(*a, **k):
    import inspect
    names = list(inspect.signature(rp).parameters)
    args = list(a) + [k[n] for n in names[len(a):]]
    r = rp(*args)
    if r[0]:
      return r
    for other in range(len(NUMS)):
      if other != args[val_pos]:
        b = list(args)
        b[val_pos] = other
        rp(*b)
    r = rp(*args)
    if r[0]:
      return True, r[1] + " (after the same model was read with other values in this process)", r[2] + "-after-other-files"
    return r
  return run


# ---------------------------------------------------------------------------
# replays on real text

def _diff(a, b):
  return [k for k in a if a.get(k) != b.get(k)]


def _rp_unused(base, variables, fs=False):
  t0, t1 = text_of(base), text_of(with_vars(base, variables))
  want = snapshot(ConfigParser(io.StringIO(t0)), fs)
  try:
    got = snapshot(ConfigParser(io.StringIO(t1)), fs)
  except Exception as e:  # noqa
    cls = "config-error" if isinstance(e, ConfigurationException) else type(e).__name__
    return True, "adding [Variables] %r (never referenced) makes the file fail with %s: %s" % (variables, type(e).__name__, e), "unused-variable-%s" % cls
  d = _diff(want, got)
  if d:
    return True, "adding [Variables] %r (never referenced) changes %s: %r -> %r" % (variables, d, [want[k] for k in d], [got[k] for k in d]), "unused-variable-changes-" + "+".join(d)
  return False, "unused variables change nothing", "agree"


def _rp_placeholder(place, val, name):
  sec, key = PLACES[place]
  vn = NAMES[name]
  tmpl = OD((s, OD(e)) for s, e in BASE.items())
  tmpl[sec][key] = TEMPLATES[sec].replace("${V}", "${%s}" % vn)
  subst = OD((s, OD(e)) for s, e in BASE.items())
  subst[sec][key] = TEMPLATES[sec].replace("${V}", NUMS[val])
  want = snapshot(ConfigParser(io.StringIO(text_of(subst))))
  try:
    got = snapshot(ConfigParser(io.StringIO(text_of(with_vars(tmpl, [(vn, NUMS[val])])))))
  except Exception as e:  # noqa
    return True, "${%s} in [%s] %s: %s: %s" % (vn, sec, key, type(e).__name__, e), "placeholder-" + type(e).__name__
  d = _diff(want, got)
  if d:
    return True, "${%s}=%s in [%s] %s differs from the substituted file in %s" % (vn, NUMS[val], sec, key, d), "placeholder-differs"
  return False, "placeholder equals substitution", "agree"


def _rp_cross(place, val):
  sec, key = PLACES[place]
  tmpl = OD((s, OD(e)) for s, e in BASE.items())
  tmpl["Orphan"]["my value"] = NUMS[val]
  tmpl[sec][key] = TEMPLATES[sec].replace("${V}", "${Orphan:my value}")
  subst = OD((s, OD(e)) for s, e in BASE.items())
  subst["Orphan"]["my value"] = NUMS[val]
  subst[sec][key] = TEMPLATES[sec].replace("${V}", NUMS[val])
  want = snapshot(ConfigParser(io.StringIO(text_of(subst))))
  try:
    got = snapshot(ConfigParser(io.StringIO(text_of(tmpl))))
  except Exception as e:  # noqa
    return True, "${Orphan:my value} in [%s] %s: %s: %s" % (sec, key, type(e).__name__, e), "cross-placeholder-" + type(e).__name__
  d = _diff(want, got)
  if d:
    return True, "${Orphan:my value} in [%s] %s differs from the substituted file in %s" % (sec, key, d), "cross-placeholder-differs"
  return False, "placeholder equals substitution", "agree"


REPLAY = dict(
  unused_variable=lambda name, val: _rp_unused(BASE, [(NAMES[name], VALUES[val])]),
  two_unused_variables=lambda n1, n2, val: _rp_unused(BASE, [(NAMES[n1], VALUES[val]), (NAMES[n2], "1.0")]),
  unused_variable_fs=lambda name, val: _rp_unused(FS_BASE, [(NAMES[name], VALUES[val])], fs=True),
  placeholder_value=_after_history(_rp_placeholder, 1),
  cross_section_placeholder=_after_history(_rp_cross, 1),
  nested_cross_section=_after_history(_rp_nested, 1),
  placeholder_twice=_rp_twice,
  repeated_placeholder=_rp_repeated,
  tabulation_placeholder=_rp_tab,
)
