"""Run concrete, heavy code (pyparsing, configparser on concrete text) outside
CrossHair's tracer.  Only to be used once every symbolic input has been turned
into a concrete value by traced code (e.g. by indexing a candidate list)."""
import contextlib

try:
  from crosshair.tracers import NoTracing, is_tracing
except Exception:  # crosshair not importable: plain execution
  NoTracing, is_tracing = None, (lambda: False)


@contextlib.contextmanager
def untraced():
  if NoTracing is not None and is_tracing():
    with NoTracing():
      yield
  else:
    yield


def concrete(x):
  """assert that a value handed to untraced code is a plain python value"""
  if type(x) not in (int, str, bool, float, type(None)):
    raise TypeError("symbolic value %r would escape into untraced code" % type(x))
  return x
