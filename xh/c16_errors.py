"""CrossHair conditions for C16: malformed models give configuration errors; valid models are never rejected."""
import sys, os, io
sys.path.insert(0, os.path.dirname(os.path.dirname(os.path.abspath(__file__))))
from symx import shims
shims.import_repo()
import logging
import shutil
import tempfile

from atsim.potentials.config import ConfigParser
from atsim.potentials.config._common import ConfigurationException
from xh._untraced import untraced, concrete
from checks import c16_catalogue as cat

REPO = os.path.realpath(os.environ.get("VERIF_REPO", "/repo"))
MAL = cat.malformed(REPO)
VALID = cat.valid_models(REPO)
GROUPS = ["tabulation", "pair", "modifier", "spline", "potential-form", "table-form", "eam", "species", "file"]

TARGETS = {"malformed_" + g.replace("-", "_"): "Configuration.read / tabulation.write / potable.main on single mutations of section '%s'" % g for g in GROUPS}
TARGETS.update(valid_models="Configuration.read / tabulation.write / potable.main on well-formed models and every manual-listed option value",
               pair_key_symbolic="_config_parser.ConfigParser._pair_species_func", signature_symbolic="_config_parser.ConfigParser._parse_potential_form_signature",
               get_or_none_symbolic="_config_parser._get_or_none")


def run_potable(text):
  """-> (status, 'configuration error' printed?, size of output or None)"""
  from atsim.potentials.tools import potable
  d = tempfile.mkdtemp(prefix="c16_")
  try:
    inp, outp = os.path.join(d, "m.aspot"), os.path.join(d, "out")
    with open(inp, "w") as f:
      f.write(text)
    argv, err, out = sys.argv, sys.stderr, sys.stdout
    sys.argv = ["potable", inp, outp]
    sys.stderr, sys.stdout = io.StringIO(), io.StringIO()
    logging.disable(logging.CRITICAL)
    try:
      try:
        potable.main()
        st = "exit 0"
      except SystemExit as e:
        st = "exit %s" % e.code
      except Exception as e:  # noqa
        st = "%s: %s" % (type(e).__name__, str(e)[:160])
      errtext = sys.stderr.getvalue()
    finally:
      logging.disable(logging.NOTSET)
      sys.argv, sys.stderr, sys.stdout = argv, err, out
    size = os.path.getsize(outp) if os.path.exists(outp) else None
    return st, ("configuration error" in errtext), size
  finally:
    shutil.rmtree(d, ignore_errors=True)


def in_memory(text):
  """The potable code path without touching the file system (CrossHair blocks file writes):
  ConfigParser -> Configuration.read_from_parser -> tabulation.write into a buffer.
  -> 'refused' (ConfigurationException: what potable prints as 'configuration error'), 'accepted' or the internal exception"""
  from atsim.potentials.config import Configuration
  logging.disable(logging.CRITICAL)
  try:
    try:
      tab = Configuration().read(io.StringIO(text))
      if tab.target.startswith("excel"):
        tab.workbook            # Excel tabulations evaluate everything when the workbook is built; saving needs a file
        return "accepted"
      out = io.StringIO()
      tab.write(out)
      return "accepted" if out.getvalue() else "empty output"
    except ConfigurationException:
      return "refused"
    except Exception as e:  # noqa
      return "%s: %s" % (type(e).__name__, str(e)[:160])
  finally:
    logging.disable(logging.NOTSET)


def refused(text):
  return in_memory(text) == "refused"


def accepted(text):
  return in_memory(text) == "accepted"


def _mal(group, i):
  i = concrete(int(i)) if type(i) is int else i
  with untraced():
    return refused(MAL[group][i][1])


def _idx(i, n):
  """turn the symbolic index into a concrete one by forking over the candidates"""
  for k in range(n):
    if i == k:
      return k
  return n - 1


def malformed_tabulation(i: int) -> bool:
  """
  pre: 0 <= i < len(MAL["tabulation"])
  post: _
  """
  return _mal("tabulation", _idx(i, len(MAL["tabulation"])))


def malformed_pair(i: int) -> bool:
  """
  pre: 0 <= i < len(MAL["pair"])
  post: _
  """
  return _mal("pair", _idx(i, len(MAL["pair"])))


def malformed_modifier(i: int) -> bool:
  """
  pre: 0 <= i < len(MAL["modifier"])
  post: _
  """
  return _mal("modifier", _idx(i, len(MAL["modifier"])))


def malformed_spline(i: int) -> bool:
  """
  pre: 0 <= i < len(MAL["spline"])
  post: _
  """
  return _mal("spline", _idx(i, len(MAL["spline"])))


def malformed_potential_form(i: int) -> bool:
  """
  pre: 0 <= i < len(MAL["potential-form"])
  post: _
  """
  return _mal("potential-form", _idx(i, len(MAL["potential-form"])))


def malformed_table_form(i: int) -> bool:
  """
  pre: 0 <= i < len(MAL["table-form"])
  post: _
  """
  return _mal("table-form", _idx(i, len(MAL["table-form"])))


def malformed_eam(i: int) -> bool:
  """
  pre: 0 <= i < len(MAL["eam"])
  post: _
  """
  return _mal("eam", _idx(i, len(MAL["eam"])))


def malformed_species(i: int) -> bool:
  """
  pre: 0 <= i < len(MAL["species"])
  post: _
  """
  return _mal("species", _idx(i, len(MAL["species"])))


def malformed_file(i: int) -> bool:
  """
  pre: 0 <= i < len(MAL["file"])
  post: _
  """
  return _mal("file", _idx(i, len(MAL["file"])))


def valid_models(i: int) -> bool:
  """
  pre: 0 <= i < len(VALID)
  post: _
  """
  k = _idx(i, len(VALID))
  with untraced():
    return accepted(VALID[k][1])


# ---------------------------------------------------------------------------
# symbolic strings through the key/signature/value parsers: whatever the text, only configuration errors

_CP = ConfigParser.__new__(ConfigParser)


def pair_key_symbolic(k: str) -> bool:
  """
  pre: len(k) <= 4
  pre: all(c in "AB- >" for c in k)
  raises: ConfigurationException
  post: _
  """
  a, b = _CP._pair_species_func(k)
  # when accepted, the key really was 'A-B' and the labels are its stripped halves
  return k.count("-") == 1 and a == k.split("-")[0].strip() and b == k.split("-")[1].strip()


def signature_symbolic(pf: str) -> bool:
  """
  pre: len(pf) <= 3
  pre: all(c in "f1(), " for c in pf)
  raises: ConfigurationException
  post: _
  """
  sig = _CP._parse_potential_form_signature(pf)
  return "(" in pf and len(sig.label) >= 1


class _Sec(dict):
  name = "Tabulation"


def get_or_none_symbolic(v: str, as_int: bool) -> bool:
  """
  pre: len(v) <= 3
  raises: ConfigurationException
  post: _
  """
  from atsim.potentials.config._config_parser import _get_or_none
  d = _Sec()
  d["nr"] = v
  r = _get_or_none("nr", d, int if as_int else float)
  return isinstance(r, int if as_int else float)


# ---------------------------------------------------------------------------

def _rp_mal(group):
  def rp(i):
    label, text = MAL[group][i]
    st, ce, size = run_potable(text)
    if st == "exit 2" and ce and not size:
      return False, "refused with a configuration error", "agree"
    what = "accepted-silently" if st == "exit 0" else ("internal-" + st.split(":")[0].replace(" ", "-") if not st.startswith("exit") else "exit")
    return True, "malformed model (%s / %s): potable ends with %s%s%s\n%s" % (group, label, st, "" if ce else " (no 'configuration error' message)",
                                                                              ", a %d byte table was written" % size if size else "", text[:600]), "%s-%s-%s" % (group, label.replace(" ", "-"), what)
  return rp


def _rp_valid(i):
  label, text = VALID[i]
  st, ce, size = run_potable(text)
  if st == "exit 0" and size:
    return False, "tabulates", "agree"
  return True, "well-formed model (%s) is refused: %s\n%s" % (label, st, text[:600]), "valid-refused-" + label.replace(" ", "-")


def _rp_pair_key(k):
  try:
    _CP._pair_species_func(k)
  except ConfigurationException:
    return False, "configuration error", "agree"
  except Exception as e:  # noqa
    return True, "_pair_species_func(%r) raises %s: %s" % (k, type(e).__name__, e), "pair-key-" + type(e).__name__
  ok = pair_key_symbolic(k)
  return (not ok), "_pair_species_func(%r) accepted a key that is not A-B" % k, "pair-key-accepted"


def _rp_sig(pf):
  try:
    _CP._parse_potential_form_signature(pf)
  except ConfigurationException:
    return False, "configuration error", "agree"
  except Exception as e:  # noqa
    return True, "_parse_potential_form_signature(%r) raises %s: %s" % (pf, type(e).__name__, e), "signature-" + type(e).__name__
  return (not signature_symbolic(pf)), "_parse_potential_form_signature(%r) accepted" % pf, "signature-accepted"


def _rp_get(v, as_int):
  from atsim.potentials.config._config_parser import _get_or_none
  d = _Sec()
  d["nr"] = v
  try:
    _get_or_none("nr", d, int if as_int else float)
  except ConfigurationException:
    return False, "configuration error", "agree"
  except Exception as e:  # noqa
    return True, "_get_or_none(%r) raises %s: %s" % (v, type(e).__name__, e), "get-or-none-" + type(e).__name__
  return False, "converted", "agree"


REPLAY = {"malformed_" + g.replace("-", "_"): _rp_mal(g) for g in GROUPS}
REPLAY.update(valid_models=_rp_valid, pair_key_symbolic=_rp_pair_key, signature_symbolic=_rp_sig, get_or_none_symbolic=_rp_get)
