"""CrossHair conditions for C14: overrides / additions / removals equal editing the file by hand."""
import sys, os, io
sys.path.insert(0, os.path.dirname(os.path.dirname(os.path.abspath(__file__))))
from symx import shims
shims.import_repo()
from typing import List, Tuple
import collections

from atsim.potentials.config import ConfigParser, ConfigParserOverrideTuple
from xh._untraced import untraced, concrete
from atsim.potentials.config import _config_parser as _cpm
from atsim.potentials.config._common import ConfigurationException
from atsim.potentials.tools.potable import _query_actions

BASE = collections.OrderedDict([
  ("Variables", collections.OrderedDict([("myvar", "1.5")])),
  ("Tabulation", collections.OrderedDict([("target", "LAMMPS"), ("cutoff", "6.0")])),
  ("Pair", collections.OrderedDict([("A-B", "as.buck 1.0 2.0 3.0"), ("B-B", "as.zero")])),
  ("Potential-Form", collections.OrderedDict([("f(r,A)", "A*r")])),
])
SECTIONS = ["Tabulation", "Pair", "Potential-Form", "Extra", "Variables"]
# spellings of existing and of absent keys (embedded whitespace must not matter)
KEYS = ["A-B", "A - B", " A-B", "A-\tB", "B-B", "C-C", "target", "tar get", "nr", "f(r,A)", "f(r, A)", "g(r)", "myvar", "other var"]
VALUES = ["as.zero", "v2", ""]      # (an empty value is a value: `key =` keeps the item)

TARGETS = {n: "_config_parser.ConfigParser._init_config_parser / _RawConfigParser / _ConfigParserDict" for n in
           ("one_override", "one_addition", "two_overrides_pair", "override_then_add", "remove_last_key")}
for _n in ("cli_order", "cli_order_remove", "cli_table_form", "cli_two_sections", "cli_item_value"):
  TARGETS[_n] = "tools.potable._make_config_parser/_create_override_tuple"
TARGETS["list_items"] = "tools.potable._query_actions._list_items/_item_value"


def norm(k):
  return "".join(c for c in k.strip() if c not in " \t")


def base_text(base=BASE):
  return "".join("[%s]\n%s\n" % (s, "".join("%s : %s\n" % kv for kv in d.items())) for s, d in base.items())


class _Stub(object):
  """stands in for the file object: read_file() of the parser under test is replaced by read_dict(BASE) (the text parser itself is not the subject)"""


def make_parser(overrides, additional, base=BASE):
  saved = _cpm._RawConfigParser.read_file
  _cpm._RawConfigParser.read_file = lambda self, f, source=None: self.read_dict(base)
  try:
    return ConfigParser(_Stub(), overrides=overrides, additional=additional)
  finally:
    _cpm._RawConfigParser.read_file = saved


def hand_edit(overrides, additional, base=BASE):
  """the model of editing the file by hand: keys are compared by normal form"""
  d = collections.OrderedDict((s, collections.OrderedDict((norm(k), v) for k, v in e.items())) for s, e in base.items())
  for (sec, key, val) in overrides:
    if sec not in d or norm(key) not in d[sec]:
      return "override-missing"
    if val is None:
      del d[sec][norm(key)]
      if not d[sec]:
        del d[sec]
    else:
      d[sec][norm(key)] = val
  for (sec, key, val) in additional:
    if sec in d and norm(key) in d[sec]:
      return "add-duplicate"
    d.setdefault(sec, collections.OrderedDict())[norm(key)] = val
  if any(k.count("-") != 1 for k in d.get("Pair", {})):
    return "malformed"      # the edited file is not a valid model (a [Pair] key that is not A-B): C16's subject
  return d


def snapshot_raw(raw):
  """every item of the edited file: the sections and, when it has entries, [Variables] (the parser's default section)"""
  out = collections.OrderedDict()
  if raw.defaults():
    out["Variables"] = collections.OrderedDict((norm(k), v) for k, v in raw.defaults().items())
  for s in raw.sections():
    out[s] = collections.OrderedDict((norm(k), raw[s][k]) for k in raw[s])
  return out


def observed(overrides, additional, base=BASE):
  try:
    cp = make_parser([ConfigParserOverrideTuple(*o) for o in overrides], [ConfigParserOverrideTuple(*o) for o in additional], base)
  except _cpm.ConfigOverrideDuplicateException:
    return "add-duplicate"
  except _cpm.ConfigOverrideException:
    return "override-missing"
  except (ConfigurationException, ValueError):
    return "malformed"
  return snapshot_raw(cp.raw_config_parser)


def same(a, b):
  if isinstance(a, str) or isinstance(b, str):
    return a == b
  return {s: dict(e) for s, e in a.items()} == {s: dict(e) for s, e in b.items()}


def one_override(sec: int, key: int, val: int, remove: bool) -> bool:
  """
  pre: 0 <= sec < 5 and 0 <= key < 14 and 0 <= val < 3
  post: _
  """
  ov = [(concrete(SECTIONS[sec]), concrete(KEYS[key]), None if remove else concrete(VALUES[val]))]
  with untraced():
    return same(observed(ov, []), hand_edit(ov, []))


def one_addition(sec: int, key: int, val: int) -> bool:
  """
  pre: 0 <= sec < 5 and 0 <= key < 14 and 0 <= val < 3
  post: _
  """
  ad = [(concrete(SECTIONS[sec]), concrete(KEYS[key]), concrete(VALUES[val]))]
  with untraced():
    return same(observed([], ad), hand_edit([], ad))


def two_overrides_pair(k1: int, r1: bool, k2: int, r2: bool) -> bool:
  """
  pre: 0 <= k1 < 6 and 0 <= k2 < 6
  post: _
  """
  # repeated keys, a removal followed by an override of the same item, removal of both keys of the section
  ov = [("Pair", concrete(KEYS[k1]), None if r1 else "v1"), ("Pair", concrete(KEYS[k2]), None if r2 else "v2")]
  with untraced():
    return same(observed(ov, []), hand_edit(ov, []))


def override_then_add(k1: int, r1: bool, sec2: int, k2: int) -> bool:
  """
  pre: 0 <= k1 < 6 and 0 <= sec2 < 5 and 0 <= k2 < 14
  post: _
  """
  # an item removed by an override may be added again; additions see the overridden file
  ov = [("Pair", concrete(KEYS[k1]), None if r1 else "v1")]
  ad = [(concrete(SECTIONS[sec2]), concrete(KEYS[k2]), "v2")]
  with untraced():
    return same(observed(ov, ad), hand_edit(ov, ad))


def remove_last_key(key: int, then_add: bool, k2: int) -> bool:
  """
  pre: 9 <= key < 12 and 0 <= k2 < 12
  post: _
  """
  # removing the only key of [Potential-Form] removes the section; a later addition re-creates it
  ov = [("Potential-Form", concrete(KEYS[key]), None)]
  ad = [("Potential-Form", concrete(KEYS[k2]), "v2")] if then_add else []
  with untraced():
    return same(observed(ov, ad), hand_edit(ov, ad))


# ---------------------------------------------------------------------------
# command line: later override of the same item wins, removals after overrides

def cli_parser(overrides, removes, adds):
  from atsim.potentials.tools import potable
  saved = _cpm._RawConfigParser.read_file
  _cpm._RawConfigParser.read_file = lambda self, f, source=None: self.read_dict(BASE)
  try:
    return potable._make_config_parser(_Stub(), overrides, adds, removes, None, False)
  finally:
    _cpm._RawConfigParser.read_file = saved


def cli_observed(overrides, removes, adds):
  try:
    cp = cli_parser(overrides, removes, adds)
  except _cpm.ConfigOverrideDuplicateException:
    return "add-duplicate"
  except _cpm.ConfigOverrideException:
    return "override-missing"
  return snapshot_raw(cp.raw_config_parser)


def cli_model(overrides, removes, adds):
  """documented CLI semantics: of several overrides of one item the last wins; removals are applied after overrides; additions last"""
  table = collections.OrderedDict()
  for grp in (overrides or []):
    for o in grp:
      sk, v = o.split("=", 1)
      s, k = sk.split(":", 1)
      table[(s, norm(k))] = (s, k, v)
  for grp in (removes or []):
    for o in grp:
      s, k = o.split(":", 1)
      table[(s, norm(k))] = (s, k, None)
  ad = []
  for grp in (adds or []):
    for o in grp:
      sk, v = o.split("=", 1)
      s, k = sk.split(":", 1)
      ad.append((s, k, v))
  return hand_edit(list(table.values()), ad)


def _cli(k1, k2, k3, use_remove, two_groups):
  a, b, c = concrete(KEYS[k1]), concrete(KEYS[k2]), concrete(KEYS[k3])
  two_groups = bool(two_groups)
  with untraced():
    o1, o2 = "Pair:%s=v1" % a, "Pair:%s=v2" % b
    overrides = [[o1], [o2]] if two_groups else [[o1, o2]]
    removes = [["Pair:%s" % c]] if use_remove else None
    return same(cli_observed(overrides, removes, None), cli_model(overrides, removes, None))


def cli_order(k1: int, k2: int, two_groups: bool) -> bool:
  """
  pre: 0 <= k1 < 6 and 0 <= k2 < 6
  post: _
  """
  # of several overrides of one item (however spelled) the last one wins
  return _cli(k1, k2, 0, False, two_groups)


def cli_order_remove(k1: int, k2: int, k3: int) -> bool:
  """
  pre: 0 <= k1 < 5 and 0 <= k2 < 5 and 0 <= k3 < 5
  post: _
  """
  # removals are applied after overrides, also when they name the same item
  return _cli(k1, k2, k3, True, False)


EAM_BASE = collections.OrderedDict([
  ("Variables", collections.OrderedDict([("myvar", "1.5")])),
  ("Tabulation", collections.OrderedDict([("target", "setfl")])),
  ("EAM-Embed", collections.OrderedDict([("A", "as.zero"), ("B", "as.zero")])),
  ("EAM-Density", collections.OrderedDict([("A", "as.zero"), ("B", "as.zero")])),
])
EAM_SECTIONS = ["EAM-Embed", "EAM-Density"]
EAM_KEYS = ["A", "B", " A", "C"]


def _cli_sections(s1, k1, s2, k2, remove2, base=EAM_BASE):
  from atsim.potentials.tools import potable
  overrides = [["%s:%s=v1" % (s1, k1)]]
  removes = None
  if remove2:
    removes = [["%s:%s" % (s2, k2)]]
  else:
    overrides.append(["%s:%s=v2" % (s2, k2)])
  saved = _cpm._RawConfigParser.read_file
  _cpm._RawConfigParser.read_file = lambda self, f, source=None: self.read_dict(base)
  try:
    try:
      cp = potable._make_config_parser(_Stub(), overrides, None, removes, None, False)
      got = snapshot_raw(cp.raw_config_parser)
    except _cpm.ConfigOverrideException:
      got = "override-missing"
  finally:
    _cpm._RawConfigParser.read_file = saved
  table = collections.OrderedDict()
  table[(s1, norm(k1))] = (s1, k1, "v1")
  table[(s2, norm(k2))] = (s2, k2, None if remove2 else "v2")
  want = hand_edit(list(table.values()), [], base)
  return got, want


def cli_two_sections(s1: int, k1: int, s2: int, k2: int, remove2: bool) -> bool:
  """
  pre: 0 <= s1 < 2 and 0 <= s2 < 2 and 0 <= k1 < 4 and 0 <= k2 < 4
  post: _
  """
  # options naming items of different sections are independent, even when the keys are spelled alike
  a, b, c, d = concrete(EAM_SECTIONS[s1]), concrete(EAM_KEYS[k1]), concrete(EAM_SECTIONS[s2]), concrete(EAM_KEYS[k2])
  r = True if remove2 else False
  with untraced():
    got, want = _cli_sections(a, b, c, d, r)
    return same(got, want)


def _rp_cli_sections(s1, k1, s2, k2, remove2):
  got, want = _cli_sections(EAM_SECTIONS[s1], EAM_KEYS[k1], EAM_SECTIONS[s2], EAM_KEYS[k2], bool(remove2))
  if same(got, want):
    return False, "agree", "agree"
  return True, "--override-item %s:%s=v1 with %s %s:%s: potable's parser gives %r, editing by hand %r" % (
    EAM_SECTIONS[s1], EAM_KEYS[k1], "--remove-item" if remove2 else "--override-item", EAM_SECTIONS[s2], EAM_KEYS[k2], _show(got), _show(want)), "cli-two-sections"


def cli_table_form(which: int, remove: bool) -> bool:
  """
  pre: 0 <= which < 3
  post: _
  """
  # items of [Table-Form:NAME] sections are addressed as Table-Form:NAME:KEY
  base = collections.OrderedDict(BASE)
  base["Table-Form:tab"] = collections.OrderedDict([("x", "1 2 3"), ("y", "3 2 1")])
  key = ["x", "y", "z"][which]
  from atsim.potentials.tools import potable
  saved = _cpm._RawConfigParser.read_file
  _cpm._RawConfigParser.read_file = lambda self, f, source=None: self.read_dict(base)
  try:
    try:
      if remove:
        cp = potable._make_config_parser(_Stub(), None, None, [["Table-Form:tab:%s" % key]], None, False)
      else:
        cp = potable._make_config_parser(_Stub(), [["Table-Form:tab:%s=9 8 7" % key]], None, None, None, False)
      got = snapshot_raw(cp.raw_config_parser)
    except _cpm.ConfigOverrideException:
      got = "override-missing"
  finally:
    _cpm._RawConfigParser.read_file = saved
  want = hand_edit([("Table-Form:tab", key, None if remove else "9 8 7")], [], base)
  return same(got, want)


# ---------------------------------------------------------------------------
# --list-items / --item-value

LIST_SECTIONS = [
  ("Tabulation", [("target", "LAMMPS")]),
  ("Pair", [("A-B", "as.zero"), ("B-B", "as.zero")]),
  ("Potential-Form", [("f(r,A)", "A*r")]),
  ("EAM-Embed", [("A", "as.zero")]),
  ("EAM-Density", [("A", "as.zero")]),
  ("Species", [("A.atomic_mass", "1.0")]),
  ("Table-Form:tab", [("x", "1 2 3"), ("y", "3 2 1")]),
  ("Orphan", [("anything", "1")]),
  ("Variables", [("myvar", "2.5")]),
]


def list_items(b0: bool, b1: bool, b2: bool, b3: bool, b4: bool, b5: bool, b6: bool, b7: bool, b8: bool) -> bool:
  """
  pre: b0 or b1 or b2 or b3 or b4 or b5 or b6 or b7 or b8
  post: _
  """
  # every item of the file is reported exactly once with its value, whatever sections the file has
  bits = [True if b else False for b in (b0, b1, b2, b3, b4, b5, b6, b7, b8)]
  with untraced():
    return _list_items_ok(bits)


def _list_items_ok(bits):
  base = collections.OrderedDict((s, collections.OrderedDict(e)) for i, (s, e) in enumerate(LIST_SECTIONS) if bits[i])
  if list(base) == ["Variables"]:
    base["Orphan"] = collections.OrderedDict([("anything", "1")])
  cp = make_parser([], [], base)
  got = sorted(_query_actions._list_items(cp))
  want = sorted(("%s:%s" % (s, k), v) for s, e in base.items() for k, v in e.items())
  if got != want:
    return False
  for (k, v) in want:
    if _query_actions._item_value(cp, k) != v:
      return False
  return True


# ---------------------------------------------------------------------------
# replays on real text through the public API

def _real(overrides, additional):
  try:
    cp = ConfigParser(io.StringIO(base_text()), overrides=[ConfigParserOverrideTuple(*o) for o in overrides],
                      additional=[ConfigParserOverrideTuple(*o) for o in additional])
  except _cpm.ConfigOverrideDuplicateException:
    return "add-duplicate"
  except _cpm.ConfigOverrideException:
    return "override-missing"
  except (ConfigurationException, ValueError):
    return "malformed"
  try:
    return snapshot_raw(cp.raw_config_parser)
  except Exception as e:  # noqa
    return "reading the edited parser back raises %s: %s" % (type(e).__name__, e)


def _show(x):
  return x if isinstance(x, str) else {s: dict(e) for s, e in x.items()}


def _rp(overrides, additional, cls):
  got, want = _real(overrides, additional), hand_edit(overrides, additional)
  if same(got, want):
    return False, "parser agrees with hand editing", "agree"
  kind = "rejected" if isinstance(got, str) else ("accepted" if isinstance(want, str) else "differs")
  ws = any(norm(k) != k for (_, k, _) in list(overrides) + list(additional))
  return True, "overrides=%r additional=%r: ConfigParser gives %r, editing the file by hand gives %r" % (overrides, additional, _show(got), _show(want)), \
    "%s-%s%s" % (cls, kind, "-whitespace-key" if ws else "")


def _rp_cli(k1, k2, k3, use_remove, two_groups):
  o1, o2 = "Pair:%s=v1" % KEYS[k1], "Pair:%s=v2" % KEYS[k2]
  overrides = [[o1], [o2]] if two_groups else [[o1, o2]]
  removes = [["Pair:%s" % KEYS[k3]]] if use_remove else None
  from atsim.potentials.tools import potable
  try:
    cp = potable._make_config_parser(io.StringIO(base_text()), overrides, None, removes, None, False)
    got = snapshot_raw(cp.raw_config_parser)
  except _cpm.ConfigOverrideDuplicateException:
    got = "add-duplicate"
  except _cpm.ConfigOverrideException:
    got = "override-missing"
  want = cli_model(overrides, removes, None)
  if same(got, want):
    return False, "CLI agrees", "agree"
  ws = any(norm(KEYS[k]) != KEYS[k] for k in (k1, k2) + ((k3,) if use_remove else ()))
  return True, "--override-item %s %s: potable's parser gives %r, the documented semantics %r" % (overrides, "--remove-item %s" % removes if removes else "", _show(got), _show(want)), \
    "cli-order%s" % ("-whitespace-key" if ws else "")


def _rp_list(*bits):
  base = collections.OrderedDict((s, collections.OrderedDict(e)) for i, (s, e) in enumerate(LIST_SECTIONS) if bits[i])
  if list(base) == ["Variables"]:
    base["Orphan"] = collections.OrderedDict([("anything", "1")])
  cp = ConfigParser(io.StringIO(base_text(base)))
  got = sorted(_query_actions._list_items(cp))
  want = sorted(("%s:%s" % (s, k), v) for s, e in base.items() for k, v in e.items())
  if got == want:
    return False, "--list-items agrees", "agree"
  missing = [w for w in want if w not in got]
  extra = [g for g in got if g not in want or got.count(g) > want.count(g)]
  what = []
  if any(m[0].startswith("Table-Form") for m in missing):
    what.append("table-form-missing")
  if any(m[0].startswith("Variables") for m in missing):
    what.append("variables-missing")
  if extra:
    what.append("inherited-variables-listed")
  if missing and not what:
    what.append("missing")
  return True, "--list-items for sections %s: missing %r, not in the file (or repeated) %r" % (list(base), missing, sorted(set(extra))), "list-items-" + "+".join(what)


# ---------------------------------------------------------------------------
# command line items: SECTION_NAME:KEY=VALUE is taken apart at the first ':' (the second for Table-Form:NAME) and the
# first '=' after it, whatever characters VALUE holds (place-holders ${S:K}, range markers >=, further ':' and '=')

CLI_SECTIONS = ["Pair", "Potential-Form", "Table-Form:tab", "Variables", "Extra"]
CLI_KEYS = ["A-B", "A - B", "f(r,A)", "xy", "v"]
CLI_VALUES = ["as.zero", "${Variables:v} >=2.0 as.zero", ">=2.0 as.zero", "${Extra:v}", "a:b", "a=b", "a:b=c", "a=b:c", "=", ":", "x : y = z", ""]


def _cli_item(sec, key, val, has_value):
  from atsim.potentials.tools import potable
  item = "%s:%s" % (sec, key) + ("=%s" % val if has_value else "")
  t = potable._create_override_tuple(item, has_value)
  return (t.section, t.key, t.value), (sec, key, val if has_value else None)


def cli_item_value(sec: int, key: int, val: int, has_value: bool) -> bool:
  """
  pre: 0 <= sec < 5 and 0 <= key < 5 and 0 <= val < 12
  post: _
  """
  a, b, c = concrete(CLI_SECTIONS[sec]), concrete(CLI_KEYS[key]), concrete(CLI_VALUES[val])
  h = True if has_value else False
  with untraced():
    got, want = _cli_item(a, b, c, h)
    return got == want


def _rp_cli_item(sec, key, val, has_value):
  a, b, c = CLI_SECTIONS[sec], CLI_KEYS[key], CLI_VALUES[val]
  try:
    got, want = _cli_item(a, b, c, bool(has_value))
  except Exception as e:  # noqa
    return True, "potable item %r: %s: %s" % ("%s:%s=%s" % (a, b, c), type(e).__name__, e), "cli-item-" + type(e).__name__
  if got == want:
    return False, "agree", "agree"
  return True, "potable takes the item %r apart as section=%r key=%r value=%r; the documented form SECTION_NAME:KEY=VALUE gives %r" % (
    "%s:%s" % (a, b) + ("=%s" % c if has_value else ""), got[0], got[1], got[2], want), "cli-item-split"


REPLAY = dict(
  one_override=lambda sec, key, val, remove: _rp([(SECTIONS[sec], KEYS[key], None if remove else VALUES[val])], [], "override"),
  one_addition=lambda sec, key, val: _rp([], [(SECTIONS[sec], KEYS[key], VALUES[val])], "add"),
  two_overrides_pair=lambda k1, r1, k2, r2: _rp([("Pair", KEYS[k1], None if r1 else "v1"), ("Pair", KEYS[k2], None if r2 else "v2")], [], "override2"),
  override_then_add=lambda k1, r1, sec2, k2: _rp([("Pair", KEYS[k1], None if r1 else "v1")], [(SECTIONS[sec2], KEYS[k2], "v2")], "override-add"),
  remove_last_key=lambda key, then_add, k2: _rp([("Potential-Form", KEYS[key], None)], [("Potential-Form", KEYS[k2], "v2")] if then_add else [], "remove-last"),
  cli_order=lambda k1, k2, two_groups: _rp_cli(k1, k2, 0, False, two_groups),
  cli_order_remove=lambda k1, k2, k3: _rp_cli(k1, k2, k3, True, False),
  cli_table_form=lambda which, remove: (not cli_table_form(which, remove), "potable override/remove of Table-Form:tab:%s does not equal editing the [Table-Form:tab] section" % ["x", "y", "z"][which], "cli-table-form"),
  list_items=_rp_list,
  cli_two_sections=_rp_cli_sections,
  cli_item_value=_rp_cli_item,
)
