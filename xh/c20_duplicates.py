"""CrossHair conditions for C20: each interaction / form is defined at most once; duplicates are rejected."""
import sys, os, io
sys.path.insert(0, os.path.dirname(os.path.dirname(os.path.abspath(__file__))))
from symx import shims
shims.import_repo()
import logging

from atsim.potentials.config import ConfigParser, Configuration
from atsim.potentials.config._common import ConfigurationException
from xh._untraced import untraced, concrete

TARGETS = {n: "_config_parser.ConfigParser._init_config_parser/_check_for_duplicate_pairs/_TableFormSection.check_for_duplicate_table_forms, "
              "_potential_form_registry._build_potential_forms/_build_table_forms, _eam_potential_builder.EAM_Potential_Builder_FS._density_to_potential_form_dict"
           for n in ("pair_keys3", "form_signatures3", "pair_keys", "density_keys_fs", "embed_keys", "form_signatures", "table_form_headers", "form_kinds", "added_duplicates", "form_kinds_crowded", "added_twice")}

SPECIES = "\n[Species]\nA.atomic_number : 1\nA.atomic_mass : 1.0\nB.atomic_number : 2\nB.atomic_mass : 2.0\n"
HEAD = "[Tabulation]\ntarget : %s\ncutoff : 5.0\nnr : 6\ncutoff_rho : 5.0\nnrho : 6\n\n"


def norm(k):
  # the normal form of a key for the purpose of 'the same thing': no white space of any kind
  return "".join(k.split())


def outcome(text):
  """'rejected' (configuration error), 'accepted' (+ tabulation object) or the name of an internal exception"""
  logging.disable(logging.CRITICAL)
  try:
    try:
      tab = Configuration().read(io.StringIO(text))
      return "accepted", tab
    except ConfigurationException as e:
      return "rejected", e
    except Exception as e:  # noqa
      return type(e).__name__, e
  finally:
    logging.disable(logging.NOTSET)


# (species labels are case sensitive: a and A are two species, a-A and A-a one pair)
PAIR_KEYS = ["A-B", "A - B", "B-A", "B -A", "A-B ", "A-\tB", "A-C", "A-A", "A - A", "B-B", "A-\xa0B", "A\x0b-B", "B-\u2009A", "a-A", "A-a", "a-a", "b-A"]


def pair_same(k1, k2):
  a, b = [s.strip() for s in k1.split("-")], [s.strip() for s in k2.split("-")]
  return sorted(a) == sorted(b)


def _pair_ok(k1, k2):
  text = HEAD % "LAMMPS" + "[Pair]\n%s : as.constant 1.0\n%s : as.constant 2.0\n" % (k1, k2)
  st, x = outcome(text)
  if pair_same(k1, k2):
    return st == "rejected"
  return st == "accepted" and len(x.potentials) == 2


def pair_keys(k1: int, k2: int) -> bool:
  """
  pre: 0 <= k1 < 17 and 0 <= k2 < 17
  post: _
  """
  # a pair may be defined once, in either species order, however the key is spaced
  a, b = concrete(PAIR_KEYS[k1]), concrete(PAIR_KEYS[k2])
  with untraced():
    return _pair_ok(a, b)


DENS_KEYS = ["A->B", "A -> B", "A->B ", "A->\tB", "B->A", "A->A", "B->B", "B -> B", "A->\xa0B", "A\x0c->B"]


def _density_ok(k1, k2):
  text = HEAD % "setfl_fs" + "[Pair]\nA-A : as.zero\n\n[EAM-Embed]\nA : as.zero\nB : as.zero\n\n[EAM-Density]\n%s : as.constant 1.0\n%s : as.constant 2.0\n" % (k1, k2) + SPECIES
  st, x = outcome(text)
  if norm(k1) == norm(k2):
    return st == "rejected"
  return st == "accepted"


def density_keys_fs(k1: int, k2: int) -> bool:
  """
  pre: 0 <= k1 < 10 and 0 <= k2 < 10
  post: _
  """
  a, b = concrete(DENS_KEYS[k1]), concrete(DENS_KEYS[k2])
  with untraced():
    return _density_ok(a, b)


EMBED_KEYS = ["A", "A ", "A\t", "B", "A B"]


def _embed_ok(k1, k2, section):
  other = "EAM-Density" if section == "EAM-Embed" else "EAM-Embed"
  text = HEAD % "setfl" + "[Pair]\nA-A : as.zero\n\n[%s]\n%s : as.constant 1.0\n%s : as.constant 2.0\n\n[%s]\nA : as.zero\nB : as.zero\nAB : as.zero\n" % (section, k1, k2, other)
  text += "\n[Species]\nAB.atomic_number : 3\nAB.atomic_mass : 3.0\nA.atomic_number : 1\nA.atomic_mass : 1.0\nB.atomic_number : 2\nB.atomic_mass : 2.0\n"
  st, x = outcome(text)
  if norm(k1) == norm(k2):
    return st == "rejected"
  return st == "accepted"


def embed_keys(k1: int, k2: int, density: bool) -> bool:
  """
  pre: 0 <= k1 < 5 and 0 <= k2 < 5
  post: _
  """
  a, b = concrete(EMBED_KEYS[k1]), concrete(EMBED_KEYS[k2])
  sec = "EAM-Density" if density else "EAM-Embed"
  with untraced():
    return _embed_ok(a, b, sec)


SIGS = ["f(r,A)", "f(r, A)", "f (r,A)", "f(r,B)", "f( r , A )", "g(r,A)", "f(r,\xa0A)", "f(\x0cr,A)"]


def _forms_ok(k1, k2):
  text = HEAD % "LAMMPS" + "[Pair]\nA-B : f 2.0\n\n[Potential-Form]\n%s = 1.0\n%s = 2.0\n" % (k1, k2)
  st, x = outcome(text)
  l1, l2 = k1.split("(")[0].strip(), k2.split("(")[0].strip()
  if l1 == l2:
    return st == "rejected"
  if "f" not in (l1, l2):
    return True
  return st == "accepted" and x.potentials[0].energy(1.0) == (1.0 if l1 == "f" else 2.0)


def form_signatures(k1: int, k2: int) -> bool:
  """
  pre: 0 <= k1 < 8 and 0 <= k2 < 8
  post: _
  """
  # a custom form label may be defined once, however its signature is spaced or parameterised
  a, b = concrete(SIGS[k1]), concrete(SIGS[k2])
  with untraced():
    return _forms_ok(a, b)


def _forms3_ok(sigs):
  text = HEAD % "LAMMPS" + "[Pair]\nA-B : f 2.0\n\n[Potential-Form]\n" + "".join("%s = %d.0\n" % (sg, i + 1) for i, sg in enumerate(sigs))
  st, x = outcome(text)
  labels = [sg.split("(")[0].strip() for sg in sigs]
  if len(set(labels)) < len(labels) or len(set(norm(sg) for sg in sigs)) < len(sigs):
    return st == "rejected"
  if "f" not in labels:
    return True
  return st == "accepted" and x.potentials[0].energy(1.0) == float(labels.index("f") + 1)


SIGS3 = ["f(r,A)", "f(r, A)", "f(r,B)", "g(r,A)", "h(r,A)"]


def form_signatures3(k1: int, k2: int, k3: int) -> bool:
  """
  pre: 0 <= k1 < 5 and 0 <= k2 < 5 and 0 <= k3 < 5
  post: _
  """
  # duplicates are found wherever they stand in the section (adjacent or separated by other forms)
  a, b, c = concrete(SIGS3[k1]), concrete(SIGS3[k2]), concrete(SIGS3[k3])
  with untraced():
    return _forms3_ok([a, b, c])


PAIR_KEYS3 = ["A-B", "B - A", "A-C", "C-C", "A-B "]


def _pairs3_ok(keys):
  text = HEAD % "LAMMPS" + "[Pair]\n" + "".join("%s : as.constant %d.0\n" % (k, i + 1) for i, k in enumerate(keys))
  st, x = outcome(text)
  dup = any(pair_same(keys[i], keys[j]) for i in range(3) for j in range(i + 1, 3))
  if dup:
    return st == "rejected"
  return st == "accepted" and len(x.potentials) == 3


def pair_keys3(k1: int, k2: int, k3: int) -> bool:
  """
  pre: 0 <= k1 < 5 and 0 <= k2 < 5 and 0 <= k3 < 5
  post: _
  """
  a, b, c = concrete(PAIR_KEYS3[k1]), concrete(PAIR_KEYS3[k2]), concrete(PAIR_KEYS3[k3])
  with untraced():
    return _pairs3_ok([a, b, c])


HEADERS = ["Table-Form:tab", "Table-Form: tab", "Table-Form:tab ", "Table-Form:\ttab", "Table-Form:other"]


def _headers_ok(h1, h2):
  text = HEAD % "LAMMPS" + "[Pair]\nA-B : tab\n\n[%s]\nx : 0 1 2 3 4\ny : 1 1 1 1 1\n\n[%s]\nx : 0 1 2 3 4\ny : 2 2 2 2 2\n" % (h1, h2)
  st, x = outcome(text)
  n1, n2 = h1.split(":", 1)[1].strip(), h2.split(":", 1)[1].strip()
  if n1 == n2:
    return st == "rejected"
  if "tab" not in (n1, n2):
    return True
  return st == "accepted" and abs(x.potentials[0].energy(2.0) - (1.0 if n1 == "tab" else 2.0)) < 1e-9


def table_form_headers(h1: int, h2: int) -> bool:
  """
  pre: 0 <= h1 < 5 and 0 <= h2 < 5
  post: _
  """
  a, b = concrete(HEADERS[h1]), concrete(HEADERS[h2])
  with untraced():
    return _headers_ok(a, b)


# the same clashes in models of another shape: what uses the form is an EAM entry and [Pair] is empty or unrelated (a model must have a [Pair] section)
CONTEXTS = ["empty-pair-section", "density-entry", "pair-and-embed"]


def _ctx_frame(ctx, name):
  pair = {"empty-pair-section": "[Pair]\n\n", "density-entry": "[Pair]\nA-A : as.zero\n\n",
          "pair-and-embed": "[Pair]\nA-A : %s\n\n" % name}[ctx]
  if ctx == "density-entry":
    eam = "[EAM-Embed]\nA : as.zero\n\n[EAM-Density]\nA : %s\n\n" % name
  else:
    eam = "[EAM-Embed]\nA : %s\n\n[EAM-Density]\nA : as.zero\n\n" % name
  return HEAD % "setfl" + pair + eam + "[Species]\nA.atomic_number : 1\nA.atomic_mass : 1.0\n\n"


def _ctx_value(ctx, tab):
  e = tab.eam_potentials[0]
  if ctx == "density-entry":
    return e.electronDensityFunction(2.0)
  return e.embeddingFunction(2.0)


def _headers_ctx_ok(h1, h2, ctx):
  text = _ctx_frame(ctx, "tab") + "[%s]\nx : 0 1 2 3 4\ny : 1 1 1 1 1\n\n[%s]\nx : 0 1 2 3 4\ny : 2 2 2 2 2\n" % (h1, h2)
  st, x = outcome(text)
  n1, n2 = h1.split(":", 1)[1].strip(), h2.split(":", 1)[1].strip()
  if n1 == n2:
    return st == "rejected"
  if "tab" not in (n1, n2):
    return True
  return st == "accepted" and abs(_ctx_value(ctx, x) - (1.0 if n1 == "tab" else 2.0)) < 1e-9


def table_form_headers_contexts(h1: int, h2: int, ctx: int) -> bool:
  """
  pre: 0 <= h1 < 5 and 0 <= h2 < 5 and 0 <= ctx < 3
  post: _
  """
  a, b, c = concrete(HEADERS[h1]), concrete(HEADERS[h2]), concrete(CONTEXTS[ctx])
  with untraced():
    return _headers_ctx_ok(a, b, c)


def _forms_ctx_ok(s1, s2, ctx):
  text = _ctx_frame(ctx, "f 1.0") + "[Potential-Form]\n%s = 1.0\n%s = 2.0\n" % (s1, s2)
  st, x = outcome(text)
  n1, n2 = s1.split("(")[0].strip(), s2.split("(")[0].strip()
  if n1 == n2:
    return st == "rejected"
  return st == "accepted" and abs(_ctx_value(ctx, x) - (1.0 if n1 == "f" else 2.0)) < 1e-9


def form_signatures_contexts(k1: int, k2: int, ctx: int) -> bool:
  """
  pre: 0 <= k1 < 8 and 0 <= k2 < 8 and 0 <= ctx < 3
  post: _
  """
  a, b, c = concrete(SIGS[k1]), concrete(SIGS[k2]), concrete(CONTEXTS[ctx])
  with untraced():
    return _forms_ctx_ok(a, b, c)


def _rp_ctx(ok, text, what, c):
  if ok:
    return False, "as demanded", "agree"
  st, x = outcome(text)
  return True, "%s in a model with %s: %s (%s)\n%s" % (what, c, st, x if st != "accepted" else "the later definition is used silently or the wrong one", text), "context-%s-%s" % (c, st)


def _rp_headers_ctx(h1, h2, ctx):
  a, b, c = HEADERS[h1], HEADERS[h2], CONTEXTS[ctx]
  text = _ctx_frame(c, "tab") + "[%s]\nx : 0 1 2 3 4\ny : 1 1 1 1 1\n\n[%s]\nx : 0 1 2 3 4\ny : 2 2 2 2 2\n" % (a, b)
  return _rp_ctx(_headers_ctx_ok(a, b, c), text, "table forms [%s] and [%s]" % (a, b), c)


def _rp_forms_ctx(k1, k2, ctx):
  a, b, c = SIGS[k1], SIGS[k2], CONTEXTS[ctx]
  text = _ctx_frame(c, "f 1.0") + "[Potential-Form]\n%s = 1.0\n%s = 2.0\n" % (a, b)
  return _rp_ctx(_forms_ctx_ok(a, b, c), text, "custom forms %r and %r" % (a, b), c)


KIND_NAMES = ["myform", "as.buck", "as.zero", "as.buck4", "as.exp_spline", "other"]


def _kinds_text(name, second_kind, table_first, crowded=False):
  table = "[Table-Form:%s]\nx : 0 1 2 3 4\ny : 1 1 1 1 1\n\n" % name
  custom = "[Potential-Form]\n%s%s(r) = 2.0\n\n" % ("unrelated(r, A) = A*r\n" if crowded else "", name) if second_kind == 0 else (
    "[Potential-Form]\nunrelated(r, A) = A*r\n\n" if crowded else "")
  if crowded:
    # the clashing definitions are not the first of their kind in the file
    table = "[Table-Form:zz_other]\nx : 0 1 2 3 4\ny : 3 3 3 3 3\n\n" + table
  body = (table + custom) if table_first else (custom + table)
  return HEAD % "LAMMPS" + "[Pair]\nA-B : %s\n\n" % name + body


def _kinds_ok(name, second_kind, table_first, crowded=False):
  """a table form called `name` together with (0) a custom form of the same name, (1) nothing else:
  a name may denote one thing only - a table form called like a custom form or a built-in form is a duplicate"""
  text = _kinds_text(name, second_kind, table_first, crowded)
  st, x = outcome(text)
  builtin = name.startswith("as.") or name.startswith("pymath.")
  if second_kind == 0 and "." in name:
    return True      # 'as.buck(r) = ...' is not a valid custom form signature: C16's subject
  if second_kind == 0 or builtin:
    return st == "rejected"
  return st == "accepted" and abs(x.potentials[0].energy(2.0) - 1.0) < 1e-9


def form_kinds(name: int, second_kind: int, table_first: bool) -> bool:
  """
  pre: 0 <= name < 6 and 0 <= second_kind < 2
  post: _
  """
  n = concrete(KIND_NAMES[name])
  k = 0 if second_kind == 0 else 1
  tf = True if table_first else False
  with untraced():
    return _kinds_ok(n, k, tf)


def form_kinds_crowded(name: int, second_kind: int, table_first: bool) -> bool:
  """
  pre: 0 <= name < 6 and 0 <= second_kind < 2
  post: _
  """
  # the same with an unrelated table form and an unrelated custom form defined first
  n = concrete(KIND_NAMES[name])
  k = 0 if second_kind == 0 else 1
  tf = True if table_first else False
  with untraced():
    return _kinds_ok(n, k, tf, True)


# ---------------------------------------------------------------------------

# ---------------------------------------------------------------------------
# the second definition arrives through `additional` (potable --add-item) instead of being written in the file

ADD_KINDS = (
  # (section of the first definition and how it is written, candidate keys, value pattern, same-thing predicate)
  ("pair", PAIR_KEYS[:8]),
  ("form", (SIGS[:6] + SIGS[:2])),
  ("header", (HEADERS + HEADERS[:3])),
  ("density", DENS_KEYS[:8]),
)


def _added_model(kind, k1):
  if kind == "pair":
    return HEAD % "LAMMPS" + "[Pair]\n%s : as.constant 1.0\n" % k1, "Pair"
  if kind == "form":
    return HEAD % "LAMMPS" + "[Pair]\nA-B : f 2.0\n\n[Potential-Form]\n%s = 1.0\n" % k1, "Potential-Form"
  if kind == "header":
    return HEAD % "LAMMPS" + "[Pair]\nA-B : tab\n\n[%s]\nxy : 0 1 1 1 2 1 3 1 4 1\n" % k1, None
  return HEAD % "setfl_fs" + "[Pair]\nA-A : as.zero\n\n[EAM-Embed]\nA : as.zero\nB : as.zero\n\n[EAM-Density]\n%s : as.constant 1.0\n" % k1 + SPECIES, "EAM-Density"


def _added_same(kind, k1, k2):
  if kind == "pair":
    return pair_same(k1, k2)
  if kind == "form":
    return k1.split("(")[0].strip() == k2.split("(")[0].strip()
  if kind == "header":
    return k1.split(":", 1)[1].strip() == k2.split(":", 1)[1].strip()
  return norm(k1) == norm(k2)


def added_outcome(kind, k1, k2):
  from atsim.potentials.config import ConfigParser
  from atsim.potentials.config._config_parser import ConfigParserOverrideTuple
  text, section = _added_model(kind, k1)
  if kind == "header":
    item = ConfigParserOverrideTuple(k2, "xy", "0 2 1 2 2 2 3 2 4 2")
  else:
    item = ConfigParserOverrideTuple(section, k2, "2.0" if kind == "form" else "as.constant 2.0")
  logging.disable(logging.CRITICAL)
  try:
    try:
      cp = ConfigParser(io.StringIO(text), additional=[item])
      tab = Configuration().read_from_parser(cp)
      return "accepted", tab
    except ConfigurationException as e:
      return "rejected", e
    except Exception as e:  # noqa
      return type(e).__name__, e
  finally:
    logging.disable(logging.NOTSET)


def added_twice_outcome(kind, k1, k2):
  """the file defines neither; both arrive as additions"""
  from atsim.potentials.config import ConfigParser
  from atsim.potentials.config._config_parser import ConfigParserOverrideTuple
  if kind == "pair":
    text, sec, v1, v2 = HEAD % "LAMMPS" + "[Pair]\nC-C : as.constant 9.0\n", "Pair", "as.constant 1.0", "as.constant 2.0"
  elif kind == "form":
    text, sec, v1, v2 = HEAD % "LAMMPS" + "[Pair]\nA-B : f 2.0\n", "Potential-Form", "1.0", "2.0"
  else:
    text, sec, v1, v2 = HEAD % "setfl_fs" + "[Pair]\nA-A : as.zero\n\n[EAM-Embed]\nA : as.zero\nB : as.zero\n\n[EAM-Density]\nB->B : as.zero\n" + SPECIES, "EAM-Density", "as.constant 1.0", "as.constant 2.0"
  logging.disable(logging.CRITICAL)
  try:
    try:
      cp = ConfigParser(io.StringIO(text), additional=[ConfigParserOverrideTuple(sec, k1, v1), ConfigParserOverrideTuple(sec, k2, v2)])
      return "accepted", Configuration().read_from_parser(cp)
    except ConfigurationException as e:
      return "rejected", e
    except Exception as e:  # noqa
      return type(e).__name__, e
  finally:
    logging.disable(logging.NOTSET)


def _added_twice_ok(kind, k1, k2):
  st, x = added_twice_outcome(kind, k1, k2)
  if _added_same(kind, k1, k2):
    return st == "rejected"
  return st in ("accepted", "rejected") if kind == "form" else st == "accepted"


def added_twice(kind: int, k1: int, k2: int) -> bool:
  """
  pre: 0 <= kind < 3 and 0 <= k1 < 8 and 0 <= k2 < 8
  post: _
  """
  name = concrete(["pair", "form", "density"][kind])
  keys = dict(ADD_KINDS)[name]
  a, b = concrete(keys[k1]), concrete(keys[k2])
  with untraced():
    if name == "form" and "f" not in (a.split("(")[0].strip(), b.split("(")[0].strip()):
      return True
    if name == "pair" and (pair_same(a, "C-C") or pair_same(b, "C-C")):
      return True
    if name == "density" and "B->B" in (norm(a), norm(b)):
      return True      # (clashes with the file's own entry: added_duplicates' subject)
    return _added_twice_ok(name, a, b)


def _rp_added_twice(kind, k1, k2):
  name = ["pair", "form", "density"][kind]
  keys = dict(ADD_KINDS)[name]
  a, b = keys[k1], keys[k2]
  if name == "form" and "f" not in (a.split("(")[0].strip(), b.split("(")[0].strip()):
    return False, "not a model", "agree"
  if name == "density" and "B->B" in (norm(a), norm(b)):
    return False, "clashes with the file's own entry", "agree"
  if _added_twice_ok(name, a, b):
    return False, "as specified", "agree"
  st, x = added_twice_outcome(name, a, b)
  return True, "%r and %r both arrive through `additional` / two --add-item options (the file defines neither): %s" % (a, b, st), "added-twice-%s-%s" % (name, st)


def _added_ok(kind, k1, k2):
  st, x = added_outcome(kind, k1, k2)
  if _added_same(kind, k1, k2):
    return st == "rejected"
  if st != "accepted":
    return False
  # the definition written in the file is the one tabulated
  if kind == "pair":
    return len(x.potentials) == 2
  if kind == "form":
    return k1.split("(")[0].strip() != "f" or abs(x.potentials[0].energy(2.0) - 1.0) < 1e-9
  if kind == "header":
    return k1.split(":", 1)[1].strip() != "tab" or abs(x.potentials[0].energy(2.0) - 1.0) < 1e-9
  return True


def added_duplicates(kind: int, k1: int, k2: int) -> bool:
  """
  pre: 0 <= kind < 4 and 0 <= k1 < 8 and 0 <= k2 < 8
  post: _
  """
  name, keys = ADD_KINDS[kind]
  name, a, b = concrete(name), concrete(keys[k1]), concrete(keys[k2])
  with untraced():
    if name == "form" and "f" not in (a.split("(")[0].strip(), b.split("(")[0].strip()):
      return True
    if name == "header" and "tab" not in (a.split(":", 1)[1].strip(), b.split(":", 1)[1].strip()):
      return True
    if name == "header" and a.split(":", 1)[1].strip() != "tab":
      return True      # the file must define the table the pair uses
    if name == "form" and a.split("(")[0].strip() != "f":
      return True
    return _added_ok(name, a, b)


def _rp_added(kind, k1, k2):
  name, keys = ADD_KINDS[kind]
  a, b = keys[k1], keys[k2]
  if name == "form" and a.split("(")[0].strip() != "f":
    return False, "not a model (the pair's form is not defined in the file)", "agree"
  if name == "header" and a.split(":", 1)[1].strip() != "tab":
    return False, "not a model (the pair's table is not defined in the file)", "agree"
  ok = _added_ok(name, a, b)
  if ok:
    return False, "as specified", "agree"
  st, x = added_outcome(name, a, b)
  same = _added_same(name, a, b)
  follows = ""
  if st == "accepted":
    try:
      follows = "; the tabulated function gives %r at r=2 (the file's definition gives 1.0)" % x.potentials[0].energy(2.0)
    except Exception:  # noqa
      pass
  return True, "the file defines %r, the same thing is then added as %r through `additional` / --add-item: %s%s" % (a, b, st, follows) if same else \
    "the file defines %r and %r is added through `additional`: %s (%s)" % (a, b, st, x), "added-%s-%s" % (name, ("duplicate-" + st) if same else ("distinct-" + st))


def _describe(text, want_reject):
  st, x = outcome(text)
  if want_reject:
    if st == "rejected":
      return False, "rejected as a configuration error", "agree"
    if st == "accepted":
      follows = ""
      try:
        follows = "; the tabulated function gives %r at r=2" % x.potentials[0].energy(2.0)
      except Exception:
        pass
      return True, "a duplicated definition is accepted silently%s:\n%s" % (follows, text[text.index("[Pair]"):]), "duplicate-accepted"
    return True, "a duplicated definition ends in %s: %s instead of a configuration error:\n%s" % (st, x, text[text.index("[Pair]"):]), "duplicate-" + st
  if st == "accepted":
    return False, "accepted", "agree"
  return True, "two different definitions are refused (%s: %s):\n%s" % (st, x, text[text.index("[Pair]"):]), "distinct-" + st


def _rp_pair(k1, k2):
  a, b = PAIR_KEYS[k1], PAIR_KEYS[k2]
  text = HEAD % "LAMMPS" + "[Pair]\n%s : as.constant 1.0\n%s : as.constant 2.0\n" % (a, b)
  c, d, k = _describe(text, pair_same(a, b))
  ws = "-whitespace" if (norm(a) != a or norm(b) != b) and a.strip() != b.strip() else ""
  return c, d, "pair-" + k + ws


def _rp_density(k1, k2):
  a, b = DENS_KEYS[k1], DENS_KEYS[k2]
  text = HEAD % "setfl_fs" + "[Pair]\nA-A : as.zero\n\n[EAM-Embed]\nA : as.zero\nB : as.zero\n\n[EAM-Density]\n%s : as.constant 1.0\n%s : as.constant 2.0\n" % (a, b) + SPECIES
  c, d, k = _describe(text, norm(a) == norm(b))
  return c, d, "density-" + k


def _rp_embed(k1, k2, density):
  a, b = EMBED_KEYS[k1], EMBED_KEYS[k2]
  ok = _embed_ok(a, b, "EAM-Density" if density else "EAM-Embed")
  return (not ok), "[%s] entries %r and %r: %s" % ("EAM-Density" if density else "EAM-Embed", a, b, "as specified" if ok else "not handled as specified (duplicate must be rejected, distinct accepted)"), "embed"


def _rp_forms(k1, k2):
  a, b = SIGS[k1], SIGS[k2]
  text = HEAD % "LAMMPS" + "[Pair]\nA-B : f 2.0\n\n[Potential-Form]\n%s = 1.0\n%s = 2.0\n" % (a, b)
  c, d, k = _describe(text, a.split("(")[0].strip() == b.split("(")[0].strip())
  return c, d, "form-" + k


def _rp_headers(h1, h2):
  a, b = HEADERS[h1], HEADERS[h2]
  text = HEAD % "LAMMPS" + "[Pair]\nA-B : tab\n\n[%s]\nx : 0 1 2 3 4\ny : 1 1 1 1 1\n\n[%s]\nx : 0 1 2 3 4\ny : 2 2 2 2 2\n" % (a, b)
  c, d, k = _describe(text, a.split(":", 1)[1].strip() == b.split(":", 1)[1].strip())
  return c, d, "table-header-" + k


def _rp_kinds(name, second_kind, table_first, crowded=False):
  n = KIND_NAMES[name]
  text = _kinds_text(n, second_kind, table_first, crowded)
  builtin = n.startswith("as.") or n.startswith("pymath.")
  c, d, k = _describe(text, second_kind == 0 or builtin)
  return c, d, "kinds-%s-%s" % ("table+custom" if second_kind == 0 else "table-named-like-builtin", k)


def _rp_forms3(k1, k2, k3):
  sigs = [SIGS3[k1], SIGS3[k2], SIGS3[k3]]
  text = HEAD % "LAMMPS" + "[Pair]\nA-B : f 2.0\n\n[Potential-Form]\n" + "".join("%s = %d.0\n" % (sg, i + 1) for i, sg in enumerate(sigs))
  labels = [sg.split("(")[0].strip() for sg in sigs]
  c, d, k = _describe(text, len(set(labels)) < len(labels))
  adjacent = labels[0] == labels[1] or labels[1] == labels[2]
  return c, d, "form3-" + k + ("" if adjacent else "-not-adjacent")


def _rp_pairs3(k1, k2, k3):
  keys = [PAIR_KEYS3[k1], PAIR_KEYS3[k2], PAIR_KEYS3[k3]]
  text = HEAD % "LAMMPS" + "[Pair]\n" + "".join("%s : as.constant %d.0\n" % (k, i + 1) for i, k in enumerate(keys))
  dup = any(pair_same(keys[i], keys[j]) for i in range(3) for j in range(i + 1, 3))
  c, d, k = _describe(text, dup)
  return c, d, "pair3-" + k


def _after_other_model(rp):
  """a counterexample that only shows after other models were tabulated in the process (state kept in class or module level
  objects): the replay tabulates an ordinary model first and tries again"""
  def run(*a, **k):
    r = rp(*a, **k)
    if r[0]:
      return r
    outcome(HEAD % "LAMMPS" + "[Pair]\nA-B : as.buck 1000.0 0.3 10.0\nB-B : as.buck4 1000.0 0.3 10.0 1.2 2.1 2.6\n")
    outcome(HEAD % "setfl" + "[Pair]\nA-A : as.zero\n\n[EAM-Embed]\nA : as.zero\n\n[EAM-Density]\nA : as.zero\n" + SPECIES)
    r = rp(*a, **k)
    if r[0]:
      return True, r[1] + " (after two ordinary models were tabulated in this process)", r[2] + "-after-other-models"
    return r
  return run


REPLAY = dict((k_, _after_other_model(v_)) for k_, v_ in dict(table_form_headers_contexts=_rp_headers_ctx, form_signatures_contexts=_rp_forms_ctx, added_duplicates=_rp_added, added_twice=_rp_added_twice, form_signatures3=_rp_forms3, pair_keys3=_rp_pairs3, pair_keys=_rp_pair, density_keys_fs=_rp_density, embed_keys=_rp_embed, form_signatures=_rp_forms, table_form_headers=_rp_headers, form_kinds=_rp_kinds, form_kinds_crowded=lambda name, second_kind, table_first: _rp_kinds(name, second_kind, table_first, True)).items())
