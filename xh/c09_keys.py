"""CrossHair conditions for C09/C14/C20: option-key normalisation."""
import sys, os
sys.path.insert(0, os.path.dirname(os.path.dirname(os.path.abspath(__file__))))
from symx import shims
shims.import_repo()

from atsim.potentials.config._config_parser import _ConfigParserDict

TARGETS = dict(key_transform_spec="_config_parser._ConfigParserDict._key_transform",
               key_transform_idempotent="_config_parser._ConfigParserDict._key_transform",
               dict_key_access="_config_parser._ConfigParserDict.__setitem__/__getitem__/__delitem__")


def key_transform_spec(k: str) -> bool:
  """
  pre: len(k) <= 4
  post: _
  """
  # the normal form of a key is the key with exactly its spaces and tabs removed
  got = _ConfigParserDict()._key_transform(k)
  want = "".join(c for c in k.strip() if c != " " and c != "\t")
  return got == want


def key_transform_idempotent(k: str) -> bool:
  """
  pre: len(k) <= 4
  post: _
  """
  d = _ConfigParserDict()
  once = d._key_transform(k)
  return d._key_transform(once) == once


def dict_key_access(k1: str, k2: str) -> bool:
  """
  pre: len(k1) <= 2 and len(k2) <= 2
  pre: all(c in "Ab- \\t>" for c in k1) and all(c in "Ab- \\t>" for c in k2)
  post: _
  """
  # two spellings address the same entry exactly when their normal forms agree
  d = _ConfigParserDict()
  d[k1] = "v"
  n1 = "".join(c for c in k1.strip() if c not in " \t")
  n2 = "".join(c for c in k2.strip() if c not in " \t")
  try:
    got = d[k2]
    found = True
  except KeyError:
    found = False
  if found != (n1 == n2):
    return False
  if found:
    del d[k2]
    return len(d) == 0
  return len(d) == 1


def _rp_spec(k):
  got = _ConfigParserDict()._key_transform(k)
  want = "".join(c for c in k.strip() if c != " " and c != "\t")
  return got != want, "_key_transform(%r) = %r, spaces/tabs removed gives %r" % (k, got, want), "key-transform"


def _rp_idem(k):
  d = _ConfigParserDict()
  once = d._key_transform(k)
  return d._key_transform(once) != once, "_key_transform is not idempotent on %r: %r -> %r" % (k, once, d._key_transform(once)), "key-transform-idempotent"


def _rp_access(k1, k2):
  ok = dict_key_access(k1, k2)
  return (not ok), "_ConfigParserDict: set %r, access %r behaves inconsistently with the normal forms" % (k1, k2), "dict-key-access"


REPLAY = dict(key_transform_spec=_rp_spec, key_transform_idempotent=_rp_idem, dict_key_access=_rp_access)
