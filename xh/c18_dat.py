"""CrossHair conditions for C18: DatReader._populate (legacy TableReader input)."""
import sys, os
sys.path.insert(0, os.path.dirname(os.path.dirname(os.path.abspath(__file__))))
from symx import shims
shims.import_repo()
from typing import List

from atsim.potentials._tablereaders import DatReader

TARGETS = dict(dat_suffix="_tablereaders.DatReader._populate", dat_rows="_tablereaders.DatReader._populate", dat_rows_three="_tablereaders.DatReader._populate")


def spec_rows(lines):
  """Specification parse: one 'x y' row per line that is neither blank nor a
  comment; rows sorted by x (then y)."""
  out = []
  for line in lines:
    if line.endswith("\n"):
      line = line[:-1]
    line = line.strip()
    if len(line) == 0 or line[0] == "#":
      continue
    toks = line.split()
    out.append((float(toks[0]), float(toks[1])))
  out.sort()
  return out


def dat_rows(lines: List[str]) -> bool:
  """
  pre: 1 <= len(lines) <= 2
  pre: all(1 <= len(l) <= 5 for l in lines)
  pre: all(c in "12. #\\n" for l in lines for c in l)
  pre: all("\\n" not in l[:-1] for l in lines)
  pre: all(l.endswith("\\n") for l in lines[:-1])
  post: _
  """
  try:
    want = spec_rows(lines)
  except (ValueError, IndexError):
    return True          # not a well-formed table: outside this condition
  r = DatReader(lines)
  return list(r) == want


def dat_rows_three(a: str, b: str, c: str, last_newline: bool) -> bool:
  """
  pre: len(a) <= 1 and len(b) <= 1 and len(c) <= 2
  pre: all(ch in "7#" for ch in a) and all(ch in "3 " for ch in b) and all(ch in "12." for ch in c)
  post: _
  """
  # three rows with fixed skeletons and symbolic pieces: comment / unsorted rows / final line with or without newline
  lines = ["#" + a + "\n", "2" + b + " 5\n", "\n", "1 4" + c + ("\n" if last_newline else "")]
  try:
    want = spec_rows(lines)
  except (ValueError, IndexError):
    return True
  r = DatReader(lines)
  return list(r) == want


def dat_suffix(s: str, t: str, last_newline: bool) -> bool:
  """
  pre: len(s) <= 3 and len(t) <= 3
  pre: all(ch in " #7" for ch in s) and all(ch in " #\t" for ch in t)
  post: _
  """
  # two data rows followed by arbitrary trailing text (extra columns, trailing comments, blanks)
  lines = ["3 4" + s + "\n", "1 2" + t + ("\n" if last_newline else "")]
  try:
    want = spec_rows(lines)
  except (ValueError, IndexError):
    return True
  r = DatReader(lines)
  return list(r) == want


def _replay(lines):
  import io
  text = "".join(lines)
  try:
    want = spec_rows(lines)
  except (ValueError, IndexError) as e:
    return False, "input is not a well-formed table (%s)" % e, "malformed"
  try:
    got = list(DatReader(io.StringIO(text)))
  except Exception as e:  # noqa
    return True, "DatReader(%r) raised %s: %s; the file holds the rows %r" % (text, type(e).__name__, e, want), "dat-raises-" + type(e).__name__
  if got != want:
    return True, "DatReader(%r) holds %r, the file's rows are %r" % (text, got, want), "dat-rows-differ"
  return False, "DatReader agrees with the specification parse on %r" % text, "agree"


REPLAY = dict(
  dat_suffix=lambda s, t, last_newline: _replay(["3 4" + s + "\n", "1 2" + t + ("\n" if last_newline else "")]),
  dat_rows=lambda lines: _replay(lines),
  dat_rows_three=lambda a, b, c, last_newline: _replay(["#" + a + "\n", "2" + b + " 5\n", "\n", "1 4" + c + ("\n" if last_newline else "")]),
)
