"""CrossHair conditions for C13: FilteredConfigParser views equal the specification filter."""
import sys, os, io
import collections
sys.path.insert(0, os.path.dirname(os.path.dirname(os.path.abspath(__file__))))
from symx import shims
shims.import_repo()
from typing import List
from xh._untraced import untraced, concrete

from atsim.potentials.config import ConfigParser, FilteredConfigParser

PAIR_MODEL = """[Pair]
Mg-O : as.buck 1279.69 0.29969 0.0
O-Al : as.buck 1361.29 0.3013 0.0
O-O : as.buck 9547.96 0.21916 32.0
Al-Mg : as.zero
"""
EAM_MODEL = """[Pair]
Al-Al : as.zero
Cu-Al : as.zero
[EAM-Embed]
Al : as.zero
Cu : as.zero
Ni : as.zero
[EAM-Density]
Cu : as.zero
Ni : as.zero
Al : as.zero
"""
FS_MODEL = """[Pair]
Al-Al : as.zero
Fe-Al : as.zero
[EAM-Embed]
Al : as.zero
Fe : as.zero
[EAM-Density]
Al->Al : as.zero
Fe->Al : as.zero
Al->Fe : as.zero
Fe->Fe : as.zero
Ni->Fe : as.zero
"""
CHARGED_MODEL = """[Pair]
Ce4+-O2- : as.zero
O2--Ce3+ : as.zero
O2--O2- : as.zero
Ce3+-Ce4+ : as.zero
[EAM-Embed]
Ce4+ : as.zero
Ce3+ : as.zero
[EAM-Density]
Ce4+->Ce3+ : as.zero
Ce3+->Ce4+ : as.zero
Ce3+->Ce3+ : as.zero
O2-->Ce4+ : as.zero
"""
UNIV = ["Al", "O", "Mg", "Cu", "Ni", "Fe", "Zz"]
PAIR = ConfigParser(io.StringIO(PAIR_MODEL))
EAM = ConfigParser(io.StringIO(EAM_MODEL))
FS = ConfigParser(io.StringIO(FS_MODEL))
try:
  CHARGED = ConfigParser(io.StringIO(CHARGED_MODEL.replace("O2-", "O")))
except Exception:  # noqa
  CHARGED = None

TARGETS = {n: "_filtered_config_parser.FilteredConfigParser.__init__/_check_tuple/pair/eam_embed/eam_density/eam_density_fs"
           for n in ("one_view_charged", "one_view_pair", "one_view_eam", "one_view_fs", "two_views_pair", "two_views_eam", "two_views_fs")}
TARGETS.update({n: "FilteredConfigParser views handed to Configuration.read_from_parser (EAM_Potential_Builder(_FS), Pair_Potential_Builder, tabulation factories)"
                for n in ("two_tabs_eam", "two_tabs_fs", "two_tabs_pair", "two_tabs_eam_after_plain", "two_tabs_fs_after_plain", "two_tabs_pair_after_plain")})
TARGETS["one_view_containers"] = TARGETS["one_view_pair"]


def labels(idx):
  return [UNIV[i] for i in idx]


def keyset(species):
  if isinstance(species, str):
    return (species,)
  return tuple(species)


def spec(entries, species, exclude):
  """deleting by hand: exclude drops entries mentioning a listed species, include keeps entries whose species are all listed"""
  out = []
  for e in entries:
    ks = keyset(e.species)
    if exclude:
      keep = not any(k in species for k in ks)
    else:
      keep = all(k in species for k in ks)
    if keep:
      out.append(e)
  return out


def make_view(cp, species, exclude):
  if exclude:
    return FilteredConfigParser(cp, exclude=species)
  return FilteredConfigParser(cp, include=species)


def views_of(model):
  cp = (PAIR, EAM, FS, CHARGED)[model]
  names = (["pair"], ["pair", "eam_embed", "eam_density"], ["pair", "eam_embed", "eam_density_fs"], ["pair", "eam_embed", "eam_density_fs"])[model]
  return cp, names


def _touch_other_accessors(view, names):
  for other in ("eam_density", "eam_density_fs"):
    if other not in names:
      try:
        getattr(view, other)
      except Exception:  # noqa
        pass


def check_view(view, cp, names, species, exclude):
  # every public accessor may be read, in any order, before the ones the model uses (a Finnis-Sinclair view is also asked
  # for its plain-EAM reading of [EAM-Density] and vice versa; what that returns is not compared)
  for other in ("eam_density", "eam_density_fs"):
    if other not in names:
      try:
        getattr(view, other)
      except Exception:  # noqa
        pass
  for n in names:
    if getattr(view, n) != spec(getattr(cp, n), species, exclude):
      return False
  return True


MODEL_UNIV = (("Al", "O", "Mg", "Zz"), ("Al", "Cu", "Ni", "Zz"), ("Al", "Fe", "Ni", "Zz"), ("Ce4+", "Ce3+", "O", "Ce"))


def mlabels(model, idx):
  u = MODEL_UNIV[model]
  return [u[i] for i in idx]


def _one(model, idx, exclude):
  cp, names = views_of(model)
  species = mlabels(model, idx)
  return check_view(make_view(cp, species, exclude), cp, names, species, exclude)


def one_view_pair(idx: List[int], exclude: bool) -> bool:
  """
  pre: len(idx) <= 3 and all(0 <= i < 4 for i in idx)
  post: _
  """
  return _one(0, idx, exclude)


def one_view_eam(idx: List[int], exclude: bool) -> bool:
  """
  pre: len(idx) <= 3 and all(0 <= i < 4 for i in idx)
  post: _
  """
  return _one(1, idx, exclude)


def one_view_fs(idx: List[int], exclude: bool) -> bool:
  """
  pre: len(idx) <= 3 and all(0 <= i < 4 for i in idx)
  post: _
  """
  return _one(2, idx, exclude)


def one_view_charged(idx: List[int], exclude: bool) -> bool:
  """
  pre: len(idx) <= 3 and all(0 <= i < 4 for i in idx)
  post: _
  """
  # species labels are arbitrary text: charges ('Ce4+'), labels that are prefixes of others ('Ce')
  return _one(3, idx, exclude)


CONTAINERS = ["list", "tuple", "set", "frozenset", "dict-keys", "generator-free-iterable"]


def _as_container(species, kind):
  if kind == "list":
    return list(species)
  if kind == "tuple":
    return tuple(species)
  if kind == "set":
    return set(species)
  if kind == "frozenset":
    return frozenset(species)
  if kind == "dict-keys":
    return dict((s_, 1) for s_ in species).keys()
  return collections.deque(species)


def _one_container(model, idx, exclude, kind):
  cp, names = views_of(model)
  species = mlabels(model, idx)
  c = _as_container(species, kind)
  view = FilteredConfigParser(cp, exclude=c) if exclude else FilteredConfigParser(cp, include=c)
  return check_view(view, cp, names, species, exclude)


def one_view_containers(model: int, idx: List[int], exclude: bool, kind: int) -> bool:
  """
  pre: 0 <= model < 3 and len(idx) <= 2 and all(0 <= i < 4 for i in idx) and 0 <= kind < 6
  post: _
  """
  # the species may be handed over in any collection (list, tuple, set, frozenset, dict keys, deque)
  m = [0, 1, 2][model]
  k = concrete(CONTAINERS[kind])
  return _one_container(m, idx, exclude, k)


def _rp_containers(model, idx, exclude, kind):
  cp, names = views_of(model)
  species = mlabels(model, idx)
  c = _as_container(species, CONTAINERS[kind])
  view = FilteredConfigParser(cp, exclude=c) if exclude else FilteredConfigParser(cp, include=c)
  for n in names:
    got, want = getattr(view, n), spec(getattr(cp, n), species, exclude)
    if got != want:
      return True, "FilteredConfigParser(%s=%r given as a %s).%s keeps %r; deleting by hand keeps %r" % (
        "exclude" if exclude else "include", species, CONTAINERS[kind], n, [e.species for e in got], [e.species for e in want]), "container-%s" % CONTAINERS[kind]
  return False, "view agrees with the specification", "agree"


def _two(model, idx1, ex1, idx2, ex2, second_first):
  # a filtered view is unaffected by any other filtered view created from the same parsed file
  cp, names = views_of(model)
  s1, s2 = mlabels(model, idx1), mlabels(model, idx2)
  v1 = make_view(cp, s1, ex1)
  v2 = make_view(cp, s2, ex2)
  if second_first:
    return check_view(v2, cp, names, s2, ex2) and check_view(v1, cp, names, s1, ex1)
  return check_view(v1, cp, names, s1, ex1) and check_view(v2, cp, names, s2, ex2)


def two_views_pair(idx1: List[int], ex1: bool, idx2: List[int], ex2: bool, second_first: bool) -> bool:
  """
  pre: len(idx1) <= 1 and all(0 <= i < 4 for i in idx1)
  pre: len(idx2) <= 1 and all(0 <= i < 4 for i in idx2)
  post: _
  """
  return _two(0, idx1, ex1, idx2, ex2, second_first)


def two_views_eam(idx1: List[int], ex1: bool, idx2: List[int], ex2: bool, second_first: bool) -> bool:
  """
  pre: len(idx1) <= 1 and all(0 <= i < 4 for i in idx1)
  pre: len(idx2) <= 1 and all(0 <= i < 4 for i in idx2)
  post: _
  """
  return _two(1, idx1, ex1, idx2, ex2, second_first)


def two_views_fs(idx1: List[int], ex1: bool, idx2: List[int], ex2: bool, second_first: bool) -> bool:
  """
  pre: len(idx1) <= 1 and all(0 <= i < 4 for i in idx1)
  pre: len(idx2) <= 1 and all(0 <= i < 4 for i in idx2)
  post: _
  """
  return _two(2, idx1, ex1, idx2, ex2, second_first)


def two_views2_pair_i_i(idx1: List[int], idx2: List[int], second_first: bool) -> bool:
  """
  pre: len(idx1) <= 2 and all(0 <= i < 4 for i in idx1)
  pre: len(idx2) <= 2 and all(0 <= i < 4 for i in idx2)
  post: _
  """
  return _two(0, idx1, False, idx2, False, second_first)


def two_views2_pair_i_x(idx1: List[int], idx2: List[int], second_first: bool) -> bool:
  """
  pre: len(idx1) <= 2 and all(0 <= i < 4 for i in idx1)
  pre: len(idx2) <= 2 and all(0 <= i < 4 for i in idx2)
  post: _
  """
  return _two(0, idx1, False, idx2, True, second_first)


def two_views2_pair_x_i(idx1: List[int], idx2: List[int], second_first: bool) -> bool:
  """
  pre: len(idx1) <= 2 and all(0 <= i < 4 for i in idx1)
  pre: len(idx2) <= 2 and all(0 <= i < 4 for i in idx2)
  post: _
  """
  return _two(0, idx1, True, idx2, False, second_first)


def two_views2_pair_x_x(idx1: List[int], idx2: List[int], second_first: bool) -> bool:
  """
  pre: len(idx1) <= 2 and all(0 <= i < 4 for i in idx1)
  pre: len(idx2) <= 2 and all(0 <= i < 4 for i in idx2)
  post: _
  """
  return _two(0, idx1, True, idx2, True, second_first)


def two_views2_eam_i_i(idx1: List[int], idx2: List[int], second_first: bool) -> bool:
  """
  pre: len(idx1) <= 2 and all(0 <= i < 4 for i in idx1)
  pre: len(idx2) <= 2 and all(0 <= i < 4 for i in idx2)
  post: _
  """
  return _two(1, idx1, False, idx2, False, second_first)


def two_views2_eam_i_x(idx1: List[int], idx2: List[int], second_first: bool) -> bool:
  """
  pre: len(idx1) <= 2 and all(0 <= i < 4 for i in idx1)
  pre: len(idx2) <= 2 and all(0 <= i < 4 for i in idx2)
  post: _
  """
  return _two(1, idx1, False, idx2, True, second_first)


def two_views2_eam_x_i(idx1: List[int], idx2: List[int], second_first: bool) -> bool:
  """
  pre: len(idx1) <= 2 and all(0 <= i < 4 for i in idx1)
  pre: len(idx2) <= 2 and all(0 <= i < 4 for i in idx2)
  post: _
  """
  return _two(1, idx1, True, idx2, False, second_first)


def two_views2_eam_x_x(idx1: List[int], idx2: List[int], second_first: bool) -> bool:
  """
  pre: len(idx1) <= 2 and all(0 <= i < 4 for i in idx1)
  pre: len(idx2) <= 2 and all(0 <= i < 4 for i in idx2)
  post: _
  """
  return _two(1, idx1, True, idx2, True, second_first)


def two_views2_fs_i_i(idx1: List[int], idx2: List[int], second_first: bool) -> bool:
  """
  pre: len(idx1) <= 2 and all(0 <= i < 4 for i in idx1)
  pre: len(idx2) <= 2 and all(0 <= i < 4 for i in idx2)
  post: _
  """
  return _two(2, idx1, False, idx2, False, second_first)


def two_views2_fs_i_x(idx1: List[int], idx2: List[int], second_first: bool) -> bool:
  """
  pre: len(idx1) <= 2 and all(0 <= i < 4 for i in idx1)
  pre: len(idx2) <= 2 and all(0 <= i < 4 for i in idx2)
  post: _
  """
  return _two(2, idx1, False, idx2, True, second_first)


def two_views2_fs_x_i(idx1: List[int], idx2: List[int], second_first: bool) -> bool:
  """
  pre: len(idx1) <= 2 and all(0 <= i < 4 for i in idx1)
  pre: len(idx2) <= 2 and all(0 <= i < 4 for i in idx2)
  post: _
  """
  return _two(2, idx1, True, idx2, False, second_first)


def two_views2_fs_x_x(idx1: List[int], idx2: List[int], second_first: bool) -> bool:
  """
  pre: len(idx1) <= 2 and all(0 <= i < 4 for i in idx1)
  pre: len(idx2) <= 2 and all(0 <= i < 4 for i in idx2)
  post: _
  """
  return _two(2, idx1, True, idx2, True, second_first)


# ---------------------------------------------------------------------------
# views that are tabulated: the objects built from a view equal those built from a hand-edited copy of the file

TAB_MODELS = (
  ("setfl", (("Pair", (("Al-Al", "as.constant 1"), ("Cu-Al", "as.constant 2"), ("Ni-Ni", "as.constant 3"))),
             ("EAM-Embed", (("Al", "as.constant 4"), ("Cu", "as.constant 5"), ("Ni", "as.constant 6"))),
             ("EAM-Density", (("Cu", "as.constant 7"), ("Ni", "as.constant 8"), ("Al", "as.constant 9"))))),
  ("setfl_fs", (("Pair", (("Al-Al", "as.constant 1"), ("Cu-Al", "as.constant 2"))),
                ("EAM-Embed", (("Al", "as.constant 4"), ("Cu", "as.constant 5"))),
                ("EAM-Density", (("Al->Al", "as.constant 6"), ("Cu->Al", "as.constant 7"), ("Al->Cu", "as.constant 8"), ("Cu->Cu", "as.constant 9"), ("Ni->Cu", "as.constant 10"))))),
  ("LAMMPS", (("Pair", (("Al-Al", "as.constant 1"), ("Cu-Al", "as.constant 2"), ("Ni-Cu", "as.constant 3"), ("Ni-Ni", "as.constant 4"))),)),
)
_TAB_HEAD = "[Tabulation]\ntarget : %s\ncutoff : 4.0\nnr : 5\ncutoff_rho : 3.0\nnrho : 4\n"


def tab_text(model, species=None, exclude=False):
  """the model file; with `species` given, the copy from which the unwanted entries were deleted by hand"""
  target, sections = TAB_MODELS[model]
  out = [_TAB_HEAD % target]
  for sec, items in sections:
    out.append("[%s]" % sec)
    for k, v in items:
      ks = k.split("->") if "->" in k else k.split("-")
      if species is not None:
        if exclude and any(x in species for x in ks):
          continue
        if not exclude and not all(x in species for x in ks):
          continue
      out.append("%s : %s" % (k, v))
  return "\n".join(out) + "\n"


def tab_signature(parser):
  """what tabulating from `parser` is made of: species in order, the functions identified by their values"""
  from atsim.potentials.config import Configuration
  try:
    tab = Configuration().read_from_parser(parser)
  except Exception as e:  # noqa
    return ("raises", type(e).__name__)
  sig = [("target", type(tab).__name__)]
  for p in tab.potentials:
    sig.append(("pair", p.speciesA, p.speciesB, p.energy(1.0)))
  for p in getattr(tab, "eam_potentials", ()):
    dens = p.electronDensityFunction
    if isinstance(dens, dict):
      dens = tuple(sorted((k, f(1.0)) for k, f in dens.items()))
    else:
      dens = dens(1.0)
    sig.append(("eam", p.species, p.embeddingFunction(1.0), dens))
  return tuple(sig)


TAB_PARSERS = [ConfigParser(io.StringIO(tab_text(m))) for m in range(len(TAB_MODELS))]
TAB_UNIV = ("Al", "Cu", "Ni", "Zz")
# species lists a view is made with: every subset of three labels (one of them unknown to the models)
TAB_SUBSETS = ((), ("Al",), ("Cu",), ("Al", "Cu"), ("Zz",), ("Zz", "Al"), ("Cu", "Zz"), ("Cu", "Al", "Zz"))
_EXPECTED = {}


def _tab_expected(model, species, exclude):
  # (memoised: always computed from a freshly parsed copy of the hand-edited text)
  k = (model, None if species is None else tuple(species), exclude)
  if k not in _EXPECTED:
    _EXPECTED[k] = tab_signature(ConfigParser(io.StringIO(tab_text(model, species, exclude))))
  return _EXPECTED[k]


def _conc(idx1, ex1, idx2, ex2, second_first, plain_first):
  # traced: every symbolic input becomes a plain value by indexing / branching
  s1 = [concrete(x) for x in TAB_SUBSETS[idx1]]
  s2 = [concrete(x) for x in TAB_SUBSETS[idx2]]
  return (s1, True if ex1 else False, s2, True if ex2 else False, True if second_first else False, True if plain_first else False)


def _tabs(model, s1, ex1, s2, ex2, second_first, plain_first):
  cp = TAB_PARSERS[model]
  bad = []
  if plain_first and tab_signature(cp) != _tab_expected(model, None, False):
    bad.append(("unfiltered", None, None))
  v1, v2 = make_view(cp, s1, ex1), make_view(cp, s2, ex2)
  order = [(v2, s2, ex2, "second"), (v1, s1, ex1, "first")] if second_first else [(v1, s1, ex1, "first"), (v2, s2, ex2, "second")]
  for v, s_, ex, who in order:
    got, want = tab_signature(v), _tab_expected(model, s_, ex)
    if got != want:
      bad.append((who, got, want))
  # and the parsed file itself is left as it was
  if plain_first and tab_signature(cp) != _tab_expected(model, None, False):
    bad.append(("unfiltered-afterwards", None, None))
  return bad


def two_tabs_eam(idx1: int, ex1: bool, idx2: int, ex2: bool, second_first: bool) -> bool:
  """
  pre: 0 <= idx1 < 8 and 0 <= idx2 < 8
  post: _
  """
  a = _conc(idx1, ex1, idx2, ex2, second_first, False)
  with untraced():
    return not _tabs(0, *a)


def two_tabs_eam_after_plain(idx1: int, ex1: bool, idx2: int, ex2: bool, second_first: bool) -> bool:
  """
  pre: 0 <= idx1 < 8 and 0 <= idx2 < 8
  post: _
  """
  # the unfiltered file is tabulated first, and once more after the views
  a = _conc(idx1, ex1, idx2, ex2, second_first, True)
  with untraced():
    return not _tabs(0, *a)


def two_tabs_fs(idx1: int, ex1: bool, idx2: int, ex2: bool, second_first: bool) -> bool:
  """
  pre: 0 <= idx1 < 8 and 0 <= idx2 < 8
  post: _
  """
  a = _conc(idx1, ex1, idx2, ex2, second_first, False)
  with untraced():
    return not _tabs(1, *a)


def two_tabs_fs_after_plain(idx1: int, ex1: bool, idx2: int, ex2: bool, second_first: bool) -> bool:
  """
  pre: 0 <= idx1 < 8 and 0 <= idx2 < 8
  post: _
  """
  # the unfiltered file is tabulated first, and once more after the views
  a = _conc(idx1, ex1, idx2, ex2, second_first, True)
  with untraced():
    return not _tabs(1, *a)


def two_tabs_pair(idx1: int, ex1: bool, idx2: int, ex2: bool, second_first: bool) -> bool:
  """
  pre: 0 <= idx1 < 8 and 0 <= idx2 < 8
  post: _
  """
  a = _conc(idx1, ex1, idx2, ex2, second_first, False)
  with untraced():
    return not _tabs(2, *a)


def two_tabs_pair_after_plain(idx1: int, ex1: bool, idx2: int, ex2: bool, second_first: bool) -> bool:
  """
  pre: 0 <= idx1 < 8 and 0 <= idx2 < 8
  post: _
  """
  # the unfiltered file is tabulated first, and once more after the views
  a = _conc(idx1, ex1, idx2, ex2, second_first, True)
  with untraced():
    return not _tabs(2, *a)


def _rp_tabs(model, idx1, ex1, idx2, ex2, second_first, plain_first):
  s1, s2 = list(TAB_SUBSETS[idx1]), list(TAB_SUBSETS[idx2])
  bad = _tabs(model, s1, ex1, s2, ex2, second_first, plain_first)
  if not bad:
    return False, "tabulations from the views equal those of the hand-edited files", "agree"
  # alone: each view tabulated from a freshly parsed file
  alone = []
  for s_, ex in ((s1, ex1), (s2, ex2)):
    fresh = ConfigParser(io.StringIO(tab_text(model)))
    alone.append(tab_signature(make_view(fresh, s_, ex)) != _tab_expected(model, s_, ex))
  who, got, want = bad[0]
  return True, "%s target: views (%s=%r) and (%s=%r) of one parsed file tabulated %s%s: the %s tabulation is built from %r, the hand-edited file gives %r" % (
    TAB_MODELS[model][0], "exclude" if ex1 else "include", s1, "exclude" if ex2 else "include", s2, "second first" if second_first else "in order",
    ", after the unfiltered file" if plain_first else "", who, got, want), ("tabulated-single-view" if any(alone) else "tabulated-views-interfere")


def _rp_one(model, idx, exclude):
  cp, names = views_of(model)
  species = mlabels(model, idx)
  view = make_view(cp, species, exclude)
  _touch_other_accessors(view, names)
  for n in names:
    got, want = getattr(view, n), spec(getattr(cp, n), species, exclude)
    if got != want:
      return True, "FilteredConfigParser(%s=%r).%s keeps %r; deleting by hand keeps %r" % (
        "exclude" if exclude else "include", species, n, [e.species for e in got], [e.species for e in want]), \
        "%s-%s%s" % (n, "exclude" if exclude else "include", "-empty" if not species else "")
  return False, "view agrees with the specification", "agree"


def _rp_two(model, idx1, ex1, idx2, ex2, second_first):
  cp, names = views_of(model)
  s1, s2 = mlabels(model, idx1), mlabels(model, idx2)
  alone = _rp_one(model, idx1, ex1)[0] or _rp_one(model, idx2, ex2)[0]
  v1 = make_view(cp, s1, ex1)
  v2 = make_view(cp, s2, ex2)
  for (v, s_, ex, who) in ((v1, s1, ex1, "first"), (v2, s2, ex2, "second")):
    _touch_other_accessors(v, names)
    for n in names:
      got, want = getattr(v, n), spec(getattr(cp, n), s_, ex)
      if got != want:
        if alone:
          return True, "a single view already deviates (see one_view)", "single-view"
        return True, "with views (%s=%r) and (%s=%r) of one parser, the %s view's %s keeps %r instead of %r" % (
          "exclude" if ex1 else "include", s1, "exclude" if ex2 else "include", s2, who, n, [e.species for e in got], [e.species for e in want]), "views-interfere"
  return False, "views are independent", "agree"


REPLAY = dict(
  one_view_containers=_rp_containers,
  two_tabs_eam=lambda idx1, ex1, idx2, ex2, second_first: _rp_tabs(0, idx1, ex1, idx2, ex2, second_first, False),
  two_tabs_fs=lambda idx1, ex1, idx2, ex2, second_first: _rp_tabs(1, idx1, ex1, idx2, ex2, second_first, False),
  two_tabs_pair=lambda idx1, ex1, idx2, ex2, second_first: _rp_tabs(2, idx1, ex1, idx2, ex2, second_first, False),
  two_tabs_eam_after_plain=lambda idx1, ex1, idx2, ex2, second_first: _rp_tabs(0, idx1, ex1, idx2, ex2, second_first, True),
  two_tabs_fs_after_plain=lambda idx1, ex1, idx2, ex2, second_first: _rp_tabs(1, idx1, ex1, idx2, ex2, second_first, True),
  two_tabs_pair_after_plain=lambda idx1, ex1, idx2, ex2, second_first: _rp_tabs(2, idx1, ex1, idx2, ex2, second_first, True),
  one_view_pair=lambda idx, exclude: _rp_one(0, idx, exclude), one_view_eam=lambda idx, exclude: _rp_one(1, idx, exclude),
  one_view_fs=lambda idx, exclude: _rp_one(2, idx, exclude),
  one_view_charged=lambda idx, exclude: _rp_one(3, idx, exclude),
  two_views_pair=lambda idx1, ex1, idx2, ex2, second_first: _rp_two(0, idx1, ex1, idx2, ex2, second_first),
  two_views_eam=lambda idx1, ex1, idx2, ex2, second_first: _rp_two(1, idx1, ex1, idx2, ex2, second_first),
  two_views_fs=lambda idx1, ex1, idx2, ex2, second_first: _rp_two(2, idx1, ex1, idx2, ex2, second_first),
  two_views2_pair_i_i=lambda idx1, idx2, second_first: _rp_two(0, idx1, False, idx2, False, second_first),
  two_views2_pair_i_x=lambda idx1, idx2, second_first: _rp_two(0, idx1, False, idx2, True, second_first),
  two_views2_pair_x_i=lambda idx1, idx2, second_first: _rp_two(0, idx1, True, idx2, False, second_first),
  two_views2_pair_x_x=lambda idx1, idx2, second_first: _rp_two(0, idx1, True, idx2, True, second_first),
  two_views2_eam_i_i=lambda idx1, idx2, second_first: _rp_two(1, idx1, False, idx2, False, second_first),
  two_views2_eam_i_x=lambda idx1, idx2, second_first: _rp_two(1, idx1, False, idx2, True, second_first),
  two_views2_eam_x_i=lambda idx1, idx2, second_first: _rp_two(1, idx1, True, idx2, False, second_first),
  two_views2_eam_x_x=lambda idx1, idx2, second_first: _rp_two(1, idx1, True, idx2, True, second_first),
  two_views2_fs_i_i=lambda idx1, idx2, second_first: _rp_two(2, idx1, False, idx2, False, second_first),
  two_views2_fs_i_x=lambda idx1, idx2, second_first: _rp_two(2, idx1, False, idx2, True, second_first),
  two_views2_fs_x_i=lambda idx1, idx2, second_first: _rp_two(2, idx1, True, idx2, False, second_first),
  two_views2_fs_x_x=lambda idx1, idx2, second_first: _rp_two(2, idx1, True, idx2, True, second_first),
)
THOROUGH = ['two_views2_pair_i_i', 'two_views2_pair_i_x', 'two_views2_pair_x_i', 'two_views2_pair_x_x', 'two_views2_eam_i_i', 'two_views2_eam_i_x', 'two_views2_eam_x_i', 'two_views2_eam_x_x', 'two_views2_fs_i_i', 'two_views2_fs_i_x', 'two_views2_fs_x_i', 'two_views2_fs_x_x']
