"""CrossHair conditions for C13: FilteredConfigParser views equal the specification filter."""
import sys, os, io
sys.path.insert(0, os.path.dirname(os.path.dirname(os.path.abspath(__file__))))
from symx import shims
shims.import_repo()
from typing import List

from atsim.potentials.config import ConfigParser, FilteredConfigParser

PAIR_MODEL = """[Pair]
Mg-O : as.buck 1279.69 0.29969 0.0
O-Al : as.buck 1361.29 0.3013 0.0
O-O : as.buck 9547.96 0.21916 32.0
Al-Mg : as.zero
"""
EAM_MODEL = """[Pair]
Al-Al : as.zero
Cu-Al : as.zero
[EAM-Embed]
Al : as.zero
Cu : as.zero
Ni : as.zero
[EAM-Density]
Cu : as.zero
Ni : as.zero
Al : as.zero
"""
FS_MODEL = """[Pair]
Al-Al : as.zero
Fe-Al : as.zero
[EAM-Embed]
Al : as.zero
Fe : as.zero
[EAM-Density]
Al->Al : as.zero
Fe->Al : as.zero
Al->Fe : as.zero
Fe->Fe : as.zero
Ni->Fe : as.zero
"""
CHARGED_MODEL = """[Pair]
Ce4+-O2- : as.zero
O2--Ce3+ : as.zero
O2--O2- : as.zero
Ce3+-Ce4+ : as.zero
[EAM-Embed]
Ce4+ : as.zero
Ce3+ : as.zero
[EAM-Density]
Ce4+->Ce3+ : as.zero
Ce3+->Ce4+ : as.zero
Ce3+->Ce3+ : as.zero
O2-->Ce4+ : as.zero
"""
UNIV = ["Al", "O", "Mg", "Cu", "Ni", "Fe", "Zz"]
PAIR = ConfigParser(io.StringIO(PAIR_MODEL))
EAM = ConfigParser(io.StringIO(EAM_MODEL))
FS = ConfigParser(io.StringIO(FS_MODEL))
try:
  CHARGED = ConfigParser(io.StringIO(CHARGED_MODEL.replace("O2-", "O")))
except Exception:  # noqa
  CHARGED = None

TARGETS = {n: "_filtered_config_parser.FilteredConfigParser.__init__/_check_tuple/pair/eam_embed/eam_density/eam_density_fs"
           for n in ("one_view_charged", "one_view_pair", "one_view_eam", "one_view_fs", "two_views_pair", "two_views_eam", "two_views_fs")}


def labels(idx):
  return [UNIV[i] for i in idx]


def keyset(species):
  if isinstance(species, str):
    return (species,)
  return tuple(species)


def spec(entries, species, exclude):
  """deleting by hand: exclude drops entries mentioning a listed species, include keeps entries whose species are all listed"""
  out = []
  for e in entries:
    ks = keyset(e.species)
    if exclude:
      keep = not any(k in species for k in ks)
    else:
      keep = all(k in species for k in ks)
    if keep:
      out.append(e)
  return out


def make_view(cp, species, exclude):
  if exclude:
    return FilteredConfigParser(cp, exclude=species)
  return FilteredConfigParser(cp, include=species)


def views_of(model):
  cp = (PAIR, EAM, FS, CHARGED)[model]
  names = (["pair"], ["pair", "eam_embed", "eam_density"], ["pair", "eam_embed", "eam_density_fs"], ["pair", "eam_embed", "eam_density_fs"])[model]
  return cp, names


def check_view(view, cp, names, species, exclude):
  for n in names:
    if getattr(view, n) != spec(getattr(cp, n), species, exclude):
      return False
  return True


MODEL_UNIV = (("Al", "O", "Mg", "Zz"), ("Al", "Cu", "Ni", "Zz"), ("Al", "Fe", "Ni", "Zz"), ("Ce4+", "Ce3+", "O", "Ce"))


def mlabels(model, idx):
  u = MODEL_UNIV[model]
  return [u[i] for i in idx]


def _one(model, idx, exclude):
  cp, names = views_of(model)
  species = mlabels(model, idx)
  return check_view(make_view(cp, species, exclude), cp, names, species, exclude)


def one_view_pair(idx: List[int], exclude: bool) -> bool:
  """
  pre: len(idx) <= 3 and all(0 <= i < 4 for i in idx)
  post: _
  """
  return _one(0, idx, exclude)


def one_view_eam(idx: List[int], exclude: bool) -> bool:
  """
  pre: len(idx) <= 3 and all(0 <= i < 4 for i in idx)
  post: _
  """
  return _one(1, idx, exclude)


def one_view_fs(idx: List[int], exclude: bool) -> bool:
  """
  pre: len(idx) <= 3 and all(0 <= i < 4 for i in idx)
  post: _
  """
  return _one(2, idx, exclude)


def one_view_charged(idx: List[int], exclude: bool) -> bool:
  """
  pre: len(idx) <= 3 and all(0 <= i < 4 for i in idx)
  post: _
  """
  # species labels are arbitrary text: charges ('Ce4+'), labels that are prefixes of others ('Ce')
  return _one(3, idx, exclude)


def _two(model, idx1, ex1, idx2, ex2, second_first):
  # a filtered view is unaffected by any other filtered view created from the same parsed file
  cp, names = views_of(model)
  s1, s2 = mlabels(model, idx1), mlabels(model, idx2)
  v1 = make_view(cp, s1, ex1)
  v2 = make_view(cp, s2, ex2)
  if second_first:
    return check_view(v2, cp, names, s2, ex2) and check_view(v1, cp, names, s1, ex1)
  return check_view(v1, cp, names, s1, ex1) and check_view(v2, cp, names, s2, ex2)


def two_views_pair(idx1: List[int], ex1: bool, idx2: List[int], ex2: bool, second_first: bool) -> bool:
  """
  pre: len(idx1) <= 1 and all(0 <= i < 4 for i in idx1)
  pre: len(idx2) <= 1 and all(0 <= i < 4 for i in idx2)
  post: _
  """
  return _two(0, idx1, ex1, idx2, ex2, second_first)


def two_views_eam(idx1: List[int], ex1: bool, idx2: List[int], ex2: bool, second_first: bool) -> bool:
  """
  pre: len(idx1) <= 1 and all(0 <= i < 4 for i in idx1)
  pre: len(idx2) <= 1 and all(0 <= i < 4 for i in idx2)
  post: _
  """
  return _two(1, idx1, ex1, idx2, ex2, second_first)


def two_views_fs(idx1: List[int], ex1: bool, idx2: List[int], ex2: bool, second_first: bool) -> bool:
  """
  pre: len(idx1) <= 1 and all(0 <= i < 4 for i in idx1)
  pre: len(idx2) <= 1 and all(0 <= i < 4 for i in idx2)
  post: _
  """
  return _two(2, idx1, ex1, idx2, ex2, second_first)


def two_views2_pair_i_i(idx1: List[int], idx2: List[int], second_first: bool) -> bool:
  """
  pre: len(idx1) <= 2 and all(0 <= i < 4 for i in idx1)
  pre: len(idx2) <= 2 and all(0 <= i < 4 for i in idx2)
  post: _
  """
  return _two(0, idx1, False, idx2, False, second_first)


def two_views2_pair_i_x(idx1: List[int], idx2: List[int], second_first: bool) -> bool:
  """
  pre: len(idx1) <= 2 and all(0 <= i < 4 for i in idx1)
  pre: len(idx2) <= 2 and all(0 <= i < 4 for i in idx2)
  post: _
  """
  return _two(0, idx1, False, idx2, True, second_first)


def two_views2_pair_x_i(idx1: List[int], idx2: List[int], second_first: bool) -> bool:
  """
  pre: len(idx1) <= 2 and all(0 <= i < 4 for i in idx1)
  pre: len(idx2) <= 2 and all(0 <= i < 4 for i in idx2)
  post: _
  """
  return _two(0, idx1, True, idx2, False, second_first)


def two_views2_pair_x_x(idx1: List[int], idx2: List[int], second_first: bool) -> bool:
  """
  pre: len(idx1) <= 2 and all(0 <= i < 4 for i in idx1)
  pre: len(idx2) <= 2 and all(0 <= i < 4 for i in idx2)
  post: _
  """
  return _two(0, idx1, True, idx2, True, second_first)


def two_views2_eam_i_i(idx1: List[int], idx2: List[int], second_first: bool) -> bool:
  """
  pre: len(idx1) <= 2 and all(0 <= i < 4 for i in idx1)
  pre: len(idx2) <= 2 and all(0 <= i < 4 for i in idx2)
  post: _
  """
  return _two(1, idx1, False, idx2, False, second_first)


def two_views2_eam_i_x(idx1: List[int], idx2: List[int], second_first: bool) -> bool:
  """
  pre: len(idx1) <= 2 and all(0 <= i < 4 for i in idx1)
  pre: len(idx2) <= 2 and all(0 <= i < 4 for i in idx2)
  post: _
  """
  return _two(1, idx1, False, idx2, True, second_first)


def two_views2_eam_x_i(idx1: List[int], idx2: List[int], second_first: bool) -> bool:
  """
  pre: len(idx1) <= 2 and all(0 <= i < 4 for i in idx1)
  pre: len(idx2) <= 2 and all(0 <= i < 4 for i in idx2)
  post: _
  """
  return _two(1, idx1, True, idx2, False, second_first)


def two_views2_eam_x_x(idx1: List[int], idx2: List[int], second_first: bool) -> bool:
  """
  pre: len(idx1) <= 2 and all(0 <= i < 4 for i in idx1)
  pre: len(idx2) <= 2 and all(0 <= i < 4 for i in idx2)
  post: _
  """
  return _two(1, idx1, True, idx2, True, second_first)


def two_views2_fs_i_i(idx1: List[int], idx2: List[int], second_first: bool) -> bool:
  """
  pre: len(idx1) <= 2 and all(0 <= i < 4 for i in idx1)
  pre: len(idx2) <= 2 and all(0 <= i < 4 for i in idx2)
  post: _
  """
  return _two(2, idx1, False, idx2, False, second_first)


def two_views2_fs_i_x(idx1: List[int], idx2: List[int], second_first: bool) -> bool:
  """
  pre: len(idx1) <= 2 and all(0 <= i < 4 for i in idx1)
  pre: len(idx2) <= 2 and all(0 <= i < 4 for i in idx2)
  post: _
  """
  return _two(2, idx1, False, idx2, True, second_first)


def two_views2_fs_x_i(idx1: List[int], idx2: List[int], second_first: bool) -> bool:
  """
  pre: len(idx1) <= 2 and all(0 <= i < 4 for i in idx1)
  pre: len(idx2) <= 2 and all(0 <= i < 4 for i in idx2)
  post: _
  """
  return _two(2, idx1, True, idx2, False, second_first)


def two_views2_fs_x_x(idx1: List[int], idx2: List[int], second_first: bool) -> bool:
  """
  pre: len(idx1) <= 2 and all(0 <= i < 4 for i in idx1)
  pre: len(idx2) <= 2 and all(0 <= i < 4 for i in idx2)
  post: _
  """
  return _two(2, idx1, True, idx2, True, second_first)


def _rp_one(model, idx, exclude):
  cp, names = views_of(model)
  species = mlabels(model, idx)
  view = make_view(cp, species, exclude)
  for n in names:
    got, want = getattr(view, n), spec(getattr(cp, n), species, exclude)
    if got != want:
      return True, "FilteredConfigParser(%s=%r).%s keeps %r; deleting by hand keeps %r" % (
        "exclude" if exclude else "include", species, n, [e.species for e in got], [e.species for e in want]), \
        "%s-%s%s" % (n, "exclude" if exclude else "include", "-empty" if not species else "")
  return False, "view agrees with the specification", "agree"


def _rp_two(model, idx1, ex1, idx2, ex2, second_first):
  cp, names = views_of(model)
  s1, s2 = mlabels(model, idx1), mlabels(model, idx2)
  alone = _rp_one(model, idx1, ex1)[0] or _rp_one(model, idx2, ex2)[0]
  v1 = make_view(cp, s1, ex1)
  v2 = make_view(cp, s2, ex2)
  for (v, s_, ex, who) in ((v1, s1, ex1, "first"), (v2, s2, ex2, "second")):
    for n in names:
      got, want = getattr(v, n), spec(getattr(cp, n), s_, ex)
      if got != want:
        if alone:
          return True, "a single view already deviates (see one_view)", "single-view"
        return True, "with views (%s=%r) and (%s=%r) of one parser, the %s view's %s keeps %r instead of %r" % (
          "exclude" if ex1 else "include", s1, "exclude" if ex2 else "include", s2, who, n, [e.species for e in got], [e.species for e in want]), "views-interfere"
  return False, "views are independent", "agree"


REPLAY = dict(
  one_view_pair=lambda idx, exclude: _rp_one(0, idx, exclude), one_view_eam=lambda idx, exclude: _rp_one(1, idx, exclude),
  one_view_fs=lambda idx, exclude: _rp_one(2, idx, exclude),
  one_view_charged=lambda idx, exclude: _rp_one(3, idx, exclude),
  two_views_pair=lambda idx1, ex1, idx2, ex2, second_first: _rp_two(0, idx1, ex1, idx2, ex2, second_first),
  two_views_eam=lambda idx1, ex1, idx2, ex2, second_first: _rp_two(1, idx1, ex1, idx2, ex2, second_first),
  two_views_fs=lambda idx1, ex1, idx2, ex2, second_first: _rp_two(2, idx1, ex1, idx2, ex2, second_first),
  two_views2_pair_i_i=lambda idx1, idx2, second_first: _rp_two(0, idx1, False, idx2, False, second_first),
  two_views2_pair_i_x=lambda idx1, idx2, second_first: _rp_two(0, idx1, False, idx2, True, second_first),
  two_views2_pair_x_i=lambda idx1, idx2, second_first: _rp_two(0, idx1, True, idx2, False, second_first),
  two_views2_pair_x_x=lambda idx1, idx2, second_first: _rp_two(0, idx1, True, idx2, True, second_first),
  two_views2_eam_i_i=lambda idx1, idx2, second_first: _rp_two(1, idx1, False, idx2, False, second_first),
  two_views2_eam_i_x=lambda idx1, idx2, second_first: _rp_two(1, idx1, False, idx2, True, second_first),
  two_views2_eam_x_i=lambda idx1, idx2, second_first: _rp_two(1, idx1, True, idx2, False, second_first),
  two_views2_eam_x_x=lambda idx1, idx2, second_first: _rp_two(1, idx1, True, idx2, True, second_first),
  two_views2_fs_i_i=lambda idx1, idx2, second_first: _rp_two(2, idx1, False, idx2, False, second_first),
  two_views2_fs_i_x=lambda idx1, idx2, second_first: _rp_two(2, idx1, False, idx2, True, second_first),
  two_views2_fs_x_i=lambda idx1, idx2, second_first: _rp_two(2, idx1, True, idx2, False, second_first),
  two_views2_fs_x_x=lambda idx1, idx2, second_first: _rp_two(2, idx1, True, idx2, True, second_first),
)
THOROUGH = ['two_views2_pair_i_i', 'two_views2_pair_i_x', 'two_views2_pair_x_i', 'two_views2_pair_x_x', 'two_views2_eam_i_i', 'two_views2_eam_i_x', 'two_views2_eam_x_i', 'two_views2_eam_x_x', 'two_views2_fs_i_i', 'two_views2_fs_i_x', 'two_views2_fs_x_i', 'two_views2_fs_x_x']
