#!/bin/sh
# dev helper: rebase_seed.sh <seed-dir>: re-create patch.diff against /repo HEAD with a 3-way apply (seeds were written against the pinned commit)
SD=$(realpath $1); D=$(mktemp -d /tmp/rebase.XXXXXX); rmdir $D
git -C /repo worktree add --detach $D HEAD -q || exit 2
cd $D
if git apply --check $SD/patch.diff 2>/dev/null; then echo "$(basename $SD): applies cleanly"; cd /; git -C /repo worktree remove --force $D; exit 0; fi
if git apply -3 $SD/patch.diff >/tmp/rebase.log 2>&1 && ! git diff --name-only --diff-filter=U | grep -q .; then
  git diff HEAD > $SD/patch.diff.new
  if grep -q '^<<<<<<<\|^+<<<<<<<' $SD/patch.diff.new; then echo "$(basename $SD): CONFLICT markers"; rm $SD/patch.diff.new; rc=1
  else mv $SD/patch.diff.new $SD/patch.diff; echo "$(basename $SD): rebased"; rc=0; fi
else
  echo "$(basename $SD): 3-way apply failed"; tail -3 /tmp/rebase.log; rc=1
fi
cd /; git -C /repo worktree remove --force $D; exit $rc
